"""Driver: seeded search over runs, minimisation, replay, evidence.

  python -m sim.check <ID> --tier quick|thorough [--replay FILE] [--runs N]

Exit codes: 0 held on everything explored (KNOWN-FINDING lines possible),
            1 VIOLATION property=<id> replay=<path>,
            2 HARNESS-ERROR (simulator fault, timeout, non-replayable failure).
"""
import argparse
import copy
import faulthandler
import json
import multiprocessing
import os
import subprocess
import sys
import time
import traceback
from collections import Counter
from concurrent.futures import ProcessPoolExecutor, FIRST_COMPLETED, wait
from concurrent.futures.process import BrokenProcessPool

from . import env

env.bootstrap()

from . import core  # noqa: E402

VERIF = core.VERIF_DIR

MACHINE_OF = {
    "C03": "batch", "C09": "batch",
    "C05": "hvsrobj", "C06": "hvsrobj", "C08": "hvsrobj", "C11": "hvsrobj",
    "C12": "hvsrobj", "C13": "hvsrobj", "C20": "hvsrobj",
    "C07": "reader", "C15": "settings", "C18": "recording", "C19": "cli",
}
BUDGET = {  # seconds of search (quick, thorough)
    "default": (25, 600), "C06": (35, 600), "C19": (40, 900), "C20": (40, 900), "C03": (30, 600), "C09": (30, 600),
}
CHUNK = {"default": 40, "C19": 1, "C20": 4, "C03": 6, "C09": 6, "C12": 8, "C11": 4, "C15": 20, "C08": 12, "C05": 20, "C06": 25}
RUN_TIMEOUT = {"default": 120, "C19": 300, "C20": 300}


def machine_for(prop):
    import importlib
    return importlib.import_module(f"sim.machines.{MACHINE_OF[prop]}")


# ------------------------------------------------------------------ worker ----
def _work(prop, batch_seed, start, count, per_run_timeout):
    """Execute runs start..start+count-1; return aggregated stats (+ first violation)."""
    faulthandler.dump_traceback_later(per_run_timeout * max(1, count) + 30, exit=True)
    try:
        m = machine_for(prop)
        if getattr(m, "ISOLATE", False) == "chunk":
            # the whole chunk runs in ONE forked child of this (never-used, hence pristine) worker: runs of a chunk
            # share a process like the calls of a user's session do; chunks cannot influence each other
            return core.run_isolated(_work_chunk, prop, batch_seed, start, count, True,
                                     timeout=per_run_timeout * max(1, count))
        return _work_chunk(prop, batch_seed, start, count, False)
    finally:
        faulthandler.cancel_dump_traceback_later()


def _work_chunk(prop, batch_seed, start, count, shared_process):
    if True:
        m = machine_for(prop)
        agg = {"runs": 0, "ops": 0, "probes": Counter(), "faults": Counter(), "judged": Counter(),
               "sigs": set(), "nontrivial": 0, "known": [], "sim_seconds": 0.0, "violation": None,
               "samples": [], "digests": []}
        for i in range(start, start + count):
            seed = core.run_seed(prop, batch_seed, i)
            triple = m.generate(seed, prop)
            triple["run_index"] = i
            triple["batch_seed"] = batch_seed
            res = core._execute_one(m, copy.deepcopy(triple), prop) if shared_process else core.execute_machine(m, triple, prop)
            agg["runs"] += 1
            agg["ops"] += res["ops"]
            agg["probes"].update(res["probes"])
            agg["faults"].update(res["faults"])
            agg["judged"].update(res["judged"])
            agg["sigs"].update(res["sigs"])
            agg["nontrivial"] += int(res["nontrivial"])
            agg["sim_seconds"] += res.get("sim_seconds", 0.0)
            agg["digests"].append((i, res["digest"]))
            for k in res["known"]:
                if k not in agg["known"]:
                    agg["known"].append(k)
            if len(agg["samples"]) < 1 and res["nontrivial"]:
                agg["samples"].append({"run_index": i, "run_seed": seed, "world": triple["world"],
                                       "ops": triple["ops"][:6], "config": triple.get("config")})
            if res["violation"]:
                agg["violation"] = {"triple": triple, "violation": res["violation"], "digest": res["digest"]}
                if shared_process:                  # the earlier runs of this process, should the violation depend on them
                    hist = []
                    for j in range(start, i):
                        t = m.generate(core.run_seed(prop, batch_seed, j), prop)
                        t["run_index"], t["batch_seed"] = j, batch_seed
                        hist.append(t)
                    agg["violation"]["history"] = hist
                break
        agg["sigs"] = sorted(agg["sigs"])
        agg["probes"], agg["faults"], agg["judged"] = dict(agg["probes"]), dict(agg["faults"]), dict(agg["judged"])
        return agg


def _warm(prop):
    """Bring this process to the state every chunk / isolated run / replay starts from: modules imported, kernels
    compiled and - for the machines that fork from here - a fixed handful of runs executed, so that lazily imported
    plug-ins and first-call caches of the dependencies are paid once instead of in every child.  The same warm-up
    precedes a replay, so 'pristine' means the same thing when searching, minimising and replaying."""
    m = machine_for(prop)
    w = getattr(m, "warm", None)
    if w:
        w(prop)
    else:
        m.hv()
    if getattr(m, "ISOLATE", False) == "chunk":
        import contextlib
        import io
        for i in range(8):
            try:
                with contextlib.redirect_stdout(io.StringIO()):
                    m.execute(m.generate(core.run_seed(prop, "warm", i), prop), prop)
            except Exception:                                   # noqa
                pass
    import gc
    gc.collect()
    gc.freeze()             # what exists now is never garbage: collections in the children only look at what they create


# ------------------------------------------------------------------ replay ----
def replay_file(prop, path, quiet=False):
    with open(path) as f:
        rep = json.load(f)
    m = machine_for(prop)
    res = core.execute_machine(m, rep["triple"], prop, history=rep.get("history") or None)
    v = res["violation"]
    exp = rep.get("expect", {})
    if v:
        line = f"VIOLATION property={prop} replay={path}"
        if not quiet:
            print(line)
            print(f"  oracle={v['oracle']} detail={v['detail']}")
            print(f"  digest={res['digest']}")
        same = (v["oracle"] == exp.get("oracle")) and (res["digest"] == exp.get("event_log_sha256"))
        return 1, same, res
    if not quiet:
        print(f"replay of {path}: no violation (digest {res['digest']})")
    return 0, False, res


def _fresh_replay(prop, path):
    """Replay in a fresh interpreter with another hash seed; must fail identically."""
    envv = dict(os.environ)
    envv["PYTHONHASHSEED"] = "12345"
    p = subprocess.run([sys.executable, "-m", "sim.check", prop, "--replay", path, "--verify"],
                       cwd=VERIF, env=envv, capture_output=True, text=True, timeout=900)
    return p.returncode, p.stdout + p.stderr


# ------------------------------------------------------------------- main ----
def write_evidence(prop, tier, batch_seed, wall, agg, violations, extra):
    m = machine_for(prop)
    info = getattr(m, "EVIDENCE", {}).get(prop, {})
    cov = {
        "evaluations": int(agg["runs"]),
        "distinct_nontrivial": int(len(agg["sigs"])),
        "rule": info.get("rule", "one evaluation = one simulated run generate(seed)->execute; a run is non-trivial when "
                         "at least one oracle of the property was evaluated on a state inside its domain after at least "
                         "one state-changing operation; distinct = distinct state signatures (see DESIGN appendix B) "
                         "among non-trivial runs"),
        "samples": agg["samples"][:3],
        "nontrivial_runs": int(agg["nontrivial"]),
        "operations_executed": int(agg["ops"]),
        "oracle_evaluations": {k: int(v) for k, v in sorted(agg["judged"].items())},
        "faults_fired": {k: int(v) for k, v in sorted(agg["faults"].items())},
        "probes": {k: int(v) for k, v in sorted(agg["probes"].items())},
        "runs_per_hour": int(agg["runs"] / max(wall, 1e-9) * 3600),
        "seeds": {"batch_seed": batch_seed, "run_indices": [0, int(agg["runs"]) - 1],
                  "derivation": "run_seed = int(sha256(f'{property}:{VERIF_SEED}:{index}')[:8],16)"},
        "simulated_seconds": agg.get("sim_seconds", 0.0),
        "simulated_time_note": info.get("sim_time_note", "this machine has no clock; simulated time is not meaningful here"),
        "components": info.get("components", {}),
        "known_findings_met": agg["known"],
        "reach_warnings": extra.get("reach_warnings", []),
        "workers": extra.get("workers"),
    }
    ev = {"property_id": prop, "tier": tier, "seed": int(batch_seed), "level": "exploration",
          "coverage": cov, "assumptions": info.get("assumptions", []), "wall_s": round(wall, 3),
          "violations": int(violations)}
    # /verif/evidence describes checks of /repo's working tree; the self-tests (mutants, seeded changes, controls) point
    # HVSRPY_REPO at a scratch copy and must not overwrite it
    from . import env as _env
    evdir = os.path.join(VERIF, "evidence") if os.path.realpath(_env.repo_path()) == os.path.realpath("/repo") \
        else os.path.join(VERIF, "replays", "evidence-scratch")
    os.makedirs(evdir, exist_ok=True)
    tmp = os.path.join(evdir, f"{prop}.json.tmp")
    with open(tmp, "w") as f:
        json.dump(ev, f, indent=1, sort_keys=True, default=core._default)
    os.replace(tmp, os.path.join(evdir, f"{prop}.json"))


def merge(total, part):
    total["runs"] += part["runs"]
    total["ops"] += part["ops"]
    total["nontrivial"] += part["nontrivial"]
    total["sim_seconds"] += part["sim_seconds"]
    for k in ("probes", "faults", "judged"):
        total[k].update(part[k])
    total["sigs"].update(part["sigs"])
    for k in part["known"]:
        if k not in total["known"]:
            total["known"].append(k)
    if len(total["samples"]) < 3:
        total["samples"].extend(part["samples"][:3 - len(total["samples"])])


def main(argv=None):
    ap = argparse.ArgumentParser()
    ap.add_argument("prop")
    ap.add_argument("--tier", default=os.environ.get("VERIF_TIER", "quick"), choices=["quick", "thorough"])
    ap.add_argument("--replay")
    ap.add_argument("--verify", action="store_true", help="with --replay: exit 3 unless oracle and digest match the file")
    ap.add_argument("--runs", type=int, default=int(os.environ.get("VERIF_RUNS", "0")))
    ap.add_argument("--workers", type=int, default=int(os.environ.get("VERIF_WORKERS", "0")))
    ap.add_argument("--no-minimise", action="store_true")
    ap.add_argument("--digests", help="write run digests to this file (determinism self-test)")
    a = ap.parse_args(argv)
    prop = a.prop
    if prop not in MACHINE_OF:
        print(f"HARNESS-ERROR unknown property {prop}")
        return 2
    if a.replay:
        try:
            _warm(prop)
            code, same, _ = replay_file(prop, a.replay)
        except Exception:
            traceback.print_exc()
            print("HARNESS-ERROR replay crashed")
            return 2
        if a.verify and code == 1 and not same:
            return 3
        return code

    os.environ["VERIF_TIER"] = a.tier
    batch_seed = int(os.environ.get("VERIF_SEED", "0"))
    qb, tb = BUDGET.get(prop, BUDGET["default"])
    budget = float(os.environ.get("VERIF_BUDGET_S", qb if a.tier == "quick" else tb))
    workers = a.workers or min(16, os.cpu_count() or 1)
    chunk = CHUNK.get(prop, CHUNK["default"])
    per_run_timeout = RUN_TIMEOUT.get(prop, RUN_TIMEOUT["default"])
    t0 = time.time()
    try:
        _warm(prop)
    except Exception:
        traceback.print_exc()
        print("HARNESS-ERROR warm-up failed")
        return 2
    total = {"runs": 0, "ops": 0, "probes": Counter(), "faults": Counter(), "judged": Counter(),
             "sigs": set(), "nontrivial": 0, "known": [], "sim_seconds": 0.0, "samples": []}
    first_violation = None
    digests = []
    next_index = 0
    target_runs = a.runs
    ctxmp = multiprocessing.get_context("fork")
    harness_error = None
    try:
        with ProcessPoolExecutor(max_workers=workers, mp_context=ctxmp) as ex:
            pending = {}

            def submit():
                nonlocal next_index
                n = chunk
                if target_runs:
                    n = min(n, target_runs - next_index)
                    if n <= 0:
                        return False
                fut = ex.submit(_work, prop, batch_seed, next_index, n, per_run_timeout)
                pending[fut] = (next_index, n)
                next_index += n
                return True

            for _ in range(workers * 2):
                if not submit():
                    break
            while pending:
                done, _ = wait(list(pending), timeout=per_run_timeout * chunk + 60, return_when=FIRST_COMPLETED)
                if not done:
                    harness_error = "timeout waiting for workers"
                    break
                for fut in done:
                    start, n = pending.pop(fut)
                    part = fut.result()
                    merge(total, part)
                    digests.extend(part["digests"])
                    if part["violation"] and (first_violation is None or
                                              part["violation"]["triple"]["run_index"] < first_violation["triple"]["run_index"]):
                        first_violation = part["violation"]
                stop = first_violation is not None or (not target_runs and time.time() - t0 > budget)
                if not stop:
                    while len(pending) < workers * 2:
                        if not submit():
                            break
            if harness_error:
                for fut in pending:
                    fut.cancel()
    except BrokenProcessPool:
        harness_error = "a worker process died (timeout or crash); see stderr"
    except Exception:
        traceback.print_exc()
        harness_error = "exception in simulator code"
    wall = time.time() - t0
    if a.digests:
        with open(a.digests, "w") as f:
            json.dump(sorted(digests), f)
    if harness_error:
        print(f"HARNESS-ERROR {harness_error}")
        return 2
    extra = {"workers": workers, "reach_warnings": []}
    m = machine_for(prop)
    for pname in getattr(m, "REQUIRED_PROBES", {}).get(prop, []):
        if total["probes"].get(pname, 0) == 0:
            extra["reach_warnings"].append(pname)
            print(f"REACH-WARNING property={prop} probe '{pname}' never fired in {total['runs']} runs")
    for k in total["known"]:
        print(f"KNOWN-FINDING: property={k['property']} {k['what']}")
    if first_violation is None:
        write_evidence(prop, a.tier, batch_seed, wall, total, 0, extra)
        print(f"OK property={prop} tier={a.tier} runs={total['runs']} nontrivial={total['nontrivial']} "
              f"distinct={len(total['sigs'])} ops={total['ops']} wall={wall:.1f}s")
        return 0
    # ---- violation: minimise, write replay, verify replay in a fresh interpreter
    triple, viol = first_violation["triple"], first_violation["violation"]
    execs = 0
    history = None
    if first_violation.get("history"):
        # found in a process shared with earlier runs of its chunk: does the run fail on its own, from a pristine state?
        try:
            alone = core.execute_machine(m, triple, prop)["violation"]
        except Exception:
            alone = None
        if not alone or alone["oracle"] != viol["oracle"]:
            history = first_violation["history"]
            print(f"note: run {triple.get('run_index')} fails only after earlier runs in the same process; "
                  f"the replay carries that history ({len(history)} runs before minimisation)")
    if not a.no_minimise:
        try:
            triple, execs = core.minimise(m, prop, triple, viol, history=history)
        except Exception:
            traceback.print_exc()
    res = core.execute_machine(m, triple, prop, history=history)
    if not res["violation"]:
        print("HARNESS-ERROR minimised triple does not fail")
        return 2
    os.makedirs(os.path.join(VERIF, "replays"), exist_ok=True)
    path = os.path.join(VERIF, "replays", f"{prop}-{triple.get('run_seed', 0)}.json")
    line = f"VIOLATION property={prop} replay={path}"
    with open(path, "w") as f:
        json.dump({"property": prop, "machine": MACHINE_OF[prop], "triple": triple, "history": history or [],
                   "expect": {"line": line, "oracle": res["violation"]["oracle"],
                              "detail": res["violation"]["detail"], "key": res["violation"]["key"],
                              "event_log_sha256": res["digest"]},
                   "minimiser_executions": execs}, f, indent=1, default=core._default)
    code, out = _fresh_replay(prop, path)
    write_evidence(prop, a.tier, batch_seed, time.time() - t0, total, 1, extra)
    if code != 1:
        print(out)
        print(f"HARNESS-ERROR violation found but the replay file did not reproduce it exactly (exit {code}); "
              f"oracle={res['violation']['oracle']} detail={res['violation']['detail']}")
        return 2
    print(line)
    print(f"  oracle={res['violation']['oracle']}")
    print(f"  detail={res['violation']['detail']}")
    print(f"  key={json.dumps(res['violation']['key'], default=core._default)} run_index={triple.get('run_index')} "
          f"minimised with {execs} executions to {len(triple['ops'])} ops"
          + (f" after a history of {len(history)} earlier run(s)" if history else ""))
    return 1


if __name__ == "__main__":
    sys.exit(main())
