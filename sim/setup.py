"""setup_cmd: offline import check of everything the checks need."""
import sys

from . import env

env.bootstrap()


def main():
    import numpy, scipy, obspy, numba, matplotlib, pandas, click  # noqa
    hv = env.import_hvsrpy()
    print("hvsrpy", hv.__version__, "from", hv.__file__)
    print("numpy", numpy.__version__, "scipy", scipy.__version__, "obspy", obspy.__version__,
          "numba", numba.__version__, "matplotlib", matplotlib.__version__)
    from . import core, simfs, snapshot, check  # noqa
    return 0


if __name__ == "__main__":
    sys.exit(main())
