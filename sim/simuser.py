"""SimUser: the human in ``manual_window_rejection`` replaced by a scripted
stream of click pairs (DESIGN 2.5).  The real function and the real plotting run
on the Agg back end; only ``ginput_session`` is a stub."""
import copy
import warnings

import numpy as np


class TooManyClicks(Exception):
    pass


def run_manual(ctx, obj, op, f):
    from .env import import_hvsrpy
    H = import_hvsrpy()
    import hvsrpy.window_rejection as WR
    import hvsrpy.interact as IA
    import matplotlib.pyplot as plt

    boxes = list(op.get("boxes", []))
    calls = [0]

    def fake_ginput(fig, ax, **kwargs):
        calls[0] += 1
        ctx.sim_seconds += 1.0                      # one simulated second per user action
        if calls[0] > len(boxes) + 3:
            raise TooManyClicks()
        if calls[0] <= len(boxes):
            b = boxes[calls[0] - 1]
            xs = [float(f[b["i0"]]) * 0.999, float(f[b["i1"]]) * 1.001]
            ys = [float(b["y0"]), float(b["y1"])]
            return xs, ys
        # click twice on the same spot inside the "continue" box
        x = IA._relative_to_absolute(0.06, ax.get_xlim(), ax.get_xscale())
        y = IA._relative_to_absolute(0.94, ax.get_ylim(), ax.get_yscale())
        return [float(x), float(x)], [float(y), float(y)]

    old = WR.ginput_session
    WR.ginput_session = fake_ginput
    exc = None
    try:
        with warnings.catch_warnings():
            warnings.simplefilter("ignore")
            with np.errstate(all="ignore"):
                H.manual_window_rejection(obj, distribution_mc=op["dmc"], distribution_fn=op["dfn"],
                                          search_range_in_hz=tuple(op["range"]),
                                          find_peaks_kwargs=copy.deepcopy(op["kwargs"]))
    except Exception as e:                          # noqa
        exc = e
    finally:
        WR.ginput_session = old
        plt.close("all")
    ctx.probe("manual_session")
    if isinstance(exc, TooManyClicks):
        ctx.probe("manual_session_did_not_end")
    return exc
