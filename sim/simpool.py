"""SimPool / SimClock (DESIGN 2.4): real forked worker processes driven in
lock-step by a seeded scheduler.

Real: fork (children inherit the parent's state at pool construction, as with
multiprocessing's fork start method), ``multiprocessing.pool.Pool._get_tasks``
chunking, one pickle per chunk, the task function itself.
Stub: task queue, worker management, the clock.

Every execution produced is one the real pool can produce: the queue is FIFO,
a worker unpickles a chunk once and runs its tasks in order; *which* idle
worker takes the head chunk and *when* each worker advances is decided by the
scheduler's PRNG (or by a recorded decision list on replay)."""
import os
import pickle
import signal
import sys
import traceback
from multiprocessing.connection import Connection
from multiprocessing.pool import Pool as RealPool

from .core import HarnessError


class SimClock:
    """Stands in for the ``time`` module inside hvsrpy.cli."""

    def __init__(self):
        self.now = 0.0

    def perf_counter(self):
        return self.now

    def time(self):
        return self.now

    def sleep(self, s):
        self.now += s


class SimOs:
    """Stands in for ``os`` inside hvsrpy.cli: only cpu_count differs."""

    def __init__(self, cpus):
        self._cpus = cpus

    def cpu_count(self):
        return self._cpus

    def __getattr__(self, name):
        return getattr(os, name)


def _child_main(rd, wr, clock):
    """Worker process: obey the parent, one step at a time."""
    devnull = os.open(os.devnull, os.O_WRONLY)
    os.dup2(devnull, 1)
    sys.stdout = open(1, "w", closefd=False)
    tasks = None
    func = None
    try:
        while True:
            msg = rd.recv()
            if msg[0] == "exit":
                break
            if msg[0] == "chunk":
                star, (func, batch) = pickle.loads(msg[1])  # ONE unpickle per chunk
                tasks = list(batch)
                wr.send(("loaded", len(tasks)))
            elif msg[0] == "go":
                clock.now = msg[1]
                args = tasks.pop(0)
                try:
                    ret = func(*args) if star else func(args)
                    clock.now += msg[2]
                    try:
                        pickle.dumps(ret)
                    except Exception:                         # noqa
                        ret = None
                    wr.send(("done", True, ret))
                except BaseException as e:                    # noqa
                    # like multiprocessing's mapstar (list(map(func, chunk))): an exception ends the whole chunk
                    tasks = []
                    wr.send(("done", False, f"{type(e).__name__}: {e}"))
    except EOFError:
        pass
    except BaseException:                                     # noqa
        traceback.print_exc()
    finally:
        os._exit(0)


class Worker:
    def __init__(self, idx, clock):
        p2c_r, p2c_w = os.pipe()
        c2p_r, c2p_w = os.pipe()
        pid = os.fork()
        if pid == 0:
            os.close(p2c_w)
            os.close(c2p_r)
            signal.signal(signal.SIGINT, signal.SIG_DFL)
            _child_main(Connection(p2c_r, writable=False), Connection(c2p_w, readable=False), clock)
        os.close(p2c_r)
        os.close(c2p_w)
        self.idx, self.pid = idx, pid
        self.tx = Connection(p2c_w, readable=False)
        self.rx = Connection(c2p_r, writable=False)
        self.remaining = 0          # tasks left in its current chunk
        self.chunk = None
        self.stalled = 0
        self.chunks_run = 0

    def recv(self, timeout=600):
        if not self.rx.poll(timeout):
            raise HarnessError(f"worker {self.idx} did not answer within {timeout}s")
        return self.rx.recv()

    def close(self):
        try:
            self.tx.send(("exit",))
        except Exception:                                     # noqa
            pass
        try:
            self.tx.close()
            self.rx.close()
        except Exception:                                     # noqa
            pass
        try:
            os.waitpid(self.pid, 0)
        except ChildProcessError:
            pass


class Scheduler:
    """Seeded or recorded decisions."""

    def __init__(self, rng=None, recorded=None, fifo=False, stall_rate=0.15):
        self.rng, self.recorded, self.fifo = rng, list(recorded) if recorded is not None else None, fifo
        self.stall_rate = stall_rate
        self.decisions = []

    def choose(self, enabled):
        if self.recorded is not None:
            if not self.recorded:
                raise HarnessError("recorded schedule exhausted")
            d = self.recorded.pop(0)
            if d not in enabled:
                raise HarnessError(f"recorded decision {d} is not enabled: the replay belongs to another tree")
        elif self.fifo:
            d = sorted(enabled, key=lambda a: (a[0] != "assign", a[1:]))[0]
        else:
            stalls = [a for a in enabled if a[0] == "stall"]
            others = [a for a in enabled if a[0] != "stall"]
            if stalls and others and self.rng.random() < self.stall_rate:
                d = self.rng.choice(stalls)
            else:
                d = self.rng.choice(others or stalls)
        self.decisions.append(list(d))
        return d


class SimPool:
    def __init__(self, processes, scheduler, clock, ctx=None, on_step=None, task_seconds=None):
        if processes < 1:
            raise ValueError("Number of processes must be at least 1")
        self.scheduler, self.clock, self.ctx, self.on_step = scheduler, clock, ctx, on_step
        self.task_seconds = task_seconds or (lambda: 1.0)
        self.workers = [Worker(i, clock) for i in range(processes)]
        self.errors = []
        self.assignment = []       # chunk index -> worker index
        self.chunks = []

    def __enter__(self):
        return self

    def __exit__(self, *exc):
        self.terminate()
        return False

    def terminate(self):
        for w in self.workers:
            w.close()
        self.workers = []

    def map(self, func, iterable, chunksize=None):
        return self._map(func, iterable, chunksize, star=False)

    def imap(self, func, iterable, chunksize=1):
        return iter(self._map(func, iterable, chunksize, star=False))

    imap_unordered = imap

    def starmap(self, func, iterable, chunksize=None):
        return self._map(func, iterable, chunksize, star=True)

    def close(self):
        pass

    def join(self):
        self._drain_async()

    # -- apply_async: every call is a chunk of one task; they are executed (under the scheduler) when the caller first
    #    waits for one of them, in submission order of the queue like the real pool's task queue
    def apply_async(self, func, args=(), kwds=None, callback=None, error_callback=None):
        res = SimAsyncResult(self)
        self._pending = getattr(self, "_pending", [])
        self._pending.append((_Apply(func, dict(kwds or {})), tuple(args), callback, error_callback, res))
        return res

    def apply(self, func, args=(), kwds=None):
        return self.apply_async(func, args, kwds).get()

    def map_async(self, func, iterable, chunksize=None, callback=None, error_callback=None):
        res = SimAsyncResult(self)
        try:
            res._set(True, self._map(func, iterable, chunksize, star=False))
        except RuntimeError as e:
            res._set(False, e)
            if error_callback:
                error_callback(e)
        else:
            if callback:
                callback(res._value)
        return res

    def starmap_async(self, func, iterable, chunksize=None, callback=None, error_callback=None):
        res = SimAsyncResult(self)
        try:
            res._set(True, self._map(func, iterable, chunksize, star=True))
        except RuntimeError as e:
            res._set(False, e)
            if error_callback:
                error_callback(e)
        else:
            if callback:
                callback(res._value)
        return res

    def _drain_async(self):
        pending, self._pending = getattr(self, "_pending", []), []
        if not pending:
            return
        batches = [(f, (a,)) for f, a, _cb, _ecb, _r in pending]
        outcome = self._execute(batches, star=True, raise_errors=False)
        for (f, a, cb, ecb, r), chunk_out in zip(pending, outcome):
            ok, payload = chunk_out[0]
            if ok:
                r._set(True, payload)
                if cb:
                    cb(payload)
            else:
                err = RuntimeError(payload)
                r._set(False, err)
                if ecb:
                    ecb(err)

    def _map(self, func, iterable, chunksize, star):
        if not hasattr(iterable, "__len__"):
            iterable = list(iterable)
        if chunksize is None:
            chunksize, extra = divmod(len(iterable), len(self.workers) * 4)
            if extra:
                chunksize += 1
        if len(iterable) == 0:
            chunksize = 0
        batches = list(RealPool._get_tasks(func, iterable, chunksize))   # the real chunking code
        out = self._execute(batches, star)
        return [v for chunk in out for ok, v in chunk]

    def _execute(self, batches, star, raise_errors=True):
        self.chunks = [len(b[1]) for b in batches]
        outcome = [[] for _ in batches]
        queue = [(i, pickle.dumps((star, b))) for i, b in enumerate(batches)]     # one pickle per chunk
        self.assignment = [None] * len(batches)
        step = 0
        while queue or any(w.remaining for w in self.workers):
            enabled = []
            for w in self.workers:
                if w.stalled:
                    continue
                if w.remaining == 0 and queue:
                    enabled.append(("assign", queue[0][0], w.idx))
                elif w.remaining > 0:
                    enabled.append(("run", w.idx))
            can_stall = [w for w in self.workers if not w.stalled and (w.remaining or queue)]
            if len(can_stall) > 1:
                for w in can_stall:
                    enabled.append(("stall", w.idx))
            if not enabled:                                   # everybody stalled: time passes
                for w in self.workers:
                    w.stalled = max(0, w.stalled - 1)
                self.clock.now += 1.0
                continue
            d = self.scheduler.choose(enabled)
            if d[0] == "assign":
                ci, blob = queue.pop(0)
                w = self.workers[d[2]]
                w.tx.send(("chunk", blob))
                msg = w.recv()
                if msg[0] != "loaded":
                    raise HarnessError(f"unexpected reply {msg}")
                w.remaining, w.chunk = msg[1], ci
                w.chunks_run += 1
                self.assignment[ci] = w.idx
                self.clock.now += 0.01
            elif d[0] == "run":
                w = self.workers[d[1]]
                dur = float(self.task_seconds())
                w.tx.send(("go", self.clock.now, dur))
                msg = w.recv()
                if msg[0] != "done":
                    raise HarnessError(f"unexpected reply {msg}")
                w.remaining -= 1
                self.clock.now += dur
                outcome[w.chunk].append((bool(msg[1]), msg[2]))
                if not msg[1]:
                    self.errors.append((w.chunk, msg[2]))
                    outcome[w.chunk].extend([(False, "not run: an earlier task of the chunk raised")] * w.remaining)
                    self.aborted_tasks = getattr(self, "aborted_tasks", 0) + w.remaining
                    w.remaining = 0
            else:
                w = self.workers[d[1]]
                w.stalled = 3
                self.clock.now += 5.0
                if self.ctx is not None:
                    self.ctx.fault("stalled_worker")
            for w in self.workers:
                if w.stalled and d[0] != "stall":
                    w.stalled -= 1
            step += 1
            if self.on_step:
                self.on_step(step, d)
        self.last_outcome = outcome
        if self.errors and raise_errors:
            raise RuntimeError("task failed in worker: " + "; ".join(e[1] for e in self.errors))
        return outcome


class _Apply:
    """func(*args, **kwds) as a picklable callable of positional arguments."""

    def __init__(self, func, kwds):
        self.func, self.kwds = func, kwds

    def __call__(self, *args):
        return self.func(*args, **self.kwds)


class SimAsyncResult:
    def __init__(self, pool):
        self._pool, self._done, self._ok, self._value = pool, False, None, None

    def _set(self, ok, value):
        self._done, self._ok, self._value = True, ok, value

    def wait(self, timeout=None):
        if not self._done:
            self._pool._drain_async()

    def ready(self):
        return self._done

    def successful(self):
        if not self._done:
            raise ValueError("result is not ready")
        return bool(self._ok)

    def get(self, timeout=None):
        self.wait()
        if self._ok:
            return self._value
        raise self._value
