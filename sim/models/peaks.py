"""Independent peak model for C08 (numpy only; never imports hvsrpy).

A *candidate* is a local maximum of a 1-D array: a maximal run of equal
samples [l..r] whose outer neighbours l-1 and r+1 both exist and are strictly
lower.  For a single sample l == r.

Two readings of "strictly inside the search range" exist (DESIGN 3.2):
 - snapped: the bounds snap to the nearest grid samples lo, hi and the whole
   run together with its two outer neighbours lies in [lo, hi]
   (None -> the grid end);
 - hertz:   every sample of the run has f_low < f < f_high.
`required`  = candidates inside under BOTH readings (the code must not report a
              lower peak than any of these, and must report a peak if one exists),
`allowed`   = candidates inside under EITHER reading (what may be reported).
"""
import numpy as np


def runs_of_maxima(v):
    """All local maxima of v as (l, r) inclusive index runs."""
    v = np.asarray(v, dtype=float)
    n = len(v)
    out = []
    i = 1
    while i < n - 1:
        if v[i] > v[i - 1]:
            j = i
            while j + 1 < n and v[j + 1] == v[i]:
                j += 1
            if j + 1 < n and v[j + 1] < v[i]:
                out.append((i, j))
            i = j + 1
        else:
            i += 1
    return out


def snap(frequency, bound, default):
    if bound is None:
        return default
    f = np.asarray(frequency)
    if np.isinf(bound):                 # every sample is infinitely far away: the nearest one is the extreme one on that side
        return int(np.argmax(f)) if bound > 0 else int(np.argmin(f))
    return int(np.argmin(np.abs(f - bound)))


def classify(frequency, v, search_range):
    """Return dict(required=[(l,r)…], allowed=[(l,r)…], lo=, hi=)."""
    f = np.asarray(frequency, dtype=float)
    n = len(f)
    f_low, f_high = search_range
    lo = snap(f, f_low, 0)
    hi = snap(f, f_high, n - 1)
    required, allowed = [], []
    for (l, r) in runs_of_maxima(v):
        in_snapped = (l - 1 >= lo) and (r + 1 <= hi)
        in_hertz = ((f_low is None or f[l] > f_low) and
                    (f_high is None or f[r] < f_high))
        if in_snapped and in_hertz:
            required.append((l, r))
        if in_snapped or in_hertz:
            allowed.append((l, r))
    return dict(required=required, allowed=allowed, lo=lo, hi=hi)


def canonical_peak(frequency, v, search_range):
    """The peak the snapped reading defines: highest run in the snapped window,
    first one among equal heights, left-middle sample of a plateau.
    Returns (index or None, n_tied) where n_tied counts runs at the top height."""
    f = np.asarray(frequency, dtype=float)
    v = np.asarray(v, dtype=float)
    n = len(f)
    f_low, f_high = search_range
    lo = snap(f, f_low, 0)
    hi = snap(f, f_high, n - 1)
    best, best_h, tied = None, -np.inf, 0
    for (l, r) in runs_of_maxima(v):
        if (l - 1 >= lo) and (r + 1 <= hi):
            h = v[l]
            if h > best_h:
                best, best_h, tied = (l + r) // 2, h, 1
            elif h == best_h:
                tied += 1
    return best, tied


def judge_peak(frequency, v, search_range, rep_f, rep_a):
    """Judge a reported (frequency, amplitude) pair (NaN/None = absent).

    Returns (ok, oracle_name, detail)."""
    f = np.asarray(frequency, dtype=float)
    v = np.asarray(v, dtype=float)
    c = classify(f, v, search_range)
    absent = rep_f is None or (isinstance(rep_f, float) and np.isnan(rep_f)) or \
        (not isinstance(rep_f, float) and np.isnan(float(rep_f)))
    if absent:
        if c["required"]:
            l, r = max(c["required"], key=lambda lr: v[lr[0]])
            return (False, "peak_missed",
                    f"peak reported absent but a local maximum lies strictly inside "
                    f"the range at f={f[l]!r} (index {l}, amplitude {v[l]!r}), range={search_range}")
        return True, None, None
    rep_f = float(rep_f)
    rep_a = float(rep_a)
    idx = np.nonzero(f == rep_f)[0]
    if len(idx) == 0:
        return (False, "peak_not_on_grid",
                f"reported peak frequency {rep_f!r} is not a grid frequency")
    i = int(idx[0])
    if not (v[i] == rep_a):
        return (False, "peak_amplitude_mismatch",
                f"reported amplitude {rep_a!r} != curve value {v[i]!r} at f={rep_f!r}")
    on = [(l, r) for (l, r) in c["allowed"] if l <= i <= r]
    if not on:
        return (False, "peak_not_interior_local_max",
                f"reported peak f={rep_f!r} (index {i}) is not a local maximum strictly "
                f"inside range={search_range} (snapped indices {c['lo']}..{c['hi']})")
    for (l, r) in c["required"]:
        if v[l] > rep_a:
            return (False, "higher_peak_in_range",
                    f"reported peak amplitude {rep_a!r} at f={rep_f!r} but the local maximum at "
                    f"f={f[l]!r} (index {l}) inside range={search_range} is higher: {v[l]!r}")
    return True, None, None
