"""Reference implementation of the frequency-domain window-rejection algorithm
of Cox, Cheng, Vantassel & Manuel (2020), numpy only.

Input is the *entry state*: per-window peak frequencies (NaN = no peak), the
accept mask, the curves, the search range for the mean-curve peak.  Output:
final mask, number of iterations, a status and the per-iteration masks.

status:
  ok          every comparison was decided with a clear margin
  tie         some comparison was within a float-tie margin (not judged)
  degenerate  fewer than two accepted peaks at some evaluation, or no accepted
              window (the published algorithm does not define that state)
  nopeak      the mean curve has no peak in the range (real code raises)
"""
import numpy as np

from . import stats
from .peaks import canonical_peak

TIE = 1e-9
ZERO = 1e-12


def _mean_curve(amp, mask, dist):
    rows = amp[mask]
    if rows.shape[0] == 1:
        return rows[0].copy()
    return stats.mean(rows, dist, axis=0)


def run(freq, amp, peak_f, mask, n, max_iterations, dist_fn, dist_mc, search_range, quantities=None):
    freq = np.asarray(freq, float)
    amp = np.asarray(amp, float)
    peak_f = np.asarray(peak_f, float)
    mask = np.array(mask, dtype=bool)
    status = "ok"
    trace = []
    # With integer peak frequencies and the normal distribution every sum is exact and the
    # mean is one correctly rounded division, so 'mean == peak of the mean curve' and
    # 'std == 0' come out the same in every implementation: those zero tests can be judged.
    fin = peak_f[~np.isnan(peak_f)]
    exact = dist_fn == "normal" and len(fin) > 0 and bool(np.all(fin == np.round(fin))) and \
        bool(np.all(np.abs(fin) < 2.0 ** 40)) and bool(np.all(freq == np.round(freq)))

    def worse(s):
        nonlocal status
        order = ["ok", "tie", "degenerate", "nopeak"]
        if order.index(s) > order.index(status):
            status = s

    def fn_stats(m):
        f = peak_f[m]
        f = f[~np.isnan(f)]
        if len(f) < 2:
            return None
        return stats.mean(f, dist_fn), stats.std(f, dist_fn)

    def mc_peak(m):
        if not m.any():
            return None
        mc = _mean_curve(amp, m, dist_mc)
        idx, tied = canonical_peak(freq, mc, search_range)
        if idx is None:
            return "nopeak"
        if tied > 1:
            worse("tie")
        else:                                   # near-ties between distinct maxima
            from .peaks import runs_of_maxima, snap
            lo = snap(freq, search_range[0], 0)
            hi = snap(freq, search_range[1], len(freq) - 1)
            top = mc[idx]
            for (l, r) in runs_of_maxima(mc):
                if l - 1 >= lo and r + 1 <= hi and not (l <= idx <= r):
                    if abs(mc[l] - top) <= 1e-9 * abs(top):
                        worse("tie")
            # a flank within rounding of flat may make a maximum appear/disappear in
            # another implementation of the same mean (columns with identical inputs
            # are exactly equal in every implementation and are not ties)
            rows = amp[m]
            d = np.abs(np.diff(mc))
            small = d <= 1e-12 * np.abs(top)
            if small.any():
                same_inputs = np.all(rows[:, 1:] == rows[:, :-1], axis=0)
                # only a near-flat step at the level of the top can change which maximum is the highest;
                # rounding-level ripples far below it cannot
                near_top = np.maximum(mc[1:], mc[:-1]) >= top * (1 - 1e-9)
                if np.any(small & ~same_inputs & near_top):
                    worse("tie")
        return freq[idx]

    it_done = 0
    for it in range(1, max_iterations + 1):
        it_done = it
        trace.append(mask.copy())
        before = fn_stats(mask)
        pk_b = mc_peak(mask)
        if pk_b == "nopeak":
            worse("nopeak")
            return mask, it, status, trace
        if before is None or pk_b is None:
            worse("degenerate")
            return mask, it, status, trace
        mean_b, std_b = before
        diff_b = abs(mean_b - pk_b)
        lower = stats.nth(-n, dist_fn, mean_b, std_b)
        upper = stats.nth(+n, dist_fn, mean_b, std_b)
        for j in np.nonzero(mask)[0]:
            p = peak_f[j]
            if np.isnan(p):
                mask[j] = False
                worse("degenerate")
                continue
            for b in (lower, upper):
                if abs(p - b) <= TIE * max(abs(p), abs(b)):
                    worse("tie")
            mask[j] = bool(lower < p < upper)
        after = fn_stats(mask)
        pk_a = mc_peak(mask)
        if pk_a == "nopeak":
            worse("nopeak")
            return mask, it, status, trace
        if after is None or pk_a is None:
            worse("degenerate")
            return mask, it, status, trace
        mean_a, std_a = after
        d_after = abs(mean_a - pk_a)
        if quantities is not None:        # what the published algorithm looks at in this iteration (for the DEBUG-trace seam)
            quantities.append({"mean_fn_before": float(mean_b), "std_fn_before": float(std_b), "mc_peak_frq_before": float(pk_b),
                               "mean_fn_after": float(mean_a), "std_fn_after": float(std_a), "mc_peak_frq_after": float(pk_a),
                               "status": status})
        scale = max(abs(mean_b), abs(pk_b), 1e-300)
        for q in (diff_b / scale, std_b, std_a):
            if q <= ZERO and not (exact and q == 0):
                worse("tie")          # exactly-zero tests are rounding luck, unless the arithmetic is exact
        if diff_b == 0 or std_b == 0 or std_a == 0:
            return mask, it, status, trace
        d_diff = abs(d_after - diff_b) / diff_b
        s_diff = abs(std_a - std_b)
        for q in (d_diff, s_diff):
            if abs(q - 0.01) <= TIE:
                worse("tie")
        if d_diff < 0.01 and s_diff < 0.01:
            return mask, it, status, trace
    return mask, it_done, status, trace
