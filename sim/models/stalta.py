"""Reference verdicts for time-domain window rejection (numpy only; never imports hvsrpy.window_rejection).

STA/LTA as documented by sta_lta_window_rejection: the window is cut into consecutive blocks of ``sta_seconds``; the
short-term average of a block is the mean absolute amplitude in it; the long-term average is the mean absolute amplitude
over the first ``lta_seconds`` of the window.  The property only speaks about windows whose ratios are *clearly* inside /
outside the limits, so the model returns a three-valued verdict: True (keep), False (reject) or None (too close to a
limit, or dependent on how ``seconds / dt`` is turned into a sample count - not judged).
"""
import numpy as np

MARGIN = 1e-6


def _counts(seconds, dt):
    """Sample counts a reasonable implementation may derive from a duration: floor of the float quotient (which is one
    short when the quotient is a hair below an integer, e.g. 1.0 // 0.01 == 99.0), the rounded quotient."""
    q = seconds / dt
    out = {int(seconds // dt), int(round(q)), int(np.floor(q + 1e-9))}
    return sorted(c for c in out if c >= 1)


def component_ratios(x, dt, sta_s, lta_s):
    """Every (variant -> ratios array) the definitions above allow for one component."""
    x = np.abs(np.asarray(x, dtype=float))
    n = len(x)
    out = []
    for ns in _counts(sta_s, dt):
        if ns > n:
            continue
        k = n // ns
        sta = x[:ns * k].reshape(k, ns).mean(axis=1)
        for nl in _counts(lta_s, dt):
            if nl > n:
                continue
            for base in (x[:ns * k], x):
                lta = base[:nl].mean()
                out.append(sta / lta if lta > 0 else np.full(k, np.nan))
    return out


def sta_lta_verdict(rec, dt, sta_s, lta_s, lo, hi, components):
    """rec: dict component -> samples.  True / False / None as described in the module docstring."""
    clear_in, clear_out = True, False
    undecided = False
    for c in components:
        variants = component_ratios(rec[c], dt, sta_s, lta_s)
        if not variants:
            return None
        ins, outs = [], []
        for r in variants:
            if not np.all(np.isfinite(r)):
                return None
            ins.append(bool(np.all(r > lo * (1 + MARGIN) + 1e-300) and np.all(r < hi * (1 - MARGIN))))
            outs.append(bool(np.any(r > hi * (1 + MARGIN)) or np.any(r < lo * (1 - MARGIN))))
        if all(outs):
            clear_out = True
        elif all(ins):
            pass
        else:
            undecided = True
            clear_in = False
    if clear_out:
        return False            # one component clearly outside on every reading: rejected whatever the others say
    if undecided:
        return None
    return bool(clear_in)


def max_value_verdicts(recs, thr, normalized, components):
    """recs: list of dict component -> samples.  List of True / False / None (None: within rounding of the threshold)."""
    mx = np.array([max(float(np.max(np.abs(np.asarray(r[c], dtype=float)))) for c in components) for r in recs])
    if normalized:
        top = float(np.max(mx))
        if not top > 0:
            return [None] * len(recs)
        mx = mx / top
    out = []
    for v in mx:
        if abs(v - thr) <= 4e-16 * max(abs(v), abs(thr)):
            out.append(None if v != thr else False)      # exactly equal is 'not below'
        else:
            out.append(bool(v < thr))
    return out
