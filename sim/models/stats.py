"""Textbook estimators (numpy only; never imports hvsrpy.statistics).

Unweighted: mean, n-1 standard deviation, covariance, in linear or log space.
Weighted (Cheng et al. 2020): weights w_i = 1/(A * n_a) that sum to one,
mean = sum w x, variance = sum w (x-mean)^2 / (1 - sum w^2).
"""
import numpy as np


def _pre(x, dist):
    x = np.asarray(x, dtype=float)
    if dist == "lognormal":
        return np.log(x)
    if dist == "normal":
        return x
    raise ValueError(dist)


def mean(x, dist, axis=None):
    m = np.mean(_pre(x, dist), axis=axis)
    return np.exp(m) if dist == "lognormal" else m


def std(x, dist, axis=None):
    y = _pre(x, dist)
    n = y.shape[0] if axis == 0 else y.size
    mu = np.mean(y, axis=axis)
    return np.sqrt(np.sum((y - mu) ** 2, axis=axis) / (n - 1))


def nth(n, dist, m, s):
    if dist == "lognormal":
        return np.exp(np.log(m) + n * s)
    return m + n * s


def cov(x, y, dist):
    x, y = _pre(x, dist), _pre(y, dist)
    n = len(x)
    dx, dy = x - x.mean(), y - y.mean()
    c = np.empty((2, 2))
    c[0, 0] = np.sum(dx * dx) / (n - 1)
    c[1, 1] = np.sum(dy * dy) / (n - 1)
    c[0, 1] = c[1, 0] = np.sum(dx * dy) / (n - 1)
    return c


# ------------------------------------------------------------- weighted ----
def cheng_weights(counts):
    """counts[a] = accepted items on azimuth a -> flat weight vector."""
    A = len(counts)
    w = []
    for n_a in counts:
        w.extend([1.0 / (A * n_a)] * n_a)
    return np.array(w)


def wmean(x, w, dist):
    y = _pre(x, dist)
    m = np.sum((y.T * w).T, axis=0) / np.sum(w)
    return np.exp(m) if dist == "lognormal" else m


def wstd(x, w, dist):
    y = _pre(x, dist)
    mu = np.sum((y.T * w).T, axis=0) / np.sum(w)
    num = np.sum((((y - mu) ** 2).T * w).T, axis=0)
    return np.sqrt(num / (1.0 - np.sum(w ** 2)))


def wcov(x, y, w, dist):
    x, y = _pre(x, dist), _pre(y, dist)
    w = w / np.sum(w)
    mx, my = np.sum(w * x), np.sum(w * y)
    d = 1.0 - np.sum(w ** 2)
    c = np.empty((2, 2))
    c[0, 0] = np.sum(w * (x - mx) ** 2) / d
    c[1, 1] = np.sum(w * (y - my) ** 2) / d
    c[0, 1] = c[1, 0] = np.sum(w * (x - mx) * (y - my)) / d
    return c
