"""Process bootstrap: must run before numpy / numba / hvsrpy are imported.

- pins every thread pool to one thread (no hidden schedulers),
- forces the Agg back end,
- puts HVSRPY_REPO (default /repo) first on sys.path so the *working tree* is
  what gets imported (PathFinder precedes the editable-install finder),
- sends bytecode nowhere and numba's on-disk cache to a scratch directory that
  the command itself creates and removes, so an edited source is always what
  runs and nothing is written into /repo.
"""
import atexit
import os
import shutil
import sys
import tempfile
import warnings

_DONE = {}


def repo_path():
    return os.environ.get("HVSRPY_REPO", "/repo")


def bootstrap():
    if _DONE:
        return _DONE["scratch"]
    for var in ("OMP_NUM_THREADS", "OPENBLAS_NUM_THREADS", "MKL_NUM_THREADS",
                "NUMBA_NUM_THREADS", "NUMEXPR_NUM_THREADS"):
        os.environ[var] = "1"
    os.environ["MPLBACKEND"] = "Agg"
    os.environ["HVSRPY_VERIF"] = "1"
    owner = os.getpid()
    scratch = tempfile.mkdtemp(prefix="hvsrpy-verif-")
    os.environ["NUMBA_CACHE_DIR"] = os.path.join(scratch, "numba")
    os.environ["MPLCONFIGDIR"] = os.path.join(scratch, "mpl")
    os.makedirs(os.environ["MPLCONFIGDIR"], exist_ok=True)
    sys.dont_write_bytecode = True
    repo = repo_path()
    if repo in sys.path:
        sys.path.remove(repo)
    sys.path.insert(0, repo)
    warnings.filterwarnings("ignore")           # the checks judge behaviour, not warnings

    def _cleanup():
        if os.getpid() == owner:
            shutil.rmtree(scratch, ignore_errors=True)
    atexit.register(_cleanup)
    _DONE["scratch"] = scratch
    return scratch


def import_hvsrpy():
    """Import hvsrpy from the working tree and make sure that is what we got."""
    bootstrap()
    with warnings.catch_warnings():
        warnings.simplefilter("ignore")
        import hvsrpy  # noqa
    got = os.path.realpath(os.path.dirname(os.path.dirname(hvsrpy.__file__)))
    want = os.path.realpath(repo_path())
    if got != want:
        raise RuntimeError(f"hvsrpy imported from {got}, expected {want}")
    import logging
    logging.getLogger("hvsrpy").setLevel(logging.CRITICAL)
    poison_uninitialised_memory()
    adversarial_object_identities()
    return hvsrpy


class SimId:
    """Stands in for the builtin ``id`` inside the hvsrpy modules.  Python only promises that identities are unique
    among LIVE objects; which address a new object gets is the allocator's business, i.e. nondeterminism.  This
    allocator is deterministic and as adversarial as the promise allows: the identity of a dead object is handed to the
    very next object that is asked for its identity (LIFO).  Code that is correct for every legal allocator cannot
    tell the difference."""

    def __init__(self):
        import builtins
        import weakref
        self._real, self._ref = builtins.id, weakref.ref
        self.live, self.free, self.next, self.reused = {}, [], 1 << 44, 0

    def __call__(self, obj):
        rid = self._real(obj)
        ent = self.live.get(rid)
        if ent is not None and ent[1]() is obj:
            return ent[0]
        if self.free:
            sid = self.free.pop()
            self.reused += 1
        else:
            sid = self.next
            self.next += 16
        try:
            wr = self._ref(obj, lambda _r, rid=rid, sid=sid: self._dead(rid, sid))
        except TypeError:                                  # not weak-referenceable: keep the real identity
            if sid == self.next - 16:
                self.next -= 16
            else:
                self.free.append(sid)
                self.reused -= 1
            return rid
        self.live[rid] = (sid, wr)
        return sid

    def _dead(self, rid, sid):
        ent = self.live.get(rid)
        if ent is not None and ent[0] == sid:
            del self.live[rid]
        self.free.append(sid)


SIM_ID = None


def adversarial_object_identities():
    global SIM_ID
    import sys
    if SIM_ID is None:
        SIM_ID = SimId()
    for name, m in list(sys.modules.items()):
        if name == "hvsrpy" or name.startswith("hvsrpy."):
            if m is not None and "id" not in m.__dict__:
                m.id = SIM_ID


class _PoisonNp:
    """Stands in for the ``np`` global of the (non-numba) hvsrpy modules: everything passes through, except that
    ``empty``/``empty_like`` hand out *poisoned* instead of uninitialised memory (NaN for floats, the most negative
    value for integers).  Uninitialised memory is a source of nondeterminism like any other: a row that the code
    forgets to write would otherwise hold whatever the allocator left there - often the correct values of the
    reference computed a moment earlier - and a violation found that way would not replay."""

    def __init__(self, real):
        object.__setattr__(self, "_np", real)

    def __getattr__(self, name):
        return getattr(self._np, name)

    def _poison(self, a):
        k = a.dtype.kind
        if k in "fc":
            a.fill(self._np.nan)
        elif k == "i":
            a.fill(self._np.iinfo(a.dtype).min)
        elif k == "u":
            a.fill(self._np.iinfo(a.dtype).max)
        elif k == "b":
            a.fill(True)
        elif k != "O":
            a[...] = self._np.zeros((), dtype=a.dtype)
        return a

    def empty(self, *args, **kwargs):
        return self._poison(self._np.empty(*args, **kwargs))

    def empty_like(self, *args, **kwargs):
        return self._poison(self._np.empty_like(*args, **kwargs))


def poison_uninitialised_memory():
    import importlib
    import numpy
    for name in ("processing", "hvsr_traditional", "hvsr_azimuthal", "hvsr_curve", "hvsr_diffuse_field", "object_io",
                 "data_wrangler", "statistics", "window_rejection", "timeseries", "seismic_recording_3c"):
        try:
            m = importlib.import_module("hvsrpy." + name)
        except Exception:                                    # noqa
            continue
        cur = m.__dict__.get("np")
        if cur is numpy:
            m.np = _PoisonNp(numpy)
