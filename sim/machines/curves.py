"""World generation for the HVSR-object machine: frequency grids and curve
recipes.  Everything is recorded by (recipe, parameters, generator key), never by
value, so replay files stay small; ``explicit`` exists for the minimiser."""
import numpy as np

from ..core import np_rng


def gen_grid(g):
    if g["kind"] == "geom":
        return np.geomspace(g["lo"], g["hi"], g["n"])
    if g["kind"] == "lin":
        return np.linspace(g["lo"], g["hi"], g["n"])
    if g["kind"] == "int":
        return np.arange(1, g["n"] + 1, dtype=float)
    if g["kind"] == "fine":                       # a very fine linear grid: neighbouring samples a few 1e-6 apart (relative)
        return np.linspace(g["lo"], g["lo"] * (1.0 + g["n"] * 3e-6), g["n"])
    if g["kind"] == "lin0":                       # an FFT grid: linear and including the 0 Hz bin (frequency >= 0 is legal)
        return np.linspace(0.0, g["hi"], g["n"])
    raise ValueError(g["kind"])


def draw_grid(rng):
    kind = rng.choice(["geom", "geom", "lin", "int"])
    n = rng.choice([8, 9, 10, 12, 15, 20, 30, 45, 60]) if rng.random() < 0.8 else rng.randint(8, 60)
    if rng.random() < 0.06:
        n = rng.randint(3, 7)                      # very coarse grids are legal too
    if kind == "int":
        return {"kind": "int", "n": n}
    lo = rng.choice([0.1, 0.2, 0.5, 1.0])
    hi = lo * rng.choice([10, 20, 50, 100])
    return {"kind": kind, "lo": lo, "hi": hi, "n": n}


def _pos(f):
    """Grid for evaluating the recipes: a 0 Hz bin is moved to half the first step (recipes work in log frequency)."""
    f = np.asarray(f, dtype=float)
    if f[0] <= 0:
        f = f.copy()
        f[0] = 0.5 * f[1]
    return f


def _bump(f, i0, a, w, base):
    f = _pos(f)
    x = np.log(f / f[i0])
    return base + a * np.exp(-0.5 * (x / w) ** 2)


def gen_curve(f, s):
    """Positive, finite amplitude vector on grid f from recipe s."""
    n = len(f)
    r = s["r"]
    if r == "explicit":
        return np.array(s["v"], dtype=float)
    g = np_rng(s.get("k", 0))
    i0 = min(max(int(s.get("i0", n // 2)), 0), n - 1)
    a = s.get("a", 3.0)
    w = s.get("w", 0.4)
    base = s.get("base", 1.0)
    if r == "bump":
        v = _bump(f, i0, a, w, base)
    elif r == "twin":
        i1 = min(max(int(s.get("i1", n // 3)), 0), n - 1)
        f = _pos(f)
        v = base + a * np.exp(-0.5 * (np.log(f / f[i0]) / w) ** 2) \
            + a * (1 + s.get("eps", 0.0)) * np.exp(-0.5 * (np.log(f / f[i1]) / w) ** 2)
    elif r == "plateau":
        v = np.minimum(_bump(f, i0, a, w, base), base + a * s.get("clip", 0.7))
    elif r == "mono_up":
        v = base + a * np.linspace(0, 1, n)
    elif r == "mono_down":
        v = base + a * np.linspace(1, 0, n)
    elif r == "flat":
        v = np.full(n, base)
    elif r == "noisy":
        v = base + a * g.random(n)
    elif r == "quant":
        lv = s.get("levels", 3)
        v = base + np.round(a * g.random(n) * lv) / lv
    elif r == "spikes":            # isolated single-sample maxima at chosen indices
        v = np.full(n, base)
        for j, i in enumerate(s.get("at", [i0])):
            if 0 <= i < n:
                v[i] = base + a * (1 + 0.1 * ((j * 7) % 5))
    else:
        raise ValueError(r)
    noise = s.get("noise", 0.0)
    if noise:
        v = v + noise * g.random(n)
    return np.asarray(v, dtype=float)


def draw_curve(rng, n, center, spread, style):
    """Draw one curve recipe.  `center` is the cluster index of the resonance,
    `spread` the usual scatter, `style` the run's dominant flavour."""
    k = rng.randrange(1 << 30)
    u = rng.random()
    if style == "wild":
        r = rng.choice(["bump", "twin", "plateau", "mono_up", "mono_down", "flat",
                        "noisy", "quant", "spikes"])
    elif u < 0.70:
        r = "bump"
    elif u < 0.78:
        r = "twin"
    elif u < 0.84:
        r = "plateau"
    elif u < 0.90:
        r = rng.choice(["noisy", "quant"])
    elif u < 0.95:
        r = rng.choice(["mono_up", "mono_down", "flat"])
    else:
        r = "spikes"
    i0 = center + rng.randint(-spread, spread)
    if rng.random() < 0.15:                       # outlier resonance
        i0 = rng.randrange(n)
    if rng.random() < 0.08:                       # next to a grid end
        i0 = rng.choice([0, 1, n - 2, n - 1])
    i0 = min(max(i0, 0), n - 1)
    s = {"r": r, "k": k, "i0": i0,
         "a": rng.choice([0.5, 1.0, 2.0, 3.0, 5.0, 8.0]),
         "w": rng.choice([0.15, 0.3, 0.5, 0.9]),
         "base": rng.choice([0.5, 1.0, 1.5])}
    if r == "twin":
        s["i1"] = rng.randrange(n)
        s["eps"] = rng.choice([0.0, 0.0, 1e-12, -1e-12, 0.01, -0.01, 0.2])
    if r == "plateau":
        s["clip"] = rng.choice([0.5, 0.7, 0.9])
    if r == "quant":
        s["levels"] = rng.choice([1, 2, 3])
    if r == "spikes":
        s["at"] = sorted(rng.sample(range(n), min(n, rng.randint(1, 4))))
    if rng.random() < 0.3 and r in ("bump", "twin", "plateau"):
        s["noise"] = rng.choice([0.01, 0.05, 0.3])
    return s


def draw_curve_sets(rng, n_freq, n_az, equal_counts=True, nmin=2, nmax=12):
    style = "wild" if rng.random() < 0.12 else "cluster"
    center = rng.randrange(2, max(3, n_freq - 2))
    spread = rng.choice([0, 1, 1, 2, 3])
    n0 = rng.randint(nmin, nmax)
    sets = []
    for _ in range(n_az):
        n = n0 if equal_counts else rng.randint(nmin, nmax)
        sets.append([draw_curve(rng, n_freq, center, spread, style) for _ in range(n)])
    if rng.random() < 0.06:                       # identical resonance everywhere (sigma = 0)
        for cs in sets:
            for s in cs:
                s.update({"r": "bump", "i0": center, "noise": 0.0})
                s.pop("at", None)
    return sets


def draw_azimuths(rng, n_az, ends=False):
    if n_az == 1:
        return [float(rng.choice([0.0, 20.0, 90.0, 135.5]))]
    if ends and rng.random() < 0.12:
        # both ends of the legal interval (0 and 180 degrees name one direction but are two azimuths of the result), or one
        # azimuth listed twice (two surveys of the same direction)
        if rng.random() < 0.6:
            return [float(x) for x in np.linspace(0.0, 180.0, n_az)]
        vals = sorted(rng.sample([x * 5.0 for x in range(0, 36)], n_az - 1))
        j = rng.randrange(len(vals))
        return [float(v) for v in vals[:j + 1] + vals[j:]]
    step = 180.0 / n_az
    if rng.random() < 0.5:
        return [round(i * step, 3) for i in range(n_az)]
    vals = sorted(rng.sample([x * 0.5 for x in range(0, 360)], n_az))
    if rng.random() < 0.25:
        # azimuths need not have a short decimal representation: thirds, values a rounding error off a round number,
        # neighbours closer than a micro-degree
        j = rng.randrange(len(vals))
        vals[j] = rng.choice([vals[j] + 1 / 3, vals[j] + 0.1 + 0.2, 22.499999999999996 + j, vals[j] + 1e-7 * (j + 1),
                              rng.choice([1e-7, 5e-05, 2.5e-6])])       # (the last ones print in exponent notation)
        if rng.random() < 0.4 and len(vals) >= 2:
            k = (j + 1) % len(vals)
            vals[k] = vals[j] + 3e-7
        vals = sorted(set(vals)) if len(set(vals)) == len(vals) else vals
    if rng.random() < 0.4:
        rng.shuffle(vals)                          # azimuths need not be ascending
    return [float(v) for v in vals]
