"""plot operation of the HVSR-object machine and the C20 oracles (Agg back end).

Read-only: deep snapshot of the object (and recordings) before == after, also
when the call raises — by itself or because the fault plan raises at the k-th
inner Axes call.  Shows-the-state: the drawn artists / the captured table are
compared with the object's own accessors."""
import copy
import warnings

import numpy as np

from ..core import close, sha_array
from ..models import stats as ST
from ..snapshot import snap, semantic_snap, diff as snapdiff


class InjectedPlotError(Exception):
    pass


def _hex(c):
    from matplotlib.colors import to_hex
    try:
        return to_hex(c)
    except Exception:                                  # noqa
        return str(c)


def classify_line(line):
    mk = line.get_marker()
    ls = line.get_linestyle()
    lw = float(line.get_linewidth())
    if mk == "D":
        return "peak_mean"
    if mk == "s":
        return "peak_by_azimuth"
    if mk == "o":
        mfc = _hex(line.get_markerfacecolor())
        if mfc == _hex("white"):
            return "peak_valid"
        if mfc == _hex("lightpink"):
            return "peak_invalid"
        return "other"
    if mk in (None, "None", "", " "):
        col = _hex(line.get_color())
        if abs(lw - 0.3) < 1e-9 and ls == "-":
            if col == _hex("#888888"):
                return "valid"
            if col == _hex("lightpink"):
                return "invalid"
        if abs(lw - 1.3) < 1e-9 and col == _hex("black"):
            return "std" if ls == "--" else "mean"
    return "other"


def _rows_key(a):
    a = np.asarray(a, float)
    return sorted(sha_array(r) for r in np.atleast_2d(a))


def _subs(obj, H):
    if isinstance(obj, H.HvsrAzimuthal):
        return list(obj.hvsrs)
    if isinstance(obj, H.HvsrTraditional):
        return [obj]
    return []


def judge_single_panel(ctx, obj, ax, opts, dmc, dfn, key, H, old_artists=()):
    """Compare the artists on `ax` (those this call added, when the caller's axes already held some) with the object's state."""
    lines = {}
    old_ids = {id(a) for a in old_artists}
    for ln in ax.get_lines():
        if id(ln) in old_ids:
            continue
        lines.setdefault(classify_line(ln), []).append(ln)
    f = np.asarray(obj.frequency, float)
    subs = _subs(obj, H)
    diffuse = isinstance(obj, H.HvsrDiffuseField)

    def ys(kind):
        return [np.asarray(l.get_ydata(), float) for l in lines.get(kind, [])]

    def xs(kind):
        return [np.asarray(l.get_xdata(), float) for l in lines.get(kind, [])]

    with np.errstate(all="ignore"), warnings.catch_warnings():
        warnings.simplefilter("ignore")
        # individual curves
        for kind, flag, valid in (("valid", "plot_valid_curves", True), ("invalid", "plot_invalid_curves", False)):
            want = []
            if opts.get(flag) and not diffuse:
                for h in subs:
                    m = np.asarray(h.valid_window_boolean_mask, bool)
                    want.extend(list(np.asarray(h.amplitude, float)[m if valid else ~m]))
            got = ys(kind)
            ctx.check(len(got) == len(want), "curve_line_count",
                      f"{len(got)} {kind}-style lines drawn for {len(want)} {'accepted' if valid else 'rejected'} windows",
                      key={**key, "kind": kind})
            ctx.check(_rows_key(got) == _rows_key(want) if want else not got, "curve_line_data",
                      f"{kind}-style lines do not carry the {'accepted' if valid else 'rejected'} windows' curves",
                      key={**key, "kind": kind})
            for x in xs(kind):
                ctx.check(np.array_equal(x, f), "curve_line_frequency", "a curve line is not drawn against the object's frequencies", key=key)
        # mean and +-1 std curves
        if opts.get("plot_mean_curve"):
            mc = np.asarray(obj.mean_curve(dmc), float)
            got = ys("mean")
            ctx.check(len(got) == 1 and np.array_equal(got[0], mc, equal_nan=True), "mean_line",
                      f"mean line != mean_curve('{dmc}') ({len(got)} mean-style lines)", key=key)
            if not diffuse:
                want = [np.asarray(obj.nth_std_curve(+1, dmc), float), np.asarray(obj.nth_std_curve(-1, dmc), float)]
                got = ys("std")
                ctx.check(len(got) == 2 and _rows_key(got) == _rows_key(want), "std_lines",
                          f"dashed lines != nth_std_curve(+-1,'{dmc}') ({len(got)} dashed lines)", key=key)
        else:
            ctx.check(not ys("mean") and not ys("std"), "unrequested_artists", "mean/std lines drawn although not requested", key=key)
        # peak of the mean curve
        if opts.get("plot_peak_mean_curve"):
            pf, pa = obj.mean_curve_peak(dmc)
            gx, gy = xs("peak_mean"), ys("peak_mean")
            ctx.check(len(gx) == 1 and close(gx[0], [pf], 0, 0) and close(gy[0], [pa], 0, 0), "mean_peak_marker",
                      f"diamond marker != mean_curve_peak('{dmc}')", key=key)
        # individual peaks
        for kind, flag, valid in (("peak_valid", "plot_peak_individual_valid_curves", True),
                                  ("peak_invalid", "plot_peak_individual_invalid_curves", False)):
            wf, wa = [], []
            if opts.get(flag) and not diffuse:
                for h in subs:
                    m = np.asarray(h.valid_peak_boolean_mask, bool)
                    sel = m if valid else ~m
                    # per-window peaks through the public API of a throw-away copy
                    t = copy.deepcopy(h)
                    t.valid_peak_boolean_mask = np.array(sel)
                    wf.extend(np.asarray(t.peak_frequencies, float).tolist())
                    wa.extend(np.asarray(t.peak_amplitudes, float).tolist())
            gx = np.concatenate(xs(kind)) if xs(kind) else np.array([])
            gy = np.concatenate(ys(kind)) if ys(kind) else np.array([])
            ctx.check(close(gx, np.array(wf), 0, 0) and close(gy, np.array(wa), 0, 0), "peak_markers",
                      f"{kind} markers ({len(gx)}) != the object's {'accepted' if valid else 'rejected'} peaks ({len(wf)})",
                      key={**key, "kind": kind})
        # fn band
        if opts.get("plot_frequency_std") and not diffuse:
            lo, hi = obj.nth_std_fn_frequency(-1, dfn), obj.nth_std_fn_frequency(+1, dfn)
            polys = [p for p in ax.patches if hasattr(p, "get_xy") and id(p) not in old_ids]
            ok = False
            for p in polys:
                xy = np.asarray(p.get_xy(), float)
                if close(np.nanmin(xy[:, 0]), lo, 0, 0) and close(np.nanmax(xy[:, 0]), hi, 0, 0):
                    ok = True
            if not (np.isnan(lo) or np.isnan(hi)):
                ctx.check(ok, "fn_band", f"no filled band spanning nth_std_fn_frequency(-1/+1,'{dfn}') = ({lo!r},{hi!r})", key=key)


def judge_table(ctx, obj, captured, printed, dmc, dfn, key, H):
    with np.errstate(all="ignore"), warnings.catch_warnings():
        warnings.simplefilter("ignore")
        if isinstance(obj, H.HvsrDiffuseField):
            return
        ctx.check(len(captured) == 1, "table_displayed", f"{len(captured)} tables displayed", key=key)
        df = captured[0].data if hasattr(captured[0], "data") else captured[0]
        vals = np.asarray(df.values, float)
        try:
            exp_f = [obj.mean_fn_frequency(dfn), obj.std_fn_frequency(dfn),
                     obj.nth_std_fn_frequency(-1, dfn), obj.nth_std_fn_frequency(+1, dfn)]
            exp_a = [obj.mean_fn_amplitude(dfn), obj.std_fn_amplitude(dfn),
                     obj.nth_std_fn_amplitude(-1, dfn), obj.nth_std_fn_amplitude(+1, dfn)]
        except Exception:                                   # noqa
            # the object itself has no such statistics in this state (e.g. an azimuth without any accepted peak):
            # outside the property's domain, whatever the table shows
            ctx.probe("table_for_object_without_statistics")
            return
        ctx.check(vals.shape == (3, 4), "table_shape", f"table shape {vals.shape}", key=key)
        ctx.check(close(vals[0], exp_f, 0, 0), "table_fn_row", f"fn row {vals[0]} != object's fn statistics {exp_f}", key=key)
        ctx.check(close(vals[2], exp_a, 0, 0), "table_an_row", f"An row {vals[2]} != object's amplitude statistics {exp_a}", key=key)
        if dfn == "lognormal":
            # lognormal median and log-std of the reciprocal peak frequencies (stats model)
            subs = _subs(obj, H)
            Fs = [np.asarray(h.peak_frequencies, float) for h in subs]
            Fs = [x[~np.isnan(x)] for x in Fs]
            if all(len(x) >= 1 for x in Fs) and sum(len(x) for x in Fs) >= 2:
                T = 1.0 / np.concatenate(Fs)
                if len(subs) == 1:
                    med, sig = ST.mean(T, "lognormal"), ST.std(T, "lognormal")
                else:
                    w = ST.cheng_weights([len(x) for x in Fs])
                    med, sig = ST.wmean(T, w, "lognormal"), ST.wstd(T, w, "lognormal")
                ctx.check(close(vals[1, 0], med, 1e-9) and close(vals[1, 1], sig, 1e-9, 1e-12), "table_period_row",
                          f"period row ({vals[1, 0]!r}, {vals[1, 1]!r}) != lognormal median / log-std of 1/f ({med!r}, {sig!r})", key=key)


class CallFault:
    """Raise InjectedPlotError at the k-th call of one Axes method."""

    def __init__(self, site, at, ctx):
        from matplotlib.axes import Axes
        self.Axes = Axes
        self.name = site.split(".")[1]
        self.at = at
        self.n = 0
        self.ctx = ctx
        self.fired = False

    def __enter__(self):
        self.orig = getattr(self.Axes, self.name)
        fault = self

        def wrapper(ax, *a, **k):
            fault.n += 1
            if fault.n - 1 == fault.at and not fault.fired:
                fault.fired = True
                fault.ctx.fault("raise_in_" + fault.name)
                raise InjectedPlotError(f"injected failure in Axes.{fault.name} call {fault.at}")
            return fault.orig(ax, *a, **k)
        setattr(self.Axes, self.name, wrapper)
        return self

    def __exit__(self, *exc):
        setattr(self.Axes, self.name, self.orig)
        return False


def op_plot(ctx, st, op, prop, info):
    from . import hvsrobj as M
    H = M.hv()
    import matplotlib.pyplot as plt
    import hvsrpy.postprocessing as PP
    judge = prop == "C20"
    which = "trad" if "trad" in st.objs else "az" if "az" in st.objs else "diff"
    obj = st.objs[which]
    fn, dmc, dfn, opts = op["fn"], op["dmc"], op["dfn"], dict(op.get("opts", {}))
    recs = None
    if fn in ("pre_post", "records"):
        recs = M.get_records(st)
    before = semantic_snap(obj)
    before_recs = semantic_snap(recs) if recs is not None else None
    captured, exc, out = [], None, None
    old_artists = []
    old_display = PP.display
    PP.display = lambda s: captured.append(s)
    fault = op.get("fault")
    cf = CallFault(fault["site"], fault["at"], ctx) if fault else None
    key = {"fn": fn, "which": which}
    import contextlib, io as _io
    try:
        with warnings.catch_warnings(), contextlib.redirect_stdout(_io.StringIO()):
            warnings.simplefilter("ignore")
            with np.errstate(all="ignore"):
                if cf:
                    cf.__enter__()
                try:
                    if fn == "single_panel" and op.get("ax"):
                        if getattr(st, "user_ax", None) is None:
                            from matplotlib.figure import Figure
                            st.user_fig = Figure(figsize=(3.75, 2.5), dpi=100)
                            st.user_ax = st.user_fig.subplots()
                        else:
                            ctx.probe("plot_on_callers_axes_again")
                        if op["ax"] == "cleared":
                            st.user_ax.clear()
                        old_artists = list(st.user_ax.get_lines()) + list(st.user_ax.patches)
                        ret = H.plot_single_panel_hvsr_curves(obj, distribution_mc=dmc, distribution_fn=dfn, ax=st.user_ax, **opts)
                        out = (st.user_fig, ret)
                    elif fn == "single_panel":
                        out = H.plot_single_panel_hvsr_curves(obj, distribution_mc=dmc, distribution_fn=dfn, **opts)
                    elif fn == "summary_table":
                        out = H.summarize_hvsr_statistics(obj, distribution_mc=dmc, distribution_fn=dfn)
                    elif fn == "pre_post":
                        out = H.plot_pre_and_post_rejection(recs, obj, distribution_mc=dmc, distribution_fn=dfn)
                    elif fn == "records":
                        out = H.plot_seismic_recordings_3c(recs, valid_window_boolean_mask=np.asarray(obj.valid_window_boolean_mask))
                    elif fn == "contour_2d":
                        out = H.plot_azimuthal_contour_2d(obj, distribution_mc=dmc)
                    elif fn == "contour_3d":
                        out = H.plot_azimuthal_contour_3d(obj, distribution_mc=dmc)
                    elif fn == "az_summary":
                        out = H.plot_azimuthal_summary(obj, distribution_mc=dmc, distribution_fn=dfn, **opts)
                    else:
                        raise M.HarnessError(fn)
                finally:
                    if cf:
                        cf.__exit__()
    except Exception as e:                              # noqa
        exc = e
    finally:
        PP.display = old_display
    injected = isinstance(exc, InjectedPlotError)
    info["exc"] = type(exc).__name__ if exc is not None else None
    info["log"] = [fn, info["exc"]]
    if exc is not None:
        ctx.probe("plot_exception_injected" if injected else "plot_exception_natural")
        st.fault_kind = "raise_in_call" if injected else "natural_exception"
    try:
        if judge:
            after = semantic_snap(obj)
            d = snapdiff(before, after)
            ctx.check(d is None, "plot_changed_object",
                      lambda: f"{fn}: the object changed ({d}) " + (f"after the call raised {type(exc).__name__}" if exc is not None else "although the call returned normally"),
                      key={**key, "exit": "injected" if injected else "exception" if exc is not None else "normal"})
            if recs is not None:
                d = snapdiff(before_recs, semantic_snap(recs))
                ctx.check(d is None, "plot_changed_recordings", lambda: f"{fn}: the recordings changed ({d})", key=key)
            if exc is None:
                ctx.probe("plot_judged_" + fn)
                if fn == "single_panel":
                    fig, ax = out
                    if op.get("ax"):
                        ctx.check(ax is st.user_ax, "returns_callers_axes", "the function did not return the axes it was given", key=key)
                        key = {**key, "ax": op["ax"]}
                    judge_single_panel(ctx, obj, ax, opts, dmc, dfn, key, H, old_artists=old_artists)
                elif fn == "summary_table":
                    judge_table(ctx, obj, captured, None, dmc, dfn, key, H)
                elif fn == "pre_post":
                    fig, axs = out
                    ax_after = axs[3]
                    judge_single_panel(ctx, obj, ax_after, {
                        "plot_valid_curves": True, "plot_invalid_curves": True, "plot_mean_curve": True,
                        "plot_frequency_std": True, "plot_peak_mean_curve": True,
                        "plot_peak_individual_valid_curves": True, "plot_peak_individual_invalid_curves": True},
                        dmc, dfn, key, H)
                elif fn == "records":
                    fig, axs = out
                    mask = np.asarray(obj.valid_window_boolean_mask, bool)
                    for ax in axs:
                        kinds = [classify_line(l) for l in ax.get_lines()]
                        ctx.check(kinds == ["valid" if m else "invalid" for m in mask], "record_line_styles",
                                  f"record styles {kinds} do not follow the accept mask {mask.tolist()}", key=key)
                elif fn == "contour_2d" and out is not None:
                    fig, (ax, cax) = out
                    pk = [l for l in ax.get_lines() if classify_line(l) == "peak_by_azimuth"]
                    try:
                        fpk, _ = obj.mean_curve_peak_by_azimuth(distribution=dmc)
                    except ValueError:
                        fpk = None
                    ctx.check(fpk is not None, "azimuth_peak_markers",
                              "peak markers were drawn but the object reports no mean-curve peak for some azimuth", key=key)
                    ctx.check(len(pk) == 1 and close(pk[0].get_xdata(), fpk, 0, 0) and
                              close(pk[0].get_ydata(), np.asarray(obj.azimuths, float), 0, 0), "azimuth_peak_markers",
                              "square markers != mean_curve_peak_by_azimuth / azimuths", key=key)
                elif fn == "az_summary":
                    fig, (ax0, ax1, ax2) = out
                    o2 = dict(opts)
                    o2["plot_peak_mean_curve"] = bool(opts.get("plot_mean_curve")) or bool(opts.get("plot_peak_mean_curve"))
                    judge_lines_only(ctx, obj, ax2, opts, dmc, dfn, key, H)
    finally:
        plt.close("all")
    ctx.state_changes += 0


def judge_lines_only(ctx, obj, ax, opts, dmc, dfn, key, H):
    """az_summary draws the peak marker possibly twice (by design of that
    function); judge everything except the diamond-marker count."""
    o = dict(opts)
    o["plot_peak_mean_curve"] = False
    judge_single_panel(ctx, obj, ax, o, dmc, dfn, key, H)
    pf, pa = obj.mean_curve_peak(dmc)
    for ln in ax.get_lines():
        if classify_line(ln) == "peak_mean":
            ctx.check(close(ln.get_xdata(), [pf], 0, 0) and close(ln.get_ydata(), [pa], 0, 0), "mean_peak_marker",
                      "a diamond marker != mean_curve_peak", key=key)
