"""Batch machine (DESIGN 3.1): histories of process() calls over a shared pool
of recordings and shared settings objects.  Oracles of C03 and C09."""
import copy
import warnings

import numpy as np

from ..core import (Ctx, Violation, HarnessError, rng_for, np_rng, canon, sha_array, close)
from ..snapshot import snap, semantic_snap, diff as snapdiff, arrays_of

PROPS = ("C03", "C09")
ISOLATE = True      # process() may keep process-global state: every run starts in a forked child

_hv = None


def hv():
    global _hv
    if _hv is None:
        from ..env import import_hvsrpy
        _hv = import_hvsrpy()
    return _hv


def warm(prop):
    """Compile the numba kernels once in the parent so forked workers inherit them."""
    H = hv()
    g = np_rng(1)
    rec = H.SeismicRecording3C(*[H.TimeSeries(g.normal(size=300), 0.01) for _ in range(3)])
    for op, bw in OPERATORS:
        s = H.HvsrTraditionalProcessingSettings(
            window_type_and_width=["tukey", 0.1],
            smoothing=dict(operator=op, bandwidth=bw, center_frequencies_in_hz=[1.0, 2.0, 5.0]))
        with warnings.catch_warnings():
            warnings.simplefilter("ignore")
            H.process([copy.deepcopy(rec)], s)


OPERATORS = [("konno_and_ohmachi", 40), ("parzen", 0.5), ("savitzky_and_golay", 9),
             ("linear_rectangular", 0.5), ("log_rectangular", 0.05),
             ("linear_triangular", 0.5), ("log_triangular", 0.05)]
METHODS = ["arithmetic_mean", "squared_average", "quadratic_mean", "root_mean_square",
           "effective_amplitude_spectrum", "geometric_mean", "total_horizontal_energy",
           "vector_summation", "maximum_horizontal_value"]
POLICIES = ["frequency_domain_resampling", "keeping_smallest_time_step", "keeping_majority_time_step"]
RATES = [50, 75, 100, 128, 200, 250]


# ===================================================================== generation
def draw_settings(rng, probe_nyquist):
    cls = rng.choice(["traditional", "traditional", "traditional", "single_azimuth", "rotdpp",
                      "azimuthal", "diffuse_field", "psd"])
    op, bw = rng.choice(OPERATORS)
    if rng.random() < 0.3:
        bw = {"konno_and_ohmachi": rng.choice([20, 60]), "parzen": rng.choice([0.3, 1.0]),
              "savitzky_and_golay": rng.choice([5, 11]), "linear_rectangular": rng.choice([0.3, 1.0]),
              "log_rectangular": rng.choice([0.03, 0.1]), "linear_triangular": rng.choice([0.3, 1.0]),
              "log_triangular": rng.choice([0.04, 0.1])}[op]
    nf = rng.randint(4, 16)
    lo, hi = rng.choice([(0.5, 20.0), (1.0, 10.0), (2.0, 24.0)])
    fcs = [float(x) for x in np.geomspace(lo, hi, nf)]
    if probe_nyquist:
        fcs[-1] = float(rng.choice([26.0, 40.0, 55.0, 70.0, 110.0]))
    s = {"cls": cls, "policy": rng.choice(POLICIES), "width": rng.choice([0.0, 0.05, 0.1, 0.5, 1.0]),
         "op": op, "bw": bw, "fcs": fcs, "fcs_as": rng.choice(["list", "array", "tuple"]),
         "wtw_as": rng.choice(["list", "list", "tuple"]),
         "fft_n": rng.choice([None, None, None, 4096, 65536, "none_key"])}
    u = rng.random()
    if u < 0.15:
        rng.shuffle(s["fcs"])                       # centre frequencies need not be sorted
    elif u < 0.22 and not probe_nyquist:
        # a piecewise request whose segments overlap at the seam (a small step back), a coarse grid followed by its
        # refinement, or a descending grid
        kind = rng.choice(["seam", "seam", "refine", "descending"])
        if kind == "seam":
            mid = lo * (hi / lo) ** rng.choice([0.4, 0.5, 0.6])
            k = rng.randint(3, 9)
            s["fcs"] = [float(x) for x in np.linspace(lo, mid, k)] + \
                       [float(x) for x in np.geomspace(mid * rng.choice([0.8, 0.9, 0.97]), hi, rng.randint(3, 9))]
        elif kind == "refine":
            s["fcs"] = [float(x) for x in np.geomspace(lo, hi, 4)] + [float(x) for x in np.geomspace(lo * 1.1, hi * 0.9, nf)]
        else:
            s["fcs"] = s["fcs"][::-1]
    if cls == "traditional":
        s["method"] = rng.choice(METHODS)
    if cls == "single_azimuth":
        s["method"] = rng.choice(["single_azimuth", "directional_energy"])
        s["az"] = rng.choice([0.0, 20.0, 45.0, 90.0, 133.7])
    if cls in ("rotdpp", "azimuthal"):
        k = rng.randint(1 if cls == "azimuthal" else 2, 5)
        s["azs"] = [float(a) for a in sorted(rng.sample(range(0, 180, 5), k))]
        s["pp"] = rng.choice([0.0, 25.0, 50.0, 84.0, 100.0])
    return s


def draw_record(rng, big):
    rate = rng.choice(RATES)
    n = rng.randint(33000, 70000) if big else rng.randint(200, 4000)
    if not big and rng.random() < 0.08:
        n = rng.randint(16, 80)                    # very short recordings are legal too
    return {"k": rng.randrange(1 << 30), "n": n, "rate": rate,
            # a dead channel (disconnected sensor: all samples exactly zero) is a legal recording
            "dead": rng.choice(["vt", "vt", "ns", "ew", "h"]) if rng.random() < 0.05 else None,
            # raw digitiser counts next to records in physical units: amplitude scales far apart are legal
            "scale": rng.choice([1.0] * 6 + [1e9, 1e-9, 1e6, 1e-12]),
            "deg": rng.choice([0.0, 0.0, 15.0, 270.0]),
            # recordings read from three one-component files carry a LIST of file names; from one file a string
            "meta": {"site": rng.choice(["A", "B"]), "tags": [1, 2],
                     "file name(s)": rng.choice([None, "st%d.mseed" % rng.randrange(9),
                                                 ["st%d_%s.sac" % (rng.randrange(9), c) for c in "ENZ"]])}}


def generate(seed, prop):
    rng = rng_for(seed)
    n_rec = rng.randint(2, 6)
    any_big = rng.random() < (0.3 if prop == "C09" else 0.12)
    many = prop == "C03" and rng.random() < 0.04          # hundreds of (short) recordings in one call are legal too
    if many:
        n_rec, any_big = rng.randint(257, 300), False
    recs = [draw_record(rng, any_big and rng.random() < 0.5) for _ in range(n_rec)]
    if many:
        one_group = rng.random() < 0.6                       # (mostly) one time-step group of more than 256 recordings
        for r in recs:
            r["n"] = rng.randint(40, 90)
            r["rate"] = 100 if one_group else rng.choice([100, 100, 100, 200])
            r["dead"] = None                                   # (one dead channel among hundreds would refuse every batch)
    if rng.random() < 0.6:                                  # deliberate duplicates of a time step
        for r in recs[1:]:
            if rng.random() < 0.5:
                r["rate"] = recs[0]["rate"]
    if rng.random() < 0.25:                                 # all the same rate
        for r in recs:
            r["rate"] = recs[0]["rate"]
    if rng.random() < 0.2:                                  # nominally equal time steps that differ by rounding
        for r in recs[1:]:
            if r["rate"] == recs[0]["rate"] and rng.random() < 0.6:
                r["dt_ulps"] = rng.choice([1, 2])
    probe_nyq = rng.random() < (0.25 if prop == "C03" else 0.1)
    n_set = rng.randint(1, 3)
    sets = [draw_settings(rng, probe_nyq and i == 0) for i in range(n_set)]
    if probe_nyq:
        # biased: a centre frequency between the lowest and the highest Nyquist frequency of the pool
        nyq = sorted({r["rate"] / 2.0 for r in recs})
        if len(nyq) > 1 and rng.random() < 0.7:
            sets[0]["fcs"][-1] = float(nyq[0] * rng.choice([1.02, 1.1, 1.3]) if nyq[0] * 1.3 < nyq[-1] else (nyq[0] + nyq[-1]) / 2)
            if rng.random() < 0.6:
                sets[0]["policy"] = "frequency_domain_resampling"
    if n_set >= 2 and rng.random() < 0.3:
        # two settings objects that differ ONLY in the interior of the centre-frequency grid (same size, same first and last
        # value: geometric against linear spacing), used one after the other on the same recordings
        sets[1] = copy.deepcopy(sets[0])
        f0 = sorted(sets[0]["fcs"])
        sets[0]["fcs"] = f0
        sets[1]["fcs"] = [float(x) for x in np.linspace(f0[0], f0[-1], len(f0))]
        if rng.random() < 0.5:
            sets[0]["op"], sets[0]["bw"] = sets[1]["op"], sets[1]["bw"] = "konno_and_ohmachi", 40
    own = (prop == "C09")
    w = {"process": 5.0, "repeat": 2.0 if prop == "C09" else 0.5, "mutate_record": 1.5,
         "mutate_settings": 1.5 if prop == "C09" else 0.5, "process_bad": 0.8}
    for k in list(w):
        if rng.random() < 0.15 and k != "process":
            w[k] = 0.0
    names = list(w)
    from ..core import deep
    n_ops = rng.randint(2, 24 if deep() else 12)
    ops = []
    for _ in range(n_ops):
        name = rng.choices(names, [w[k] for k in names])[0]
        ops.append(draw_op(rng, name, n_rec, n_set, own))
    big_idx = [i for i, r in enumerate(recs) if r["n"] > 32768]
    small_idx = [i for i, r in enumerate(recs) if r["n"] <= 32768]
    if own and big_idx and small_idx and rng.random() < 0.6:
        # biased schedule: small batch, then a batch that needs a longer FFT with the
        # same settings object, then the small batch again
        k = rng.randrange(n_set)
        a = rng.sample(small_idx, rng.randint(1, len(small_idx)))
        b = [rng.choice(big_idx)] + rng.sample(small_idx, rng.randint(0, len(small_idx)))
        pos = rng.randint(0, len(ops))
        middle = {"op": "process", "recs": b, "s": k, "own": True}
        if rng.random() < 0.35:
            middle = {"op": "process_bad", "recs": b[::-1], "s": k, "kind": "nan_last"}    # the long call fails part-way
        ops[pos:pos] = [{"op": "process", "recs": a, "s": k, "own": True}, middle, {"op": "repeat", "which": 0}]
    if own and n_rec >= 2 and rng.random() < 0.25:
        # biased schedule: process-global state left behind by a call that FAILED with a related settings object.
        # A (settings k) - a failing call with a sibling of those settings (another processing class, same everything
        # else) - other recordings B of the same count with settings k - A again
        k = rng.randrange(n_set)
        sib = copy.deepcopy(sets[k])
        family = ["traditional", "single_azimuth", "rotdpp", "azimuthal", "diffuse_field", "psd"]
        sib["cls"] = rng.choice([c for c in family if c != sib["cls"]])
        sib.setdefault("method", "geometric_mean")
        if sib["cls"] == "single_azimuth":
            sib["method"], sib["az"] = "single_azimuth", sets[k].get("az", 20.0)
        if sib["cls"] == "traditional" and sib["method"] in ("single_azimuth", "directional_energy"):
            sib["method"] = "geometric_mean"
        if sib["cls"] in ("rotdpp", "azimuthal"):
            sib["azs"] = sets[k].get("azs") or [float(sets[k].get("az", 0.0)), 90.0]
            sib["pp"] = sets[k].get("pp", 50.0)
        sets.append(sib)
        n_set += 1
        if rng.random() < 0.7:
            for r in recs:                                  # one time step throughout, so that A and B are look-alikes
                r["rate"] = recs[0]["rate"]
                r.pop("dt_ulps", None)
        m = rng.randint(1, max(1, n_rec // 2))
        perm = rng.sample(range(n_rec), n_rec)
        a, b = perm[:m], perm[m:2 * m]
        pos = rng.randint(0, len(ops))
        ops[pos:pos] = [{"op": "process", "recs": a, "s": k, "own": True, "tag": "A"},
                        {"op": "process_bad", "recs": rng.sample(range(n_rec), rng.randint(1, n_rec)), "s": n_set - 1,
                         "kind": rng.choice(["nan_last", "bad_window_type", "unknown_operator", "above_nyquist", "injected", "injected"]),
                         "site": rng.choice(["rfft", "rfft", "smooth", "window"]), "at": rng.randrange(0, 9)},
                        {"op": "process", "recs": b, "s": k, "own": True},
                        {"op": "repeat", "which": 0, "tag": "A"}]
    if not own and rng.random() < 0.2:
        # biased schedule (C03): the caller processes its own objects, re-orients / edits one of them in place and
        # processes again - the second result must be that of the recording as it is now
        k = rng.randrange(n_set)
        a = rng.sample(range(n_rec), rng.randint(1, n_rec))
        pos = rng.randint(0, len(ops))
        ops[pos:pos] = [{"op": "process", "recs": a, "s": k, "own": True, "as_tuple": False},
                        {"op": "mutate_record", "i": rng.choice(a), "how": rng.choice(["orient", "orient", "scale_inplace", "assign_array"])},
                        {"op": "process", "recs": a, "s": k, "own": False, "as_tuple": False}]
    if many:
        ops = [{"op": "process", "recs": rng.sample(range(n_rec), n_rec) if rng.random() < 0.5 else list(range(n_rec)),
                "s": rng.randrange(n_set), "own": False, "as_tuple": False}]
    if not any(o["op"] == "process" for o in ops):
        ops.insert(0, draw_op(rng, "process", n_rec, n_set, own))
    return {"machine": "batch", "property": prop, "run_seed": int(seed),
            "config": {"weights": w, "own_objects": own, "probe_nyquist": probe_nyq},
            "world": {"records": recs, "settings": sets}, "ops": ops, "faults": []}


def draw_op(rng, name, n_rec, n_set, own):
    if name == "process":
        k = rng.randint(1, n_rec)
        idx = rng.sample(range(n_rec), k)                    # sub-list in some order
        if rng.random() < 0.2 and k >= 1:
            idx.append(rng.choice(idx))                      # the same recording twice
        return {"op": "process", "recs": idx, "s": rng.randrange(n_set),
                "own": own if rng.random() < 0.85 else (not own), "as_tuple": rng.random() < 0.15}
    if name == "repeat":
        return {"op": "repeat", "which": rng.randrange(0, 8)}
    if name == "mutate_record":
        return {"op": "mutate_record", "i": rng.randrange(n_rec),
                "how": rng.choice(["scale_inplace", "assign_array", "meta_inplace", "orient"])}
    if name == "mutate_settings":
        return {"op": "mutate_settings", "s": rng.randrange(n_set),
                "how": rng.choice(["width_inplace", "fcs_inplace", "assign_width", "assign_policy", "bandwidth"])}
    if name == "process_bad":
        return {"op": "process_bad", "recs": rng.sample(range(n_rec), rng.randint(1, n_rec)),
                "s": rng.randrange(n_set), "kind": rng.choice(["nan_last", "bad_window_type", "unknown_operator", "injected", "injected"]),
                # fault injection: the k-th call of an inner routine fails (an allocation failure inside the FFT, the
                # smoothing kernel or the taper), i.e. the call is aborted at an arbitrary point
                "site": rng.choice(["rfft", "rfft", "smooth", "window"]), "at": rng.randrange(0, 9)}
    raise ValueError(name)


# ===================================================================== world
def make_record(H, spec):
    g = np_rng(spec["k"])
    n, dt = spec["n"], 1.0 / spec["rate"]
    for _ in range(spec.get("dt_ulps", 0)):
        dt = float(np.nextafter(dt, 1.0))          # the same nominal time step, a few ulps away: a different time step
    t = np.arange(n) * dt
    comps = []
    for c in range(3):
        x = g.normal(0, 1, n) + (2.0 if c < 2 else 0.5) * np.sin(2 * np.pi * (1.5 + 0.3 * c) * t)
        if spec.get("dead") and (spec["dead"] == ("ns", "ew", "vt")[c] or (spec["dead"] == "h" and c < 2)):
            x = np.zeros(n)
        comps.append(H.TimeSeries(x * float(spec.get("scale", 1.0)), dt))
    meta = {k: v for k, v in copy.deepcopy(spec["meta"]).items() if v is not None}
    return H.SeismicRecording3C(*comps, degrees_from_north=spec["deg"], meta=meta)


def make_settings(H, s, fft_n="spec"):
    fcs = {"list": list, "tuple": tuple}.get(s["fcs_as"], lambda v: np.array(v, dtype=float))(s["fcs"])
    n = s["fft_n"] if fft_n == "spec" else fft_n
    wtw = ("tukey", s["width"]) if s.get("wtw_as") == "tuple" else ["tukey", s["width"]]
    common = dict(window_type_and_width=wtw,
                  smoothing=dict(operator=s["op"], bandwidth=s["bw"], center_frequencies_in_hz=fcs),
                  handle_dissimilar_time_steps_by=s["policy"],
                  fft_settings=None if n is None else ({"n": None} if n == "none_key" else {"n": int(n)}))
    c = s["cls"]
    if c == "traditional":
        return H.HvsrTraditionalProcessingSettings(method_to_combine_horizontals=s["method"], **common)
    if c == "single_azimuth":
        return H.HvsrTraditionalSingleAzimuthProcessingSettings(
            method_to_combine_horizontals=s["method"], azimuth_in_degrees=s["az"], **common)
    if c == "rotdpp":
        return H.HvsrTraditionalRotDppProcessingSettings(
            ppth_percentile_for_rotdpp_computation=s["pp"], azimuths_in_degrees=list(s["azs"]), **common)
    if c == "azimuthal":
        return H.HvsrAzimuthalProcessingSettings(azimuths_in_degrees=list(s["azs"]), **common)
    if c == "diffuse_field":
        return H.HvsrDiffuseFieldProcessingSettings(**common)
    if c == "psd":
        return H.PsdProcessingSettings(**common)
    raise ValueError(c)


class State:
    pass


def build(world):
    H = hv()
    st = State()
    st.world = world
    st.recs = [make_record(H, r) for r in world["records"]]
    st.rec_version = [0] * len(st.recs)
    st.sets = [make_settings(H, s) for s in world["settings"]]
    st.set_spec = [copy.deepcopy(s) for s in world["settings"]]     # model of the *requested* settings
    st.set_version = [0] * len(st.sets)
    st.calls = []            # dict(recs, s, own, versions, result, snap)
    st.results = []          # (result object, snapshot at return)
    st.solo_cache = {}
    return st


def _process(H, records, settings):
    import contextlib, io
    with warnings.catch_warnings(), contextlib.redirect_stdout(io.StringIO()):
        warnings.simplefilter("ignore")
        with np.errstate(all="ignore"):
            return H.process(records, settings)


# ===================================================================== C03 oracle
def rows_of(H, res):
    """[(label, 2-D array)] of the per-record rows of a result, or None."""
    if isinstance(res, H.HvsrAzimuthal):
        return [(f"az{a}", np.asarray(h.amplitude, float)) for a, h in enumerate(res.hvsrs)]
    if isinstance(res, H.HvsrTraditional):
        return [("rows", np.asarray(res.amplitude, float))]
    return None


def eff_n(res, settings):
    m = getattr(res, "meta", None)
    if isinstance(m, dict) and isinstance(m.get("fft_settings"), dict) and "n" in m["fft_settings"]:
        return int(m["fft_settings"]["n"])
    if getattr(settings, "fft_settings", None):
        return int(settings.fft_settings["n"])
    return None


def kept_model(dts, policy):
    """Index sets the policy may keep (a list of admissible answers)."""
    if policy == "frequency_domain_resampling":
        return [list(range(len(dts)))]
    if policy == "keeping_smallest_time_step":
        m = min(dts)
        return [[i for i, d in enumerate(dts) if d == m]]
    counts = {}
    for d in dts:
        counts[d] = counts.get(d, 0) + 1
    top = max(counts.values())
    return [[i for i, d in enumerate(dts) if d == g] for g, c in counts.items() if c == top]


def oracle_c03(ctx, st, op, records, settings, spec, res, exc):
    H = hv()
    cls = spec["cls"]
    dts = [r.ns.dt_in_seconds for r in records]
    fcs = np.array(spec["fcs"], float)
    key = {"cls": cls, "policy": spec["policy"], "groups": len(set(dts))}
    admissible = kept_model(dts, spec["policy"])
    if len(set(dts)) > 1:
        ctx.probe("batch_mixed_dt")
    if cls == "psd":
        return                                   # C17's business; PSD is judged by C09 only
    # --- must-refuse cases
    mixed_refused = cls == "diffuse_field" and spec["policy"] == "frequency_domain_resampling" and len(set(dts)) > 1
    nyq_violated = [max(fcs) > 1.0 / (2 * max(dts[i] for i in kept)) for kept in admissible]
    if mixed_refused:
        ctx.check(exc is not None, "mixed_dt_not_refused",
                  "diffuse-field processing of recordings with different time steps under resampling returned a result", key=key)
        ctx.probe("refused_mixed_dt")
        return
    if all(nyq_violated):
        ctx.check(isinstance(exc, ValueError), "nyquist_not_refused",
                  lambda: f"centre frequency {max(fcs)} Hz exceeds the Nyquist frequency of a processed recording "
                          f"(dts {sorted(set(dts))}) but process() " + ("returned a result" if exc is None else f"raised {type(exc).__name__}"),
                  key=key)
        ctx.probe("refused_nyquist")
        return
    if any(nyq_violated):
        return                                   # majority tie with different verdicts: either is fine
    if isinstance(exc, ValueError) and ("may not contain nan" in str(exc) or "must be >= 0" in str(exc)
                                        or "may not contain inf" in str(exc)):
        # the result validation refused non-finite / negative amplitudes (e.g. the
        # Savitzky-Golay kernel has negative lobes): that is the property's
        # 'finite non-negative' clause at work, not a bookkeeping failure
        ctx.probe("validation_refused_result")
        # ... unless every recording, processed alone at the batch's FFT length, is accepted: then the rows of the
        # batch (which must equal those solo rows) are finite and non-negative too and the refusal is the batch's doing
        if cls != "diffuse_field" and spec.get("fft_n") != "none_key":
            verdicts = []
            for kept in admissible:
                nbs = set()
                for nmax in (max(records[i].vt.n_samples for i in kept), max(r_.vt.n_samples for r_ in records)):
                    nb = spec.get("fft_n")
                    if nb is None:
                        nb = 32768
                        while nb <= nmax:
                            nb *= 2
                    nbs.add(int(nb))
                nb = sorted(nbs)
                # (many recordings: the first two dozen, and every one with a dead channel - those are refused alone)
                sample = list(kept[:24]) + [i for i in kept[24:] if any(not np.any(getattr(records[i], c_).amplitude)
                                                                         for c_ in ("ns", "ew", "vt"))]
                verdicts.append(all(isinstance(solo_rows(st, records[i], spec, nb_), list) for nb_ in nb for i in sample))
            # (a tie between most frequent time steps leaves the choice of the kept set open: the refusal is the batch's
            #  doing only if no admissible choice contains a recording that is refused alone)
            ctx.check(not all(verdicts), "batch_refused_but_each_alone_accepted",
                      lambda: f"process() refused the batch ({exc}) although every kept recording processed alone at the batch's "
                              f"FFT length gives finite, non-negative curves (dts {dts}, policy {spec['policy']})", key=key)
        return
    ctx.check(exc is None, "process_raised",
              lambda: f"process() raised {type(exc).__name__}: {exc} for a valid batch (dts {dts}, policy {spec['policy']})", key=key)
    if exc is not None:
        return
    n = eff_n(res, settings)
    ctx.check(n is not None, "fft_length_unknown", "cannot determine the FFT length used", key=key)
    # --- frequency and shape
    ctx.check(np.array_equal(np.asarray(res.frequency, float), fcs), "frequencies_differ",
              "result.frequency != requested centre frequencies", key=key)
    if cls == "diffuse_field":
        amp = np.asarray(res.amplitude, float)
        ctx.check(amp.shape == fcs.shape and np.isfinite(amp).all() and (amp >= 0).all(), "bad_amplitudes",
                  "diffuse-field amplitudes not finite/non-negative or wrong shape", key=key)
        # equals the result for the kept subset alone, in the same order
        ok_any = False
        for kept in admissible:
            sub = [copy.deepcopy(records[i]) for i in kept]
            try:
                rn = ref_fft(spec, n, max(r_.vt.n_samples for r_ in sub))
                if rn is None:
                    ok_any = True                  # no reference at this FFT length exists for the subset: not judged
                    continue
                aspec, inv = ascending(spec)
                ref = _process(H, sub, make_settings(H, aspec, fft_n=rn))
            except Exception:                    # noqa
                continue                       # this candidate subset is refused (result validation, …): not a match
            if close(np.asarray(ref.amplitude)[inv], amp, 1e-10):
                ok_any = True
        ctx.check(ok_any, "kept_subset_differs",
                  "diffuse-field result differs from processing the kept recordings alone", key=key)
        if len(admissible[0]) < len(records):
            ctx.probe("keeping_policy_dropped_records")
        return
    rows = rows_of(H, res)
    nrows = rows[0][1].shape[0]
    cand = [k for k in admissible if len(k) == nrows]
    ctx.check(bool(cand), "row_count",
              lambda: f"{nrows} rows returned; the policy '{spec['policy']}' keeps {[len(k) for k in admissible]} of {len(records)} recordings", key=key)
    for label, a in rows:
        ctx.check(a.shape == (nrows, len(fcs)) and np.isfinite(a).all() and (a >= 0).all(), "bad_amplitudes",
                  f"{label}: amplitudes not finite/non-negative or wrong shape {a.shape}", key=key)
    # --- every row equals the solo result of that recording at the same FFT length
    mism = []
    for kept in cand:
        bad = None
        rows_to_check = list(enumerate(kept))
        if len(rows_to_check) > 24:                    # many rows: the first, the last and a spread of others
            pick = set(range(4)) | set(range(len(kept) - 12, len(kept))) | set(range(0, len(kept), max(1, len(kept) // 8)))
            rows_to_check = [rc for rc in rows_to_check if rc[0] in pick]
            ctx.probe("many_rows_sampled")
        for r, i in rows_to_check:
            solo = solo_rows(st, records[i], spec, n)
            if isinstance(solo, str):
                continue
            if solo is None:
                bad = ("rows", r, i, float("nan"))
                break
            for (label, a), (_, s_) in zip(rows, solo):
                if not close(a[r], s_[0], 1e-10):
                    bad = (label, r, i, float(np.max(np.abs(a[r] - s_[0]) / np.maximum(np.abs(s_[0]), 1e-300))))
                    break
            if bad:
                break
        mism.append(bad)
    best = None if any(m is None for m in mism) else mism[0]
    ctx.check(best is None, "row_differs_from_solo",
              lambda: f"{best[0]} row {best[1]} != result of recording #{best[2]} processed alone at FFT length {n} "
                      f"(max rel. diff {best[3]:.3g}); batch dts {dts}, policy {spec['policy']}", key=key)
    if len(cand[0]) < len(records):
        ctx.probe("keeping_policy_dropped_records")
    if len(set(dts)) > 1 and spec["policy"] == "frequency_domain_resampling":
        ctx.probe("resampling_groups_judged")
    if n > 32768:
        ctx.probe("fft_length_above_floor")
    ctx.probe("c03_rows_judged")


def ref_fft(spec, n, subset_max):
    """How to obtain FFT length n for a reference call on a subset whose longest record has subset_max
    samples: an explicit n is honoured only when it is not below the automatic length of the subset;
    fft_settings={'n': None} ('no padding') gives exactly subset_max.  None = no such reference exists."""
    p2 = 32768
    while p2 <= subset_max:
        p2 *= 2
    if n >= p2:
        return int(n)
    if spec.get("fft_n") == "none_key" and subset_max == n:
        return "none_key"
    return None


def ascending(spec):
    """The same request with its centre frequencies in ascending order, and the column permutation that takes a result
    of that request back to the order asked for: the value AT a centre frequency cannot depend on where in the
    request that frequency stands ("sampled at exactly the requested centre frequencies")."""
    order = np.argsort(np.asarray(spec["fcs"], float), kind="stable")
    inv = np.empty(len(order), dtype=int)
    inv[order] = np.arange(len(order))
    aspec = dict(spec)
    aspec["fcs"] = [spec["fcs"][int(j)] for j in order]
    return aspec, inv


def solo_rows(st, record, spec, n):
    H = hv()
    n = ref_fft(spec, n, record.vt.n_samples)
    if n is None:
        return "skip"
    key = (sha_array(record.ns.amplitude), sha_array(record.ew.amplitude), sha_array(record.vt.amplitude),
           record.ns.dt_in_seconds, record.degrees_from_north,
           canon({k: v for k, v in spec.items() if k not in ("policy", "fft_n")}), n)
    if key not in st.solo_cache:
        try:
            # the reference recording is built from the bare samples: nothing an earlier call may have left on the
            # pool object (memoised spectra, say) can reach it ...
            fresh = H.SeismicRecording3C(*[H.TimeSeries(np.array(getattr(record, c_).amplitude, dtype=float),
                                                        getattr(record, c_).dt_in_seconds) for c_ in ("ns", "ew", "vt")],
                                         degrees_from_north=record.degrees_from_north, meta=copy.deepcopy(record.meta))
            ref = getattr(st, "ref_server", None)
            if ref is not None:
                # ... and it is processed in a process of its own, forked from the state the run STARTED in: whatever the
                # run's calls have left in module-level state (weights, coefficients, buffers) cannot reach the reference
                out = ref.call(_solo_in_child, fresh, spec, n)
                if out is None:
                    raise RuntimeError("solo refused")
                st.solo_cache[key] = out
            else:
                st.solo_cache[key] = _solo_in_child(fresh, spec, n)
                if st.solo_cache[key] is None:
                    raise RuntimeError("solo refused")
        except Exception:                      # noqa
            st.solo_cache[key] = None          # the solo result is refused (result validation, …)
    return st.solo_cache[key]


# ===================================================================== ops
def current_spec(st, k):
    return st.set_spec[k]


def apply_op(ctx, st, op, prop):
    H = hv()
    name = op["op"]
    if name in ("process", "repeat"):
        if name == "repeat":
            live = [c for c in st.calls if c["own"] and c["exc"] is None and (not op.get("tag") or c.get("tag") == op["tag"]) and
                    all(st.rec_version[i] == v for i, v in zip(c["recs"], c["rec_versions"])) and
                    st.set_version[c["s"]] == c["set_version"]]
            if not live:
                ctx.event(op="repeat", skipped=True)
                return
            prev = live[op["which"] % len(live)]
            idx, k, own = prev["recs"], prev["s"], True
        else:
            prev = None
            idx, k, own = op["recs"], op["s"], op["own"]
        spec = current_spec(st, k)
        if own:
            # a repeat hands in the very list object of the earlier call (the caller kept it)
            records = prev["list"] if prev is not None and prev.get("list") is not None else [st.recs[i] for i in idx]
            settings = st.sets[k]
        else:
            records = [copy.deepcopy(st.recs[i]) for i in idx]
            settings = make_settings(H, spec)
        if op.get("as_tuple"):
            records = tuple(records)                 # any sequence of recordings
        before = [semantic_snap(r) for r in st.recs]
        res, exc = None, None
        try:
            res = _process(H, records, settings)
        except Exception as e:                              # noqa
            exc = e
        ctx.state_changes += 1
        if ctx.wants("C09") and own:
            frame_records(ctx, st, before, f"process({spec['cls']})", {"cls": spec["cls"], "exit": "raise" if exc else "normal"})
            # the container the caller handed in is an input too: same recordings, same positions
            ctx.check(len(records) == len(idx) and all(r is st.recs[i] for r, i in zip(records, idx)), "recording_list_changed",
                      lambda: f"process({spec['cls']}) re-arranged the {type(records).__name__} of recordings it was given "
                              f"(time steps now {[r.ns.dt_in_seconds for r in records]})", key={"cls": spec["cls"]})
        if ctx.wants("C03") and not own:
            # references are computed from the pristine pool objects, never from the
            # copies handed to process() (which the call may have altered: C09's business)
            oracle_c03(ctx, st, op, [st.recs[i] for i in idx], settings, spec, res, exc)
        call = {"recs": list(idx), "s": k, "own": own, "exc": exc, "tag": op.get("tag") if name == "process" else None,
                "list": records if own and isinstance(records, list) else None,
                "rec_versions": [st.rec_version[i] for i in idx], "set_version": st.set_version[k],
                "result": res, "snap": semantic_snap(res) if res is not None else None}
        if ctx.wants("C09") and own and res is not None:
            no_sharing(ctx, st, res, settings, spec)
            if prev is not None:
                d = snapdiff(prev["snap"], call["snap"])
                n_between = len(st.calls) - 1 - st.calls.index(prev)
                ctx.check(d is None, "repeat_differs",
                          lambda: f"the same processing ({spec['cls']}) of the same recordings with the same settings object gave a "
                                  f"different result after {n_between} interleaved call(s): {d}",
                          key={"cls": spec["cls"], "interleaved": n_between > 0})
                ctx.probe("repeat_judged")
                if n_between > 0:
                    ctx.probe("repeat_after_interleaved_calls")
        st.calls.append(call)
        if res is not None and own:
            st.results.append((res, call["snap"], spec["cls"]))
        ctx.event(op=name, recs=idx, s=k, own=own, exc=type(exc).__name__ if exc else None,
                  res=_digest_result(H, res))
    elif name == "mutate_record":
        r = st.recs[op["i"]]
        how = op["how"]
        if how == "scale_inplace":
            r.ns.amplitude *= 1.5
            r.vt.amplitude[::2] += 0.25
        elif how == "assign_array":
            r.ew.amplitude = np.array(r.ew.amplitude[::-1])
        elif how == "meta_inplace":
            r.meta["edited"] = r.meta.get("edited", 0) + 1
            if isinstance(r.meta.get("tags"), list):
                r.meta["tags"].append(9)
        elif how == "orient":
            r.orient_sensor_to(r.degrees_from_north + 30.0)
        st.rec_version[op["i"]] += 1
        ctx.state_changes += 1
        ctx.event(op=name, i=op["i"], how=how)
    elif name == "mutate_settings":
        s, spec = st.sets[op["s"]], st.set_spec[op["s"]]
        how = op["how"]
        if how == "width_inplace":
            if isinstance(s.window_type_and_width, tuple):
                s.window_type_and_width = ["tukey", 0.3]
            else:
                s.window_type_and_width[1] = 0.3
            spec["width"] = 0.3
        elif how == "fcs_inplace":
            f0 = s.smoothing["center_frequencies_in_hz"]
            if isinstance(f0, tuple):
                f0 = list(f0)
                s.smoothing["center_frequencies_in_hz"] = f0
            f0[0] = float(f0[0]) * 1.25
            spec["fcs"] = [float(x) for x in f0]
        elif how == "assign_width":
            s.window_type_and_width = ["tukey", 0.2]
            spec["width"] = 0.2
        elif how == "assign_policy":
            s.handle_dissimilar_time_steps_by = "keeping_smallest_time_step"
            spec["policy"] = "keeping_smallest_time_step"
        elif how == "bandwidth":
            s.smoothing["bandwidth"] = s.smoothing["bandwidth"] * 1.5 if spec["op"] != "savitzky_and_golay" else 7
            spec["bw"] = s.smoothing["bandwidth"]
        st.set_version[op["s"]] += 1
        ctx.state_changes += 1
        ctx.event(op=name, s=op["s"], how=how)
    elif name == "process_bad":
        spec = copy.deepcopy(current_spec(st, op["s"]))
        idx = op["recs"]
        own = prop == "C09"
        records = [st.recs[i] if own else copy.deepcopy(st.recs[i]) for i in idx]
        restore = None
        if op["kind"] == "nan_last":
            last = records[-1]
            if own:
                restore = (last, float(last.vt.amplitude[-1]))
            last.vt.amplitude[-1] = np.nan
            # the caller's own settings object: a call that fails part-way must not leave anything in it
            settings = st.sets[op["s"]] if own else make_settings(H, spec)
        elif op["kind"] == "bad_window_type":
            settings = make_settings(H, spec)
            settings.window_type_and_width = ["hann", 0.1]
        elif op["kind"] == "above_nyquist":
            settings = make_settings(H, spec)
            f0 = list(np.asarray(settings.smoothing["center_frequencies_in_hz"], float))
            f0[-1] = 1.0e4                                   # far above every Nyquist frequency: the call must be refused
            settings.smoothing["center_frequencies_in_hz"] = f0
        elif op["kind"] == "injected":
            settings = st.sets[op["s"]] if own else make_settings(H, spec)
        else:
            settings = make_settings(H, spec)
            settings.smoothing["operator"] = "no_such_operator"
        before = [semantic_snap(r) for r in st.recs]
        exc = None
        inj = _Injector(H, op.get("site", "rfft"), op.get("at", 0)) if op["kind"] == "injected" else None
        try:
            if inj:
                inj.__enter__()
            try:
                _process(H, records, settings)
            finally:
                if inj:
                    inj.__exit__()
        except Exception as e:                              # noqa
            exc = e
        if inj and inj.fired:
            ctx.fault("injected_failure_in_" + op.get("site", "rfft"))
        if exc is not None:
            ctx.probe("aborted_process_call")
        if ctx.wants("C09") and own:
            frame_records(ctx, st, before, f"process({spec['cls']}) aborted by {op['kind']}",
                          {"cls": spec["cls"], "exit": "raise" if exc else "normal"})
        if restore:
            restore[0].vt.amplitude[-1] = restore[1]
        ctx.event(op=name, kind=op["kind"], exc=type(exc).__name__ if exc else None)
    else:
        raise HarnessError(name)
    if ctx.wants("C09"):
        frozen_results(ctx, st, op)


class InjectedFailure(MemoryError):
    pass


class _Injector:
    """Make the k-th call of an inner routine of hvsrpy.processing fail (while installed)."""

    def __init__(self, H, site, at):
        import hvsrpy.processing as P
        self.P, self.site, self.at, self.n, self.fired = P, site, (at % 2 if site == "smooth" else at), 0, False
        self.H = H

    def _wrap(self, fn):
        def wrapper(*a, **k):
            self.n += 1
            if self.n - 1 == self.at and not self.fired:
                self.fired = True
                raise InjectedFailure(f"injected failure in {self.site} call {self.at}")
            return fn(*a, **k)
        return wrapper

    def __enter__(self):
        P = self.P
        if self.site == "rfft":
            self.saved = ("rfft", P.rfft)
            P.rfft = self._wrap(P.rfft)
        elif self.site == "smooth":
            self.saved = ("SMOOTHING_OPERATORS", P.SMOOTHING_OPERATORS)
            P.SMOOTHING_OPERATORS = {k: self._wrap(v) for k, v in P.SMOOTHING_OPERATORS.items()}
        else:
            self.saved = ("window", self.H.TimeSeries.window)
            self.H.TimeSeries.window = self._wrap(self.H.TimeSeries.window)
        return self

    def __exit__(self, *exc):
        name, old = self.saved
        if name == "window":
            self.H.TimeSeries.window = old
        else:
            setattr(self.P, name, old)
        return False


def _digest_result(H, res):
    if res is None:
        return None
    if isinstance(res, dict):
        return {k: sha_array(np.asarray(v.amplitude)) for k, v in sorted(res.items())}
    rows = rows_of(H, res)
    if rows is None:
        return sha_array(np.asarray(res.amplitude))
    return [sha_array(a) for _, a in rows]


# ===================================================================== C09 oracles
def frame_records(ctx, st, before, what, key):
    for i, (b, r) in enumerate(zip(before, st.recs)):
        d = snapdiff(b, semantic_snap(r))
        ctx.check(d is None, "recording_changed",
                  lambda: f"{what} changed recording #{i}: {d}", key=key)
    ctx.probe("frame_condition_judged")


def no_sharing(ctx, st, res, settings, spec):
    mine = arrays_of(res)
    theirs = []
    for r in st.recs:
        theirs.extend(arrays_of(r))
    theirs.extend(arrays_of(vars(settings)))
    for a in mine:
        for b in theirs:
            if a.size and b.size and np.shares_memory(a, b):
                ctx.check(False, "result_shares_memory",
                          f"an array of the result ({spec['cls']}) shares memory with an input recording or the settings",
                          key={"cls": spec["cls"]})


def frozen_results(ctx, st, op):
    for j, (res, s0, cls) in enumerate(st.results):
        d = snapdiff(s0, semantic_snap(res))
        ctx.check(d is None, "earlier_result_changed",
                  lambda: f"result #{j} ({cls}) changed after {op['op']}"
                          f"{'(' + op.get('how', '') + ')' if op.get('how') else ''}: {d}",
                  key={"cls": cls, "after": op["op"], "how": op.get("how")})


# ===================================================================== execute
def _sig(ctx, st, op, last):
    spec = st.set_spec[op.get("s", 0)] if "s" in op else None
    recs = op.get("recs") or []
    dts = sorted({st.recs[i].ns.dt_in_seconds for i in recs})
    big = any(st.recs[i].ns.n_samples > 32768 for i in recs)
    ctx.signature(spec["cls"] if spec else "-", (spec or {}).get("method", "-"), (spec or {}).get("policy", "-"),
                  len(dts), min(len(recs), 4), "big" if big else "small", op.get("own"), ",".join(last))


def _solo_in_child(fresh, spec, n):
    H = hv()
    try:
        aspec, inv = ascending(spec)                        # the reference request is ascending; columns are put back
        return [(label, np.asarray(a)[:, inv]) for label, a in rows_of(H, _process(H, [fresh], make_settings(H, aspec, fft_n=n)))]
    except Exception:                                       # noqa
        return None


class RefServer:
    """A process forked when the run starts (before any call of the run); every request is served by a grandchild forked
    from that pristine state, so references share no process state with the run - nor with one another."""

    def __init__(self):
        import os
        import pickle
        self.os, self.pickle = os, pickle
        p2c_r, p2c_w = os.pipe()
        c2p_r, c2p_w = os.pipe()
        pid = os.fork()
        if pid == 0:
            try:
                os.close(p2c_w)
                os.close(c2p_r)
                rx, tx = os.fdopen(p2c_r, "rb"), os.fdopen(c2p_w, "wb")
                while True:
                    try:
                        fn, args = pickle.load(rx)
                    except EOFError:
                        break
                    r, w = os.pipe()
                    g = os.fork()
                    if g == 0:
                        code = 0
                        try:
                            os.close(r)
                            with os.fdopen(w, "wb") as f:
                                pickle.dump(fn(*args), f)
                        except BaseException:               # noqa
                            code = 1
                        finally:
                            os._exit(code)
                    os.close(w)
                    with os.fdopen(r, "rb") as f:
                        data = f.read()
                    os.waitpid(g, 0)
                    pickle.dump(data, tx)
                    tx.flush()
            finally:
                os._exit(0)
        os.close(p2c_r)
        os.close(c2p_w)
        self.pid, self.tx, self.rx = pid, os.fdopen(p2c_w, "wb"), os.fdopen(c2p_r, "rb")

    def call(self, fn, *args):
        self.pickle.dump((fn, args), self.tx)
        self.tx.flush()
        data = self.pickle.load(self.rx)
        if not data:
            raise HarnessError("reference process died")
        return self.pickle.loads(data)

    def close(self):
        try:
            self.tx.close()
            self.rx.close()
            self.os.waitpid(self.pid, 0)
        except Exception:                                   # noqa
            pass


def execute(triple, prop):
    ctx = Ctx(prop)
    violation = None
    last = []
    ref = RefServer() if prop == "C03" else None
    try:
        return _execute(ctx, triple, prop, ref)
    finally:
        if ref is not None:
            ref.close()


def _execute(ctx, triple, prop, ref):
    violation = None
    last = []
    try:
        st = build(triple["world"])
        st.ref_server = ref
        ctx.event(op="build", recs=[sha_array(r.ns.amplitude) for r in st.recs])
        for op in triple["ops"]:
            apply_op(ctx, st, op, prop)
            ctx.ops_done += 1
            last = (last + [op["op"]])[-2:]
            _sig(ctx, st, op, last)
    except Violation as v:
        violation = v.as_dict()
        ctx.event(violation=violation["oracle"])
    nontrivial = sum(ctx.judged.values()) > 0 and ctx.state_changes > 0
    return {"violation": violation, "digest": ctx.digest(), "probes": dict(ctx.probes),
            "faults": dict(ctx.faults), "ops": ctx.ops_done, "judged": dict(ctx.judged),
            "sigs": list(ctx.sig) if nontrivial else [], "nontrivial": bool(nontrivial),
            "known": ctx.known, "sim_seconds": 0.0}


def shrinks(t, prop):
    w = t["world"]
    for i, r in enumerate(w["records"]):
        if r["n"] > 400:
            c = copy.deepcopy(t)
            c["world"]["records"][i]["n"] = 300 if r["n"] <= 32768 else 33000
            yield c
    for i, s in enumerate(w["settings"]):
        if len(s["fcs"]) > 4:
            c = copy.deepcopy(t)
            c["world"]["settings"][i]["fcs"] = s["fcs"][:2] + s["fcs"][-2:]
            yield c
        if s["fft_n"] is not None:
            c = copy.deepcopy(t)
            c["world"]["settings"][i]["fft_n"] = None
            yield c
        if s["op"] != "konno_and_ohmachi":
            c = copy.deepcopy(t)
            c["world"]["settings"][i].update(op="konno_and_ohmachi", bw=40)
            yield c
    for j, o in enumerate(t["ops"]):
        if o["op"] in ("process", "process_bad") and len(o["recs"]) > 1:
            for r in range(len(o["recs"])):
                c = copy.deepcopy(t)
                del c["ops"][j]["recs"][r]
                yield c


EVIDENCE = {p: {
    "components": {"real": ["hvsrpy.process and everything below it (FFT, numba smoothing kernels, result classes)",
                            "SeismicRecording3C / TimeSeries / settings classes"],
                   "stub": ["none: this machine has no I/O, clock or scheduler; the simulator owns the operation history only"]},
    "assumptions": ["solo process() of a deep copy with fresh settings at the same FFT length is the per-row reference (C03)",
                    "deep snapshots traverse every attribute reachable from the public objects (C09)",
                    "no storage or timing fault applies to process(); the fault dimension is the aborted call"],
} for p in PROPS}
REQUIRED_PROBES = {"C03": ["c03_rows_judged", "batch_mixed_dt", "keeping_policy_dropped_records", "many_rows_sampled",
                           "resampling_groups_judged", "fft_length_above_floor"],
                   "C09": ["frame_condition_judged", "repeat_judged"]}
