"""Reader machine (DESIGN 3.3): recordings stored in eight layouts on a
simulated disk, storage faults between recorder and reader, argument routing
of read().  Oracle of C07."""
import copy
import io
import itertools
import os
import warnings

import numpy as np

from ..core import Ctx, Violation, HarnessError, rng_for, np_rng, canon, sha_array, close
from ..simfs import SimFS, SimDisk, Patched, is_sim
from . import formats as F

ISOLATE = "chunk"   # every chunk of consecutive runs starts in a forked child of a pristine process (see hvsrobj.py)

PROPS = ("C07",)

_hv = None


def hv():
    global _hv
    if _hv is None:
        from ..env import import_hvsrpy
        _hv = import_hvsrpy()
    return _hv


def warm(prop):
    hv()
    import obspy  # noqa
    spec = {"fmt": "mseed1", "n": 60, "rate": 100, "k": 1, "order": ["N", "E", "Z"], "idx": 0}
    F.encode(spec)


RATES = [20, 50, 75, 100, 128, 200, 250, 500]
GCF_RATES = [20, 50, 75, 100, 128, 200, 250, 500]
PERMS = [list(p) for p in itertools.permutations(["N", "E", "Z"])]
MUST_RAISE = ("header_count", "dup_component", "missing_component", "extra_component", "garbage", "empty", "lost_write")
MAY_RAISE = ("torn", "drop", "flip", "eio_read", "eol_strip_final")


# ===================================================================== generation
def draw_recording(rng, idx, fmt=None):
    fmt = fmt or rng.choice(F.FORMATS)
    n = rng.randint(50, 5000) if rng.random() < 0.9 else rng.randint(20000, 40000)
    if fmt in F.TEXT and n > 6000:
        n = rng.randint(50, 3000)
    s = {"fmt": fmt, "idx": idx, "n": n, "rate": rng.choice(RATES), "k": rng.randrange(1 << 30),
         "order": rng.choice(PERMS), "band": rng.choice(["BH", "HH", "EH", "SH", "HN"]),
         "loc": rng.choice(["", "", "00", "10"]), "big": rng.random() < 0.12,
         "eol": "crlf" if (fmt in F.TEXT and rng.random() < 0.3) else "lf"}
    if fmt not in F.TEXT and rng.random() < 0.3:
        s["bands"] = {c: rng.choice(["BH", "HH", "EH", "SH", "HN"]) for c in ("N", "E", "Z")}
    if fmt in ("sac_le", "sac_be") and rng.random() < 0.3:
        s["sac_orders"] = {c: rng.choice(["<", ">"]) for c in ("N", "E", "Z")}
    if fmt in ("mseed1", "mseed3"):
        s["encoding"] = rng.choice(["STEIM2", "STEIM1", "INT32"])
        if s["big"] and s["encoding"] != "INT32":
            s["encoding"] = "INT32"          # Steim differences are limited to 30 bits
    if fmt == "gcf":
        s["big"] = False
        s["n"] = min(s["n"], 5000)
    if fmt == "saf":
        s["order"] = ["Z", "N", "E"]
        s["east_first"] = rng.random() < 0.4
        s["north_rot"] = rng.choice([None, 0, 15, 90, 270, 359, 12.5, 359.75, 0.25])
        if rng.random() < 0.35:
            s["saf_cols"] = rng.choice(PERMS)     # vertical not on CH0: the reader may refuse, but never mix channels
    if fmt == "minishark":
        s["order"] = ["Z", "N", "E"]
        s["gain"] = rng.choice([1, 2, 8, 32])
        s["conv"] = rng.choice([1, 10, 419430])
    if fmt == "peer":
        if rng.random() < 0.75:
            ns = rng.choice(list(range(316, 361)) + list(range(0, 45)) + [0, 360] * 12)
            s["codes"] = {"N": str(ns), "E": str((ns + 90) % 360), "Z": rng.choice(["UP", "VER"])}
        else:
            b = rng.choice(["HN", "BH", "HL"])
            s["codes"] = {"N": b + "N", "E": b + "E", "Z": b + "Z"}
        if rng.random() < 0.3:
            s["peer_short"] = {"comp": rng.choice(["N", "E", "Z"]), "by": rng.randint(1, 20)}
    if fmt in F.TEXT and rng.random() < 0.2:
        s["trailing_blank"] = rng.choice([1, 2])
    if rng.random() < 0.15:
        s["as_pathlib"] = True
    s["dfn"] = rng.choice([None, None, 0.0, 33.5, 400.0, -15.0])
    return s


def draw_fault(rng, rec):
    fmt = rec["fmt"]
    kinds = ["torn", "torn", "flip", "flip", "drop", "dup_component", "missing_component", "header_count",
             "garbage", "empty", "eio_read", "lost_write"]
    if fmt in F.TEXT:
        kinds += ["eol_strip_final", "header_count", "header_count"]
    if fmt in ("saf", "minishark"):
        kinds += ["move_token", "move_token"]
    elif fmt not in F.TEXT:
        kinds = [k for k in kinds if k != "header_count"]       # (binary formats: obspy's business)
    if fmt in ("mseed1", "mseed3", "sac_le", "sac_be"):
        kinds += ["extra_component", "extra_component"]     # a fourth trace / file: one direction recorded twice
    if fmt in ("minishark",):
        kinds = [k for k in kinds if k not in ("dup_component", "missing_component")]
    kind = rng.choice(kinds)
    if kind == "dup_component" and fmt == "peer" and rec.get("codes", {}).get("N", "").isdigit() and rng.random() < 0.6:
        # biased: a north code on the axis, where the duplicated horizontal can carry the axis' other name (000/360, 090/270)
        ns = rng.choice([0, 360])
        rec["codes"] = {"N": str(ns), "E": "90", "Z": rec["codes"]["Z"]}
    return {"kind": kind, "rec": rec["idx"], "file": rng.randrange(3), "frac": rng.random(),
            "bias": rng.choice(["uniform", "header", "boundary", "tail"]), "k": rng.choice([1, 2, 5, -1, -3]),
            "bit": rng.randrange(8), "comp": rng.choice(["N", "E", "Z"]), "seed": rng.randrange(1 << 30)}


def generate(seed, prop):
    rng = rng_for(seed)
    mode = rng.choice(["single", "single", "single", "many"])
    faulty = rng.random() < 0.45
    if mode == "single":
        recs = [draw_recording(rng, 0)]
        ops = [{"op": "read_single", "rec": 0, "kw": rng.choice(["none", "none", "none", "empty", "format"])}]
    else:
        n = rng.randint(1, 4)
        style_k = rng.choice(["none", "dict", "list", "list", "empty"])
        style_d = rng.choice(["none", "scalar", "list"])
        recs = []
        for i in range(n):
            fmt = None
            if style_k == "dict":
                fmt = rng.choice(["mseed1", "mseed3", "saf", "minishark", "peer"])
            recs.append(draw_recording(rng, i, fmt))
        for r in recs:
            if style_d == "none":
                r["dfn"] = None
            elif style_d == "list" and r["dfn"] is None and rng.random() < 0.5:
                r["dfn"] = rng.choice([0.0, 12.0, 90.0])       # else: None entry = 'use this file's own orientation'
        scalar = rng.choice([0.0, 25.0, 90.0, 181.5])
        if style_d == "scalar":
            for r in recs:
                r["dfn"] = scalar
        trims = [rng.randint(10, max(11, r["n"] - 2)) if (style_k == "list" and r["fmt"].startswith("mseed") and rng.random() < 0.6) else None
                 for r in recs]
        ops = [{"op": "read_many", "kwargs_style": style_k, "dfn_style": style_d, "trims": trims,
                "unwrap_single": rng.random() < 0.5, "bare": rng.random() < 0.3,
                # reader options that do not name the format (obspy detects it): legal, and every reader sees them
                "noformat": rng.random() < 0.35,
                "dfn_num": rng.choice(["float", "float", "np32", "npint", "int", "np64"]),
                "per_rec_as": rng.choice(["list", "list", "list", "tuple", "iter", "gen", "cycle"])}]
    faults = []
    if faulty:
        for _ in range(rng.choice([1, 1, 1, 2])):
            faults.append(draw_fault(rng, rng.choice(recs)))
    return {"machine": "reader", "property": prop, "run_seed": int(seed),
            "config": {"mode": mode, "faulty": faulty},
            "world": {"recordings": recs}, "ops": ops, "faults": faults}


# ===================================================================== storage faults
def apply_fault(ctx, f, rec, files, rng_seed):
    """Damage the stored bytes of one recording.  files: list of [name, bytes].
    Returns the class of expectation: 'must_raise' | 'may_raise' | None."""
    g = rng_for(f["seed"])
    kind = f["kind"]
    fmt = rec["fmt"]
    fi = f["file"] % len(files)
    data = files[fi][1]

    def offset(data):
        n = len(data)
        if n == 0:
            return 0
        bias = f["bias"]
        if bias == "header":
            return min(n - 1, int(f["frac"] * min(n, 300)))
        if bias == "tail":
            return max(0, n - 1 - int(f["frac"] * 40))
        k = int(f["frac"] * n)
        if bias == "boundary":
            if fmt in F.TEXT:
                j = data.rfind(b"\n", 0, max(1, k))
                k = j + 1 if j >= 0 else 0
            else:
                k = (k // 512) * 512
        return min(max(k, 0), n - 1)

    if kind == "torn":
        k = offset(data)
        files[fi][1] = data[:k]
        ctx.fault("torn")
        return "may_raise"
    if kind == "eol_strip_final":
        if data.endswith(b"\r\n"):
            files[fi][1] = data[:-2]
        elif data.endswith(b"\n"):
            files[fi][1] = data[:-1]
        ctx.fault("eol_strip_final")
        return "may_raise"
    if kind == "flip":
        if not data:
            return None
        k = offset(data)
        b = bytearray(data)
        b[k] ^= (1 << f["bit"])
        files[fi][1] = bytes(b)
        ctx.fault("flip")
        return "may_raise"
    if kind == "drop":
        if fmt in F.TEXT:
            lines = data.split(b"\n")
            if len(lines) > 12:
                a = int(f["frac"] * (len(lines) - 6)) + 5
                del lines[a:a + max(1, abs(f["k"]))]
                files[fi][1] = b"\n".join(lines)
        else:
            k = (offset(data) // 512) * 512
            files[fi][1] = data[:k] + data[k + 512:]
        ctx.fault("drop")
        return "may_raise"
    if kind == "move_token":
        # one row loses a value, a later row gains it: the total number of values is unchanged
        lines = data.split(b"\n")
        sepc = b" " if fmt == "saf" else b"\t"
        idx = [i for i, l in enumerate(lines) if l and l[:1] in b"-0123456789" and l.count(sepc) == 2]
        if len(idx) < 8:
            return None
        a = idx[int(f["frac"] * (len(idx) - 4))]
        b = idx[min(len(idx) - 1, idx.index(a) + 1 + abs(f["k"]))]
        pa = lines[a].split(sepc)
        tok = pa.pop(g.randrange(3))
        lines[a] = sepc.join(pa)
        pb = lines[b].split(sepc)
        pb.insert(g.randrange(4), tok)
        lines[b] = sepc.join(pb)
        files[fi][1] = b"\n".join(lines)
        ctx.fault("move_token")
        return "may_raise"
    if kind == "header_count":
        txt = data.decode("latin-1")
        import re
        pat = {"saf": r"(NDAT = )(\d+)", "minishark": r"(#Sample number:\t)(\d+)", "peer": r"(NPTS=\s*)(\d+)"}[fmt]
        m = re.search(pat, txt)
        if not m:
            return None
        new = max(0, int(m.group(2)) + f["k"])
        if new == int(m.group(2)):
            new += 1
        rep = m.group(1) + (("%0" + str(len(m.group(2))) + "d") % new if fmt == "saf" else str(new))
        files[fi][1] = (txt[:m.start()] + rep + txt[m.end():]).encode("latin-1")
        ctx.fault("header_count")
        if fmt == "peer":
            # PEER does not require equal lengths; a header that announces MORE samples than present must raise,
            return "must_raise"
        return "must_raise"
    if kind in ("dup_component", "missing_component", "extra_component"):
        return None        # handled at encode time (see build_disk)
    if kind == "garbage":
        which = g.choice(["random", "text", "json"])
        if which == "random":
            blob = bytes(g.getrandbits(8) for _ in range(g.randint(10, 3000)))
        elif which == "text":
            blob = b"time,ns,ew,vt\n" + b"".join(b"%d,%d,%d,%d\n" % (i, i * 3, -i, i % 7) for i in range(200))
        else:
            blob = b'{"dt_in_seconds": 0.01, "ns_amplitude": [1, 2, 3]}\n'
        for x in files:
            x[1] = blob
        ctx.fault("garbage")
        return "must_raise"
    if kind in ("empty", "lost_write"):
        files[fi][1] = b""
        ctx.fault(kind)
        return "must_raise"
    if kind == "eio_read":
        return "may_raise"
    return None


def build_disk(ctx, st, world, faults):
    """Recorder writes every recording; storage faults damage what was written."""
    st.stored = []
    for rec in world["recordings"]:
        spec = copy.deepcopy(rec)
        fl = [f for f in faults if f["rec"] == rec["idx"]]
        expect_class = None
        # component-level faults are realised by the recorder writing the wrong channel set
        for f in fl:
            if f["kind"] == "extra_component" and rec["fmt"] not in ("mseed1", "mseed3", "sac_le", "sac_be"):
                continue
            if f["kind"] in ("dup_component", "missing_component", "extra_component") and rec["fmt"] not in ("minishark",):
                expect_class = "must_raise"
                ctx.fault(f["kind"])
                spec["_comp_fault"] = (f["kind"], f["comp"])
        files, exp = encode_with_comp_fault(spec)
        if rec["fmt"] == "saf" and rec.get("saf_cols") and rec["saf_cols"][0] != "Z" and expect_class is None:
            expect_class = "may_raise"
            ctx.fault("saf_nonstandard_layout")
        files = [[n, b] for n, b in files]
        if rec.get("trailing_blank") and rec["fmt"] in F.TEXT:
            files = [[n, b + b"\n" * rec["trailing_blank"]] for n, b in files]       # still an intact file
        if rec.get("eol") == "crlf":
            files = [[n, b.replace(b"\n", b"\r\n")] for n, b in files]
        for f in fl:
            c = apply_fault(ctx, f, rec, files, f["seed"])
            if c == "must_raise" or (c == "may_raise" and expect_class is None):
                expect_class = c
        if len(fl) > 1 and expect_class == "must_raise" and not any(f["kind"] == "garbage" for f in fl):
            # two faults can cancel (e.g. a header count lowered by one and the last row cut):
            # only single faults carry the must-raise verdict
            expect_class = "may_raise"
        paths = []
        for name, b in files:
            p = "/simfs/data/" + name
            st.fs.write_bytes(p, b)
            paths.append(p)
        st.stored.append({"spec": rec, "paths": paths, "exp": exp, "class": expect_class,
                          "eio": [f for f in fl if f["kind"] == "eio_read"]})


def encode_with_comp_fault(spec):
    cf = spec.pop("_comp_fault", None)
    if cf is None:
        return F.encode(spec)
    kind, comp = cf
    fmt = spec["fmt"]
    other = {"N": "E", "E": "Z", "Z": "N"}[comp]
    if fmt == "saf":
        files, exp = F.encode(spec)
        txt = files[0][1].decode()
        ids = {"N": "N", "E": "E", "Z": "V"}
        if kind == "dup_component":
            txt = txt.replace(f"_ID = {ids[comp]}", f"_ID = {ids[other]}")
        else:
            txt = "\n".join(l for l in txt.split("\n") if not l.endswith(f"_ID = {ids[comp]}"))
        return [(files[0][0], txt.encode())], exp
    if fmt == "peer":
        files, exp = F.encode(spec)
        codes = spec["codes"]
        out = []
        for (name, b), c in zip(files, spec["order"]):
            if c == comp:
                if kind == "missing_component":
                    continue
                new_code = codes[other]
                if codes["N"].isdigit() and int(codes["N"]) % 360 == 0 and comp in ("N", "E") and spec.get("k", 0) % 3 != 0:
                    # the same axis under its other name: north twice as 000 and 360, or east and west (090 and 270)
                    new_code = ("000" if codes["N"] == "360" else "360") if comp == "E" else str((int(codes["E"]) + 180) % 360)
                b = b.replace((", " + codes[comp] + "\n").encode(), (", " + new_code + "\n").encode(), 1)
            out.append((name, b))
        return out, exp
    # binary formats: rename / drop a trace before writing
    sp = copy.deepcopy(spec)
    files, exp = F.encode(sp)
    import obspy
    trs = F.decode_binary(fmt, [b for _, b in files])
    from obspy import Trace, Stream
    new = []
    for ch, d, delta in trs:
        if ch[-1] == comp and kind != "extra_component":
            if kind == "missing_component":
                continue
            ch = ch[:-1] + other
        t = F._trace(ch, d.astype(np.float32 if fmt.startswith("sac") else np.int32), round(1.0 / delta), sp)
        new.append(t)
        if ch[-1] == comp and kind == "extra_component":
            # the same direction once more (another band code, other samples): four traces, every direction present
            ch2 = ("E" if ch[0] != "E" else "H") + ch[1:]
            d2 = (d // 2 + 1) if not fmt.startswith("sac") else (d * 0.5 + 1)
            new.append(F._trace(ch2, d2.astype(np.float32 if fmt.startswith("sac") else np.int32), round(1.0 / delta), sp))
    with warnings.catch_warnings():
        warnings.simplefilter("ignore")
        if fmt in ("mseed1",):
            b = io.BytesIO()
            Stream(new).write(b, format="MSEED", reclen=512, encoding=spec.get("encoding", "STEIM2"))
            return [(files[0][0], b.getvalue())], exp
        if fmt == "gcf":
            import os
            import tempfile
            d = tempfile.mkdtemp(prefix="hvsrpy-verif-gcf-")
            p = os.path.join(d, "x.gcf")
            try:
                Stream(new).write(p, format="GCF")
                raw = open(p, "rb").read()
            finally:
                try:
                    os.remove(p)
                except OSError:
                    pass
                os.rmdir(d)
            return [(files[0][0], raw)], exp
        out = []
        for i, t in enumerate(new):
            b = io.BytesIO()
            if fmt == "mseed3":
                t.write(b, format="MSEED", reclen=512, encoding=spec.get("encoding", "STEIM2"))
            else:
                t.write(b, format="SAC", byteorder="<" if fmt == "sac_le" else ">")
            out.append((f"r{spec.get('idx', 0)}_{i}.bin", b.getvalue()))
        return out, exp


# ===================================================================== expectations
def decode_surviving(st, entry):
    """Independent decode of what is on the disk now.  Returns an expectation
    dict, 'must_raise' (the property demands an error) or 'undecodable'."""
    rec = entry["spec"]
    fmt = rec["fmt"]
    blobs = [st.fs.read_bytes(p) for p in entry["paths"]]
    try:
        if fmt == "saf":
            return F.decode_saf(blobs[0])
        if fmt == "minishark":
            return F.decode_minishark(blobs[0])
        if fmt == "peer":
            if len(blobs) != 3:
                return "must_raise"
            parts = [F.decode_peer_file(b) for b in blobs]
            codes = [p[0] for p in parts]
            return assemble_peer(parts)
        trs = F.decode_binary(fmt, blobs, entry.get("read_kwargs"))
        if fmt in ("mseed3", "sac_le", "sac_be") and len(blobs) != 3:
            return "must_raise"
        a = F.assemble_binary(trs)
        return a if a is not None else "must_raise"
    except Exception:                                       # noqa
        return "undecodable"


def assemble_peer(parts):
    codes = [p[0] for p in parts]
    dts = {p[2] for p in parts}
    if len(dts) != 1:
        return "must_raise"
    vt = [i for i, c in enumerate(codes) if c in ("UP", "VER") or c[-1].lower() == "z"]
    if len(vt) != 1:
        return "must_raise"
    rest = [i for i in range(3) if i != vt[0]]
    if all(codes[i].isdigit() for i in rest):
        rel = {i: ((int(codes[i]) + 180) % 360) - 180 for i in rest}
        if abs(abs(rel[rest[0]]) - abs(rel[rest[1]])) < 1:
            return "undecodable"
        ns = min(rest, key=lambda i: abs(rel[i]))
        ew = max(rest, key=lambda i: abs(rel[i]))
        deg = float(int(codes[ns]) % 360)
    else:
        nsl = [i for i in rest if codes[i][-1] == "N"]
        ewl = [i for i in rest if codes[i][-1] == "E"]
        if len(nsl) != 1 or len(ewl) != 1:
            return "must_raise"
        ns, ew, deg = nsl[0], ewl[0], 0.0
    n = min(len(p[1]) for p in parts)
    return {"ns": parts[ns][1][:n], "ew": parts[ew][1][:n], "vt": parts[vt[0]][1][:n], "dt": parts[0][2], "deg": deg}


def compare(ctx, got, exp, dfn, what, key, paths):
    rtol = exp.get("rtol", 0.0)
    for comp in ("ns", "ew", "vt"):
        g = np.asarray(getattr(got, comp).amplitude, float)
        e = np.asarray(exp[comp], float)
        ok = g.shape == e.shape and (close(g, e, rtol, 0.0))
        ctx.check(ok, "samples_on_wrong_component_or_altered",
                  lambda: f"{what}: {comp} holds {len(g)} samples that differ from the samples stored for that channel "
                          f"({'length ' + str(len(e)) if g.shape != e.shape else str(int(np.sum(~np.isclose(g, e, rtol=max(rtol, 1e-12), atol=0)))) + ' differ'}); "
                          f"matches stored: " + ",".join(c for c in ('ns', 'ew', 'vt') if np.asarray(exp[c]).shape == g.shape and close(g, exp[c], rtol, 0)),
                  key={**key, "comp": comp})
    if exp.get("dt") is not None:
        for comp in ("ns", "ew", "vt"):
            ctx.check(close(getattr(got, comp).dt_in_seconds, exp["dt"], 1e-12), "time_step_differs",
                      f"{what}: dt {getattr(got, comp).dt_in_seconds!r} != file's {exp['dt']!r}", key=key)
    want = None
    if dfn is not None:
        want = float(dfn) % 360.0
    elif exp.get("deg") is not None:
        want = float(exp["deg"]) % 360.0
    if want is not None:
        ctx.check(close(float(got.degrees_from_north) % 360.0, want, 0, 1e-9), "orientation_differs",
                  f"{what}: degrees_from_north {got.degrees_from_north!r} != {want!r} "
                  f"({'explicit argument' if dfn is not None else 'file metadata'})", key={**key, "src": "arg" if dfn is not None else "file"})
    names = got.meta.get("file name(s)")
    flat = [names] if isinstance(names, str) else list(names or [])
    flat = [str(x) for x in flat]
    ctx.check(sorted(flat) == sorted(paths), "file_names_meta", f"{what}: meta file name(s) {flat} != {paths}", key=key)


# ===================================================================== execute
class State:
    pass


def obspy_shim(st, real=None):
    import obspy
    real = real or obspy.read

    def shim(fname, *args, **kwargs):
        with warnings.catch_warnings():
            warnings.simplefilter("ignore")
            if is_sim(fname):
                with st.fs.open(os.fspath(fname) if isinstance(fname, os.PathLike) else fname, "rb") as fh:   # through SimFS
                    data = fh.read()
                return real(io.BytesIO(data), *args, **kwargs)
            return real(fname, *args, **kwargs)
    return shim


def judge_outcome(ctx, st, entry, got, exc, dfn, what, key):
    cls = entry["class"]
    rec = entry["spec"]
    if cls is None:
        # intact: exact result required
        ctx.check(exc is None, "intact_file_refused",
                  lambda: f"{what}: reading an intact {rec['fmt']} recording raised {type(exc).__name__}: {exc}", key=key)
        exp = entry["exp"]
        if rec["fmt"].startswith("sac"):
            exp = dict(exp)
            exp["dt"] = F.decode_binary(rec["fmt"], [st.fs.read_bytes(entry["paths"][0])])[0][2]
        compare(ctx, got, exp, dfn, what, key, entry["paths"])
        ctx.probe("intact_judged_" + rec["fmt"])
        return
    dec = decode_surviving(st, entry)
    if cls == "must_raise" and not isinstance(dec, dict):
        ctx.check(exc is not None, "damaged_file_accepted",
                  lambda: f"{what}: a {rec['fmt']} recording with {key['fault']} yielded a recording instead of an error",
                  key=key)
        ctx.probe("must_raise_judged")
        return
    if cls == "must_raise" and isinstance(dec, dict):
        # the fault did not materialise as one of the must-raise conditions
        # (e.g. PEER header announcing fewer samples than present is not decodable strictly)
        cls = "may_raise"
    if exc is not None:
        ctx.probe("damaged_refused")
        return
    if dec == "must_raise":
        ctx.check(False, "damaged_file_accepted",
                  f"{what}: surviving bytes of the {rec['fmt']} recording hold a missing/duplicate component or unequal "
                  f"lengths, yet a recording was returned", key=key)
    if dec == "undecodable":
        structural = set(key.get("fault", "").split("+")) <= {"move_token", "drop", "torn", "eol_strip_final"}
        # (only for damage that moves or removes whole characters: after a flipped byte the lenient
        #  readers may legitimately parse a different number out of the damaged row)
        if rec["fmt"] in ("saf", "minishark") and len(entry["paths"]) == 1 and structural:
            sc = F.scan_rows(rec["fmt"], st.fs.read_bytes(entry["paths"][0]))
            if sc is not None:
                # whatever else is wrong with the file, a recording may only be made of the file's
                # well-formed rows, in order, and their number must be the one the header announces
                cand = [sc["rows"]]
                if sc["tail_row"] is not None:
                    cand.append(np.vstack([sc["rows"], np.array([sc["tail_row"]], dtype=np.int64)]))
                scale = 1.0
                if rec["fmt"] == "minishark":
                    scale = 1.0 / rec.get("gain", 1) / rec.get("conv", 1)
                g3 = np.vstack([got.vt.amplitude, got.ns.amplitude, got.ew.amplitude]).T
                ok = False
                for c in cand:
                    if len(c) == sc["n"] and c.shape == g3.shape and \
                            close(g3, c.astype(np.float32).astype(float) * scale, 1e-6, 0.0):
                        ok = True
                ctx.check(ok, "damaged_file_accepted",
                          lambda: f"{what}: the damaged {rec['fmt']} file announces {sc['n']} samples and holds {len(sc['rows'])} well-formed "
                                  f"rows (+{1 if sc['tail_row'] is not None else 0} unterminated, {sc['junk']} malformed), yet a recording of "
                                  f"{len(got.vt.amplitude)} samples was returned that is not made of those rows", key=key)
                ctx.probe("damaged_rows_judged")
                return
        ctx.probe("lenient_accept_of_undecodable_file")
        return
    compare(ctx, got, dec, dfn, what + " (damaged, vs independent decode)", key, entry["paths"])
    ctx.probe("damaged_exact_judged")


def execute(triple, prop):
    H = hv()
    import hvsrpy.data_wrangler as DW
    ctx = Ctx(prop)
    st = State()
    st.fs = SimFS(SimDisk(), ctx)
    violation = None
    try:
        with warnings.catch_warnings():
            warnings.simplefilter("ignore")
            build_disk(ctx, st, triple["world"], triple["faults"])
            ctx.event(op="store", files={p: sha_array(np.frombuffer(b, dtype=np.uint8)) for p, b in sorted(st.fs.disk.files.items())})
            # seam: the module's own obspy wrapper when it exists, else obspy.read as the module sees it
            import obspy as _obspy
            shim = obspy_shim(st)
            if hasattr(DW, "_quiet_obspy_read"):
                seam_obj, seam_name = DW, "_quiet_obspy_read"
            else:
                seam_obj, seam_name = _obspy, "read"
            old = getattr(seam_obj, seam_name)
            if seam_obj is _obspy:
                shim = obspy_shim(st, real=old)
            setattr(seam_obj, seam_name, shim)
            try:
                with Patched(st.fs, modules=(DW,)):
                    for op in triple["ops"]:
                        run_op(ctx, st, op, H)
                        ctx.ops_done += 1
            finally:
                setattr(seam_obj, seam_name, old)
    except Violation as v:
        violation = v.as_dict()
        ctx.event(violation=violation["oracle"])
    nontrivial = sum(ctx.judged.values()) > 0
    return {"violation": violation, "digest": ctx.digest(), "probes": dict(ctx.probes),
            "faults": dict(ctx.faults), "ops": ctx.ops_done, "judged": dict(ctx.judged),
            "sigs": list(ctx.sig) if nontrivial else [], "nontrivial": bool(nontrivial),
            "known": ctx.known, "sim_seconds": 0.0}


def fname_arg(entry, unwrap=True):
    p = entry["paths"]
    if entry["spec"].get("as_pathlib"):
        import pathlib
        p = [pathlib.Path(x) for x in p]                 # file names may be path objects
    if len(p) == 1 and unwrap:
        return p[0]
    return list(p)


def arm_eio(st, entry):
    if entry["eio"]:
        f = entry["eio"][0]
        st.fs.arm({"kind": "eio_read", "at": int(f["frac"] * 3), "path": entry["paths"][f["file"] % len(entry["paths"])]})


def fault_name(entry, faults):
    return entry["class"] and "+".join(sorted({f["kind"] for f in faults})) or "none"


def run_op(ctx, st, op, H):
    world_faults = st.world_faults
    if op["op"] == "read_single":
        entry = st.stored[op["rec"] % len(st.stored)]
        rec = entry["spec"]
        arm_eio(st, entry)
        got, exc = None, None
        try:
            kwm = op.get("kw", "none")
            if kwm == "none":
                got = H.read_single(fname_arg(entry), degrees_from_north=rec["dfn"])
            else:
                okw = {} if kwm == "empty" else ({"format": "MSEED"} if rec["fmt"].startswith("mseed") else
                                                 {"format": "SAC"} if rec["fmt"].startswith("sac") else
                                                 {"format": "GCF"} if rec["fmt"] == "gcf" else {})
                ctx.probe("reader_options_without_format" if not okw else "reader_options_with_format")
                got = H.read_single(fname_arg(entry), obspy_read_kwargs=okw, degrees_from_north=rec["dfn"])
        except Exception as e:                               # noqa
            exc = e
        finally:
            st.fs.disarm()
        fk = "+".join(sorted({f["kind"] for f in world_faults if f["rec"] == rec["idx"]})) or "none"
        key = {"fmt": rec["fmt"], "fault": fk, "api": "read_single"}
        judge_outcome(ctx, st, entry, got, exc, rec["dfn"], f"read_single({rec['fmt']}, order={''.join(rec['order'])})", key)
        ctx.signature(rec["fmt"], "".join(rec["order"]), fk, "single", rec["eol"])
        ctx.event(op="read_single", fmt=rec["fmt"], exc=type(exc).__name__ if exc else None,
                  got=None if got is None else [sha_array(got.ns.amplitude), sha_array(got.ew.amplitude), sha_array(got.vt.amplitude)])
        return
    if op["op"] == "read_many":
        entries = st.stored
        fnames = [fname_arg(e, unwrap=op["unwrap_single"]) for e in entries]
        if op.get("bare") and len(entries) == 1 and len(entries[0]["paths"]) == 1:
            fnames = fname_arg(entries[0], unwrap=True)        # a single file name instead of a list (accepted with a warning)
        ks, ds = op["kwargs_style"], op["dfn_style"]
        from obspy import UTCDateTime
        t0 = UTCDateTime(2020, 1, 1)

        noformat = bool(op.get("noformat"))

        def kw_for(e, trim):
            fmt = e["spec"]["fmt"]
            if fmt.startswith("mseed"):
                kw = {} if noformat else {"format": "MSEED"}
                if trim is not None:
                    kw["endtime"] = t0 + (trim + 0.5) / e["spec"]["rate"]
                return kw
            if fmt.startswith("sac"):
                return {} if noformat else {"format": "SAC"}
            if fmt == "gcf":
                return {} if noformat else {"format": "GCF"}
            return {} if noformat else None
        # obspy trims each miniSEED file by its own record/sample rules; when that leaves the three
        # components with different lengths the option is not used for that recording
        trims = list(op["trims"])
        import obspy
        for i_, (e, t) in enumerate(zip(entries, trims)):
            if t is not None and ks == "list" and e["spec"]["fmt"].startswith("mseed"):
                try:
                    with warnings.catch_warnings():
                        warnings.simplefilter("ignore")
                        lens = {len(tr.data) for p in e["paths"]
                                for tr in obspy.read(io.BytesIO(st.fs.read_bytes(p)), **kw_for(e, t))}
                except Exception:                            # noqa
                    lens = {0, 1}
                if len(lens) != 1:
                    trims[i_] = None
                    ctx.probe("reader_option_dropped_unequal_trim")
        op = dict(op)
        op["trims"] = trims
        if ks == "none":
            kwargs = None
        elif ks == "dict":
            kwargs = {"format": "MSEED"}
        elif ks == "empty":
            kwargs = {}
            ctx.probe("reader_options_without_format")
        else:
            if noformat:
                ctx.probe("reader_options_without_format")
            kwargs = [kw_for(e, t) for e, t in zip(entries, op["trims"])]
        if ds == "none":
            dfn = None
        elif ds == "scalar":
            dfn = entries[0]["spec"]["dfn"]
            num = op.get("dfn_num", "float")
            if dfn is not None and num != "float":
                # one value for all recordings, as callers hold it: a Python int, a numpy scalar read from a station table
                if num == "np32" and float(np.float32(dfn)) == float(dfn):
                    dfn = np.float32(dfn)
                elif num in ("npint", "int") and float(dfn).is_integer():
                    dfn = np.int64(dfn) if num == "npint" else int(dfn)
                elif num == "np64":
                    dfn = np.float64(dfn)
                ctx.probe("single_orientation_as_" + type(dfn).__name__)
        else:
            dfn = [e["spec"]["dfn"] for e in entries]
        for e in entries:
            arm_eio(st, e)
        got, exc = None, None
        k_arg, d_arg = copy.deepcopy(kwargs), copy.deepcopy(dfn)
        # the per-recording values are documented as "iterable of ...": lists, tuples, or one-shot iterators (a generator over a
        # station table, map(), itertools.cycle of two orientations)
        how = op.get("per_rec_as", "list")
        if how != "list":
            import itertools
            conv = {"tuple": tuple, "iter": iter, "gen": lambda v: (x for x in v),
                    "cycle": lambda v: itertools.cycle(v)}[how]
            if isinstance(k_arg, list) and how != "cycle":
                k_arg = conv(k_arg)
            if isinstance(d_arg, list) and (how != "cycle" or len(d_arg) == len(entries)):
                d_arg = conv(d_arg)
            ctx.probe("per_recording_values_as_" + how)
        try:
            got = H.read(fnames, obspy_read_kwargs=k_arg, degrees_from_north=d_arg)
        except Exception as e:                               # noqa
            exc = e
        finally:
            st.fs.disarm()
        any_fault = any(e["class"] for e in entries)
        key = {"api": "read", "kwargs": ks, "dfn": ds, "fault": "some" if any_fault else "none"}
        ctx.signature("many", len(entries), ks, ds, "+".join(sorted({e["spec"]["fmt"] for e in entries})), key["fault"])
        ctx.event(op="read_many", n=len(entries), ks=ks, ds=ds, exc=type(exc).__name__ if exc else None)
        if any(e["class"] == "must_raise" for e in entries):
            decs = [decode_surviving(st, e) for e in entries if e["class"] == "must_raise"]
            if any(not isinstance(d, dict) for d in decs):
                ctx.check(exc is not None, "damaged_file_accepted",
                          "read(): one of the recordings has a count mismatch / missing or duplicate component / unrecognised "
                          "file, yet a list of recordings was returned", key=key)
                ctx.probe("must_raise_judged")
            return
        if any_fault:
            if exc is not None:
                ctx.probe("damaged_refused")
                return
        else:
            ctx.check(exc is None, "intact_batch_refused",
                      lambda: f"read() of {len(entries)} intact recording(s) with obspy_read_kwargs given as {ks} and "
                              f"degrees_from_north given as {ds} raised {type(exc).__name__}: {exc}", key=key)
        ctx.check(isinstance(got, list) and len(got) == len(entries), "wrong_number_of_recordings",
                  f"read() returned {len(got) if isinstance(got, list) else type(got)} recordings for {len(entries)} entries", key=key)
        for i, (e, g, trim) in enumerate(zip(entries, got, op["trims"])):
            rec = e["spec"]
            k2 = {**key, "fmt": rec["fmt"]}
            exp_entry = e
            if trim is not None and ks == "list" and e["class"] is not None:
                exp_entry = dict(e)
                exp_entry["read_kwargs"] = kw_for(e, trim)
            if trim is not None and ks == "list" and e["class"] is None:
                # what the recorder's decoder yields for this recording under *its own* options
                import obspy
                exp = dict(e["exp"])
                with warnings.catch_warnings():
                    warnings.simplefilter("ignore")
                    trs = []
                    for p in e["paths"]:
                        trs.extend(obspy.read(io.BytesIO(st.fs.read_bytes(p)), **kw_for(e, trim)))
                for tr in trs:
                    exp[{"N": "ns", "E": "ew", "Z": "vt"}[tr.stats.channel[-1]]] = np.array(tr.data, dtype=float)
                if len(exp["ns"]) == rec["n"]:
                    ctx.probe("reader_option_without_effect")
                exp_entry = dict(e)
                exp_entry["exp"] = exp
                ctx.probe("per_recording_reader_option_judged")
            judge_outcome(ctx, st, exp_entry, g, None, rec["dfn"], f"read()[{i}] ({rec['fmt']})", {**k2, "fault": "none" if e["class"] is None else "some"})
        if ds == "list" and ks in ("none", "dict"):
            ctx.probe("per_recording_degrees_alone")
        return
    raise HarnessError(op["op"])


_orig_execute = execute


def execute(triple, prop):                                   # noqa: F811  (wrap to pass the fault list to run_op)
    State.world_faults = triple["faults"]
    return _orig_execute(triple, prop)


def shrinks(t, prop):
    for i, r in enumerate(t["world"]["recordings"]):
        if r["n"] > 60:
            c = copy.deepcopy(t)
            c["world"]["recordings"][i]["n"] = 50
            yield c
        if r["order"] != ["N", "E", "Z"] and r["fmt"] not in ("saf", "minishark"):
            c = copy.deepcopy(t)
            c["world"]["recordings"][i]["order"] = ["N", "E", "Z"]
            yield c
        if r.get("eol") == "crlf":
            c = copy.deepcopy(t)
            c["world"]["recordings"][i]["eol"] = "lf"
            yield c
        if r.get("big"):
            c = copy.deepcopy(t)
            c["world"]["recordings"][i]["big"] = False
            yield c
    if len(t["world"]["recordings"]) > 1 and t["ops"] and t["ops"][0]["op"] == "read_many":
        for i in range(len(t["world"]["recordings"])):
            c = copy.deepcopy(t)
            del c["world"]["recordings"][i]
            for j, r in enumerate(c["world"]["recordings"]):
                r["idx"] = j
            del c["ops"][0]["trims"][i]
            c["faults"] = []
            yield c


EVIDENCE = {"C07": {
    "components": {"real": ["hvsrpy.read / read_single and all six per-format readers, the trial-and-error dispatcher, hvsrpy.regex",
                            "obspy's miniSEED / SAC / GCF decoders, the stdlib text I/O stack"],
                   "stub": ["the storage device (SimFS); obspy.read is handed io.BytesIO(bytes read through SimFS)",
                            "the recorder: obspy's writers (binary formats) and my encoders (SAF, MiniShark, PEER)"]},
    "assumptions": ["excluded: PEER horizontals that are anti-parallel but not tied (000/180), negative NORTH_ROT, read() argument lists shorter than the list of recordings, obspy's microsecond rounding of the SAC time step (the expected dt is obspy's own decode), in-memory streams through the trial-and-error dispatcher", "obspy's writers are the recorder for miniSEED/SAC/GCF; a defect mirrored by obspy's reader is invisible",
                    "SAF: vertical is CH0 (format specification); NORTH_ROT is judged for north-first files only",
                    "PEER numeric azimuth codes are generated right-handed with the north-ish code within 45 degrees of north",
                    "under torn/flipped/dropped bytes the outcome may be an error or exactly the independent decode of the surviving bytes; "
                    "a file my strict parser rejects but the lenient reader accepts is probe-counted only",
                    "the public API is driven with path names (SimFS paths), not in-memory streams"],
}}
REQUIRED_PROBES = {"C07": ["must_raise_judged", "damaged_exact_judged", "per_recording_degrees_alone",
                           "per_recording_values_as_iter", "per_recording_values_as_cycle"]}
