"""CLI machine (DESIGN 3.6): the command line interface run over SimPool with
a simulated clock.  Oracle of C19: every <stem>.csv equals the file produced by
read -> preprocess -> process -> write for that input alone with freshly loaded
settings, whatever the batch, the order, --nproc and the schedule."""
import copy
import hashlib
import io
import json
import os
import shutil
import tempfile
import warnings

import numpy as np

from ..core import Ctx, Violation, HarnessError, rng_for, np_rng, canon, close
from ..simpool import SimPool, SimClock, SimOs, Scheduler

PROPS = ("C19",)

_hv = None


def hv():
    global _hv
    if _hv is None:
        from ..env import import_hvsrpy
        _hv = import_hvsrpy()
        import hvsrpy.cli  # noqa
    return _hv


def warm(prop):
    from . import batch
    batch.warm(prop)
    hv()
    import obspy  # noqa


RATES = [50, 100, 200, 250, 500, 1000]


# ===================================================================== generation
def draw_processing(rng):
    from .batch import OPERATORS, METHODS
    cls = rng.choice(["traditional", "traditional", "single_azimuth", "rotdpp", "azimuthal", "diffuse_field"])
    op, bw = rng.choice(OPERATORS + OPERATORS[:2] + OPERATORS[3:])   # Savitzky-Golay less often (its negative lobes get
    #                                                                  files refused; such files are skipped by the oracle)
    nf = rng.randint(4, 10)
    fcs = [float(x) for x in np.geomspace(0.5, 20.0, nf)]
    s = {"cls": cls, "policy": rng.choice(["frequency_domain_resampling", "keeping_majority_time_step"]),
         "width": rng.choice([0.05, 0.1, 0.5]), "op": op, "bw": bw, "fcs": fcs, "fcs_as": "list",
         "fft_n": rng.choice([None, None, None, 4096])}
    if cls == "traditional":
        s["method"] = rng.choice(METHODS)
    if cls == "single_azimuth":
        s["method"] = rng.choice(["single_azimuth", "directional_energy"])
        s["az"] = rng.choice([0.0, 20.0, 90.0])
    if cls in ("rotdpp", "azimuthal"):
        s["azs"] = [float(a) for a in sorted(rng.sample(range(0, 180, 15), rng.randint(2, 3)))]
        s["pp"] = rng.choice([50.0, 100.0])
    return s


def generate(seed, prop):
    rng = rng_for(seed)
    n_files = rng.randint(2, 6)
    wl = rng.choice([20.0, 40.0, 60.0, 70.0])
    files = []
    straddle = rng.random() < 0.6
    for i in range(n_files):
        rate = rng.choice(RATES)
        if straddle and i < 2:
            rate = [1000, 100][i] if wl >= 40 else [1000, 500][i]
        nwin = rng.randint(2, 3)
        dur = wl * nwin + rng.choice([0.0, 0.3 * wl])
        if rate * dur > 220000:                       # keep files small enough
            dur = wl * 2
        style = rng.random()
        if style < 0.6:
            stem = "f%d_%s" % (i, rng.choice(["a", "b", "c"]))
        elif style < 0.85:
            stem = "UT.STN%d.%s" % (i, rng.choice(["a2", "c50"]))      # dots inside the name; common prefix
        elif style < 0.93:
            stem = "rec %d-%s" % (i, rng.choice(["x", "y"]))            # a space and a dash
        else:
            stem = "STN%d[%d]" % (i, rng.choice([1, 2]))                # a 'second copy' name: brackets are legal in file names
        files.append({"stem": stem, "rate": rate,
                      "n": int(rate * dur) + 1, "k": rng.randrange(1 << 30)})
        if rng.random() < 0.3:
            # a SESAME ASCII file: the only CLI input that carries its own sensor orientation
            files[-1]["saf_rot"] = rng.choice([None, 0, 40, 90.5, 200])
            if files[-1]["n"] > 60000:
                files[-1]["n"] = int(rate * wl * 2) + 1
    pre = {"window_length_in_seconds": wl, "detrend": rng.choice(["linear", "constant"]),
           "filter": rng.choice([[None, None], [None, None], [0.2, None], [0.2, 20.0], [None, 24.0], [0.5, 40.0]]),
           "orient": rng.choice([0.0, 30.0, None, None])}     # None: leave every sensor as deployed
    many_windows = rng.random() < 0.05
    if many_windows:
        # hours of data cut into short windows: hundreds of windows per file (with the figure step switched on below)
        wl = 2.0
        pre["window_length_in_seconds"] = wl
        for f_ in files[:2]:
            f_["rate"] = rng.choice([50, 100])
            f_["n"] = int(f_["rate"] * wl * rng.randint(205, 260)) + 1
            f_.pop("saf_rot", None)
        for f_ in files[2:]:
            f_["n"] = int(f_["rate"] * wl * rng.randint(3, 12)) + 1
    if rng.random() < 0.2:
        # the other preprocessing class the command line accepts (its settings file only differs in the method entry and
        # the extra steps): spectral differentiation of the whole record before it is cut into windows
        pre["psd"] = {"differentiate": rng.random() < 0.7, "width": rng.choice([0.05, 0.1]),
                      "fft_n": rng.choice([None, None, 4096])}
    proc = draw_processing(rng)
    if rng.random() < 0.12 and not many_windows:
        # recordings stored in SI units at a quiet site (float samples of 1e-9 m/s and below), all files of the batch with
        # the same sampling rate and length - a temporary array deployment; any comparison "up to an absolute tolerance"
        # finds such recordings all alike
        sc = rng.choice([4e-10, 1e-9, 1e-12, 3e-11])
        same = rng.random() < 0.8
        for f_ in files:
            f_.pop("saf_rot", None)
            f_["scale"] = sc
            if same:
                f_["rate"], f_["n"] = files[0]["rate"], files[0]["n"]
        if rng.random() < 0.6:
            for _ in range(20):
                if proc["cls"] in ("azimuthal", "single_azimuth"):
                    break
                proc = draw_processing(rng)
    if rng.random() < 0.1:
        # a second NAME for one of the recordings (a symbolic link 'SITE_A' -> 'raw/rec_0001' as field campaigns keep them):
        # an input of its own, with an output of its own named after the link
        j = rng.randrange(len(files))
        files.append(dict(files[j], stem="SITE_%s" % rng.choice(["A", "B7"]), link_to=j))
        if rng.random() < 0.4:
            files.append(dict(files[j], stem="alias.of.%d" % j, link_to=j))
    flat = rng.random() < 0.08 and not many_windows
    if flat:
        # sites without a resonance (rock): white spectra, and a coarse frequency grid - the mean curve often has no peak,
        # which the figure step cannot draw
        for f_ in files:
            f_["flat"] = True
        proc["fcs"] = [float(x) for x in np.geomspace(0.5, 20.0, rng.choice([3, 4, 4, 5]))]
    n_files = len(files)
    order = list(range(n_files))
    rng.shuffle(order)
    if rng.random() < 0.08:
        order = order[:1]                            # a batch of one file
    nproc = rng.choice([None, 1, 2, 2, 3, 4, 6])
    argv = {"order": order, "nproc": nproc, "cpus": rng.choice([1, 2, 3, 4, 8]),
            "dfn": rng.choice(["lognormal", "normal"]), "dmc": rng.choice(["lognormal", "normal"]),
            "no_figure": rng.random() < 0.92 and not many_windows and not flat, "no_file": rng.random() < 0.04 and not many_windows}
    sched = {"mode": rng.choice(["random", "random", "random", "fifo"]), "seed": rng.randrange(1 << 30),
             "stall_rate": rng.choice([0.0, 0.1, 0.3])}
    return {"machine": "cli", "property": prop, "run_seed": int(seed),
            "config": {"straddle": straddle, "calibrate": rng.random() < 0.08},
            "world": {"files": files, "pre": pre, "proc": proc},
            "ops": [{"op": "cli", "argv": argv, "sched": sched}], "faults": []}


# ===================================================================== helpers
def write_inputs(d, world):
    import obspy
    from obspy import Trace, Stream, UTCDateTime
    H = hv()
    paths = {}
    with warnings.catch_warnings():
        warnings.simplefilter("ignore")
        for f in world["files"]:
            if f.get("link_to") is not None:
                continue
            g = np_rng(f["k"])
            n, rate = f["n"], f["rate"]
            t = np.arange(n) / rate
            trs = []
            comps = {}
            for j, ch in enumerate(["BHN", "BHE", "BHZ"]):
                x = g.normal(0, 1000, n) + (0.0 if f.get("flat") else 1.0) * (3000.0 if j < 2 else 800.0) * np.sin(2 * np.pi * (1.7 + 0.2 * j) * t)
                comps["NEZ"[j]] = np.round(x).astype(np.int32)
                tr = Trace(data=np.round(x).astype(np.int32))
                if f.get("scale"):
                    tr = Trace(data=(x * f["scale"] / 1000.0).astype(np.float64))      # SI units, stored as doubles
                tr.stats.sampling_rate = float(rate)
                tr.stats.channel = ch
                tr.stats.station = "S"
                tr.stats.starttime = UTCDateTime(2020, 1, 1)
                trs.append(tr)
            if "saf_rot" in f:
                from . import formats as F
                (name, blob), = F.encode_saf({"rate": rate, "n": n, "north_rot": f["saf_rot"]}, comps, f["stem"])[0]
                p = os.path.join(d, name)
                with open(p, "wb") as fh:
                    fh.write(blob)
            else:
                p = os.path.join(d, f["stem"] + ".mseed")
                Stream(trs).write(p, format="MSEED")
            paths[f["stem"]] = p
        for f in world["files"]:
            if f.get("link_to") is not None:
                target = paths[world["files"][f["link_to"]]["stem"]]
                p = os.path.join(d, f["stem"] + os.path.splitext(target)[1])
                os.symlink(target, p)
                paths[f["stem"]] = p
    pre = world["pre"]
    ps = H.HvsrPreProcessingSettings(orient_to_degrees_from_north=pre["orient"],
                                     filter_corner_frequencies_in_hz=list(pre["filter"]),
                                     window_length_in_seconds=pre["window_length_in_seconds"], detrend=pre["detrend"],
                                     ignore_dissimilar_time_step_warning=True)
    if pre.get("psd"):
        ps = H.PsdPreProcessingSettings(orient_to_degrees_from_north=pre["orient"],
                                        filter_corner_frequencies_in_hz=list(pre["filter"]),
                                        window_length_in_seconds=pre["window_length_in_seconds"], detrend=pre["detrend"],
                                        ignore_dissimilar_time_step_warning=True,
                                        window_type_and_width=["tukey", pre["psd"]["width"]],
                                        fft_settings=None if pre["psd"]["fft_n"] is None else {"n": pre["psd"]["fft_n"]},
                                        differentiate=pre["psd"]["differentiate"])
    from .batch import make_settings
    qs = make_settings(H, world["proc"])
    pp, qp = os.path.join(d, "pre.json"), os.path.join(d, "proc.json")
    ps.save(pp)
    qs.save(qp)
    return paths, pp, qp


def reference_outputs(d, paths, pp, qp, argv):
    """In a pristine forked child: the library pipeline for every file alone with
    freshly loaded settings.  Returns {stem: bytes or ('raised', text)}."""
    H = hv()
    ref_dir = os.path.join(d, "ref")
    os.makedirs(ref_dir)
    for stem_, p_ in sorted(paths.items()):
        _reference_one(H, ref_dir, {stem_: p_}, pp, qp, argv)       # one pristine child per file
    out = {}
    for stem in paths:
        p = os.path.join(ref_dir, stem + ".csv")
        if os.path.exists(p + ".err"):
            out[stem] = ("raised", open(p + ".err").read())
        else:
            out[stem] = open(p, "rb").read()
    return out


def _reference_one(H, ref_dir, paths, pp, qp, argv):
    pid = os.fork()
    if pid == 0:
        code = 0
        try:
            devnull = os.open(os.devnull, os.O_WRONLY)
            os.dup2(devnull, 1)
            os.dup2(devnull, 2)
            from hvsrpy.object_io import read_settings_object_from_file
            with warnings.catch_warnings():
                warnings.simplefilter("ignore")
                for stem, p in sorted(paths.items()):
                    out = os.path.join(ref_dir, stem + ".csv")
                    try:
                        pre = read_settings_object_from_file(pp)
                        proc = read_settings_object_from_file(qp)
                        recs = H.read([[p]])
                        recs = H.preprocess(recs, pre)
                        res = H.process(recs, proc)
                        H.write_hvsr_object_to_file(res, out, distribution_mc=argv["dmc"], distribution_fn=argv["dfn"])
                    except BaseException as e:                # noqa
                        with open(out + ".err", "w") as f:
                            f.write(f"{type(e).__name__}: {e}")
        except BaseException:                                  # noqa
            code = 1
        finally:
            os._exit(code)
    _, status = os.waitpid(pid, 0)
    if status != 0:
        raise HarnessError("reference child failed")


def _task_status(pool, stems, s):
    """'ok' / 'raised' / 'not_run' for the task of file s (None when the pool's chunk structure does not map onto files)."""
    out = getattr(pool, "last_outcome", None)
    if out is None or sum(pool.chunks) != len(stems):
        return None
    pos, acc = stems.index(s), 0
    for ci, n in enumerate(pool.chunks):
        if pos < acc + n:
            seq = out[ci] if not isinstance(out, dict) else out.get(ci, [])
            if pos - acc >= len(seq):
                return None
            ok, msg = seq[pos - acc]
            return "ok" if ok else ("not_run" if str(msg).startswith("not run") else "raised")
        acc += n
    return None


def split_file(data):
    from .hvsrobj_io import parse_file
    return parse_file(data)


def same_output(a, b):
    """Header JSON content-equal, column labels equal, numeric block equal to 1e-12."""
    try:
        ma, ca, xa, _ = split_file(a)
        mb, cb, xb, _ = split_file(b)
    except Exception as e:                                    # noqa
        return f"unparseable output: {type(e).__name__}: {e}"
    if ca != cb:
        return "column labels differ"
    if xa.shape != xb.shape:
        return f"numeric block shape {xa.shape} != {xb.shape}"
    if canon(ma) != canon(mb):
        for k in sorted(set(ma) | set(mb)):
            if canon(ma.get(k)) != canon(mb.get(k)):
                return f"header entry '{k}': {str(ma.get(k))[:60]} != {str(mb.get(k))[:60]}"
    if not close(xa, xb, 1e-12, 0.0):
        rel = np.nanmax(np.abs(xa - xb) / np.maximum(np.abs(xb), 1e-300))
        j = int(np.nanargmax(np.max(np.abs(xa - xb) / np.maximum(np.abs(xb), 1e-300), axis=0)))
        return f"numeric block differs (max rel. diff {rel:.3g}, worst column '{ca[j]}')"
    return None


def stable_hash(data):
    """Hash of an output file that does not depend on the scratch directory's name."""
    from ..core import sha_array
    try:
        m, c, x, _ = split_file(data)
    except Exception:                                         # noqa
        return "unparseable:" + hashlib.sha256(data).hexdigest()[:12]
    m = {k: v for k, v in m.items() if k != "file name(s)"}
    return hashlib.sha256((canon(m) + canon(c) + sha_array(x)).encode()).hexdigest()[:16]


def fft_class(f, wl):
    n = int(wl * f["rate"]) + 1
    k = 32768
    while k <= n:
        k *= 2
    return k


# ===================================================================== execute
def execute(triple, prop):
    H = hv()
    import hvsrpy.cli as CLI
    ctx = Ctx(prop)
    violation = None
    world = triple["world"]
    op = triple["ops"][0] if triple["ops"] else None
    d = tempfile.mkdtemp(prefix="hvsrpy-verif-cli-")
    cwd = os.getcwd()
    saved = (CLI.Pool, CLI.time, CLI.os)
    pool_box = {}
    try:
        if op is None:
            return _result(ctx, None)
        paths, pp, qp = write_inputs(d, world)
        argv = op["argv"]
        ref = reference_outputs(d, paths, pp, qp, argv)
        ctx.event(op="reference", outs={k: (v[0] if isinstance(v, tuple) else stable_hash(v))
                                        for k, v in sorted(ref.items())})
        out_dir = os.path.join(d, "out")
        os.makedirs(out_dir)
        os.chdir(out_dir)
        stems = [world["files"][i]["stem"] for i in argv["order"] if i < len(world["files"])]
        args = [paths[s] for s in stems] + ["--preprocessing_settings_file", pp, "--processing_settings_file", qp,
                                            "--distribution_fn", argv["dfn"], "--distribution_mc", argv["dmc"]]
        if argv["no_figure"]:
            args.append("--no_figure")
        if argv.get("no_file"):
            args.append("--no_file")
        if argv["nproc"] is not None:
            args += ["--nproc", str(argv["nproc"])]
        clock = SimClock()
        sch = op["sched"]
        recorded = sch.get("decisions")
        scheduler = Scheduler(rng=rng_for(sch["seed"]), recorded=recorded, fifo=sch["mode"] == "fifo",
                              stall_rate=sch.get("stall_rate", 0.1))
        dur_rng = rng_for(sch["seed"] ^ 0x5bd1e995)
        done_hash = {}

        def on_step(step, decision):
            # once complete, never rewritten; nothing unexpected appears
            for name in sorted(os.listdir(out_dir)):
                if name.endswith(".csv"):
                    h = hashlib.sha256(open(os.path.join(out_dir, name), "rb").read()).hexdigest()   # not logged
                    if name in done_hash:
                        ctx.check(done_hash[name] == h, "output_rewritten",
                                  f"{name} changed after it had been completed (scheduler step {step})")
                    elif decision[0] == "run":
                        done_hash[name] = h
            ctx.event(step=step, d=list(decision), t=round(clock.now, 3))

        def pool_factory(processes=None, *a, **k):
            p = SimPool(processes, scheduler, clock, ctx=ctx, on_step=on_step,
                        task_seconds=lambda: dur_rng.choice([0.5, 1.0, 2.5, 7.0]))
            pool_box["pool"] = p
            return p

        CLI.Pool = pool_factory
        CLI.time = clock
        CLI.os = SimOs(argv["cpus"])
        cli_exc = None
        try:
            with warnings.catch_warnings():
                warnings.simplefilter("ignore")
                CLI.cli.main(args=args, standalone_mode=False)
        except Violation:
            raise
        except HarnessError:
            raise
        except BaseException as e:                            # noqa
            cli_exc = e
        pool = pool_box.get("pool")
        ctx.state_changes += 1
        ctx.ops_done += 1
        ctx.sim_seconds = clock.now
        ntasks = len(stems)
        nproc = argv["cpus"] - 1 if argv["nproc"] is None else argv["nproc"]
        key = {"cls": world["proc"]["cls"], "nproc": nproc, "ntasks": ntasks}
        expect_fail = [s for s in stems if isinstance(ref[s], tuple)]
        if pool is None and argv["no_figure"] and argv.get("no_file"):
            # nothing to do: the command returns before starting any worker
            ctx.check(not os.listdir(out_dir) and cli_exc is None, "unexpected_output",
                      f"--no_figure --no_file: directory {os.listdir(out_dir)}, exception {cli_exc!r}", key=key)
            ctx.signature(ntasks, nproc, "nothing-to-do")
            return _result(ctx, None)
        if pool is None:
            ctx.check(False, "cli_did_not_run", f"cli raised before creating the pool: {cli_exc!r}", key=key)
        # ---- per-file oracle
        listing = sorted(os.listdir(out_dir))
        if argv.get("no_file"):
            csvs = [n for n in listing if n.endswith(".csv")]
            ctx.check(not csvs, "unexpected_output", f"--no_file given but {csvs} were written", key=key)
            ctx.probe("no_file_judged")
        for s in ([] if argv.get("no_file") else stems):
            r = ref[s]
            p = os.path.join(out_dir, s + ".csv")
            if isinstance(r, tuple):
                ctx.probe("pipeline_raises_for_file")
                continue
            if not argv["no_figure"] and pool is not None and pool.errors and not os.path.exists(p):
                # the figure step raised for some file of the batch.  Files that come AFTER the failing one in its chunk are
                # never started (behaviour on task failure is outside C19); the file whose own figure could not be drawn still
                # has a result - read, preprocess, process and write succeed for it alone - and the property asks for it
                status = _task_status(pool, stems, s)
                if status != "raised":
                    ctx.probe("output_missing_after_a_failing_figure")
                    continue
                ctx.probe("figure_step_raised_for_this_file")
                ctx.check(False, "output_missing",
                          lambda: f"{s}.csv was not written although the pipeline succeeds for that file: its task raised in the "
                                  f"figure step, before the result was written (worker errors: {pool.errors})",
                          key={**key, "figure_raised": True})
            if not argv["no_figure"] and pool is not None and pool.errors and os.path.exists(p) and \
                    _task_status(pool, stems, s) == "raised":
                ctx.probe("result_kept_although_its_figure_failed")
            if expect_fail and pool is not None and pool.errors and not os.path.exists(p):
                # another file of the batch makes the pipeline raise: the real pool abandons the rest of that file's
                # chunk (and a CLI that batches files itself the rest of its batch); what happens to the other files
                # when one fails is outside C19
                ctx.probe("output_missing_after_a_failing_file")
                continue
            ctx.check(os.path.exists(p), "output_missing",
                      lambda: f"{s}.csv was not written (cli exception: {cli_exc!r}; worker errors: {pool.errors if pool else None})",
                      key=key)
            got = open(p, "rb").read()
            diff = same_output(got, r)
            chunk_of = None
            if pool:
                pos = stems.index(s)
                acc = 0
                for ci, n in enumerate(pool.chunks):
                    if pos < acc + n:
                        chunk_of = ci
                        break
                    acc += n
            first_in_chunk = None
            if pool and chunk_of is not None:
                first_in_chunk = stems.index(s) == sum(pool.chunks[:chunk_of])
            ctx.check(diff is None, "output_differs_from_alone",
                      lambda: f"{s}.csv differs from the result of the library pipeline for that file alone with freshly "
                              f"loaded settings: {diff} (batch order {stems}, nproc={nproc}, chunks={pool.chunks if pool else None}, "
                              f"position in chunk: {'first' if first_in_chunk else 'later'})",
                      key={**key, "first_in_chunk": first_in_chunk})
        extra = [n for n in listing if not (n.endswith(".csv") and n[:-4] in stems) and
                 not (not argv["no_figure"] and n.endswith(".png") and n[:-4] in stems)]
        ctx.check(not extra, "unexpected_output", f"unexpected files in the working directory: {extra}", key=key)
        if not expect_fail and not (pool is not None and pool.errors and not argv["no_figure"]):
            ctx.check(cli_exc is None, "cli_raised", lambda: f"cli raised {cli_exc!r}", key=key)
        # ---- calibration (thorough tier only): the real multiprocessing.Pool must give the same files
        if triple.get("config", {}).get("calibrate") and os.environ.get("VERIF_TIER") == "thorough" and \
                argv["no_figure"] and not expect_fail and cli_exc is None:
            CLI.Pool, CLI.time, CLI.os = saved[0], saved[1], SimOs(argv["cpus"])
            real_dir = os.path.join(d, "real")
            os.makedirs(real_dir)
            os.chdir(real_dir)
            import contextlib
            with warnings.catch_warnings(), contextlib.redirect_stdout(io.StringIO()):
                warnings.simplefilter("ignore")
                CLI.cli.main(args=args, standalone_mode=False)
            os.chdir(out_dir)
            for s_ in stems:
                a_ = open(os.path.join(real_dir, s_ + ".csv"), "rb").read()
                b_ = open(os.path.join(out_dir, s_ + ".csv"), "rb").read()
                dd = same_output(a_, b_)
                if dd is not None:
                    raise HarnessError(f"calibration: real Pool and SimPool disagree on {s_}.csv: {dd}")
            ctx.probe("calibrated_against_real_pool")
        # ---- probes and signature
        if pool:
            classes = [sorted(fft_class(next(f for f in world["files"] if f["stem"] == s), world["pre"]["window_length_in_seconds"])
                              for s in stems[sum(pool.chunks[:ci]):sum(pool.chunks[:ci + 1])]) for ci in range(len(pool.chunks))]
            if any(len(set(c)) > 1 for c in classes):
                ctx.probe("chunk_with_different_fft_lengths")
            if any(c and c[0] != max(c) and True for c in classes):
                pass
            if any(w_ > 1 for w_ in np.bincount([a for a in pool.assignment if a is not None], minlength=1)):
                ctx.probe("worker_executed_two_chunks")
            if any(n > 1 for n in pool.chunks):
                ctx.probe("chunk_with_two_tasks")
            pattern = []
            seen = {}
            for a in pool.assignment:
                seen.setdefault(a, len(seen))
                pattern.append(seen[a])
            ctx.signature(ntasks, nproc, tuple(pool.chunks), tuple(tuple(c) for c in classes), tuple(pattern),
                          min(ctx.faults.get("stalled_worker", 0), 2))
            triple["ops"][0]["sched"]["decisions_seen"] = len(scheduler.decisions)
            ctx.event(op="cli", decisions=scheduler.decisions, assignment=pool.assignment, chunks=pool.chunks,
                      listing=listing, exc=type(cli_exc).__name__ if cli_exc else None)
    except Violation as v:
        violation = v.as_dict()
        ctx.event(violation=violation["oracle"])
    finally:
        CLI.Pool, CLI.time, CLI.os = saved
        p = pool_box.get("pool")
        if p is not None:
            p.terminate()
        os.chdir(cwd)
        try:
            import matplotlib.pyplot as plt
            plt.close("all")
        except Exception:                                     # noqa
            pass
        shutil.rmtree(d, ignore_errors=True)
    return _result(ctx, violation)


def _result(ctx, violation):
    nontrivial = sum(ctx.judged.values()) > 0 and ctx.state_changes > 0
    return {"violation": violation, "digest": ctx.digest(), "probes": dict(ctx.probes),
            "faults": dict(ctx.faults), "ops": ctx.ops_done, "judged": dict(ctx.judged),
            "sigs": list(ctx.sig) if nontrivial else [], "nontrivial": bool(nontrivial),
            "known": ctx.known, "sim_seconds": ctx.sim_seconds}


def shrinks(t, prop):
    op = t["ops"][0] if t["ops"] else None
    if op is None:
        return
    files = t["world"]["files"]
    # fewer files
    if len(op["argv"]["order"]) > 1:
        for pos in range(len(op["argv"]["order"])):
            c = copy.deepcopy(t)
            del c["ops"][0]["argv"]["order"][pos]
            yield c
    # simpler schedule
    if op["sched"]["mode"] != "fifo":
        c = copy.deepcopy(t)
        c["ops"][0]["sched"]["mode"] = "fifo"
        yield c
    if op["sched"].get("stall_rate"):
        c = copy.deepcopy(t)
        c["ops"][0]["sched"]["stall_rate"] = 0.0
        yield c
    if op["argv"]["nproc"] not in (1,):
        c = copy.deepcopy(t)
        c["ops"][0]["argv"]["nproc"] = 1
        yield c
    if not op["argv"]["no_figure"]:
        c = copy.deepcopy(t)
        c["ops"][0]["argv"]["no_figure"] = True
        yield c
    # shorter files (keep at least two windows)
    wl = t["world"]["pre"]["window_length_in_seconds"]
    for i, f in enumerate(files):
        n2 = int(f["rate"] * wl * 2) + 1
        if f["n"] > n2:
            c = copy.deepcopy(t)
            c["world"]["files"][i]["n"] = n2
            yield c
    if len(t["world"]["proc"]["fcs"]) > 4:
        c = copy.deepcopy(t)
        c["world"]["proc"]["fcs"] = c["world"]["proc"]["fcs"][:4]
        yield c
    if t["world"]["proc"]["cls"] != "traditional":
        c = copy.deepcopy(t)
        c["world"]["proc"].update(cls="traditional", method="geometric_mean")
        yield c


EVIDENCE = {"C19": {
    "rule": "one evaluation = one simulated CLI batch (2-6 miniSEED files, drawn argv order, --nproc, CPU count, schedule); "
            "non-trivial = at least one per-file comparison was made; distinct = distinct (ntasks, nproc, chunk partition, "
            "FFT-length classes per chunk, worker-to-chunk assignment pattern up to renaming, #stalls class)",
    "sim_time_note": "simulated seconds = SimClock at the end of each batch, summed over runs (task durations and stalls are drawn, "
                     "real CPU time is not measured)",
    "components": {"real": ["hvsrpy.cli.cli with click argument parsing, _process_hvsr and the whole library pipeline",
                            "forked worker processes (os.fork), pickle of each chunk, multiprocessing.pool.Pool._get_tasks chunking",
                            "obspy miniSEED reader, settings files on the real file system (scratch directory)"],
                   "stub": ["task queue and worker management of multiprocessing.Pool (SimPool drives workers in lock-step)",
                            "time module (SimClock) and os.cpu_count (SimOs) inside hvsrpy.cli"]},
    "assumptions": ["fork start method (this platform's default)", "distinct file stems within a batch (the CLI names outputs by stem)",
                    "a worker killed mid-chunk and failing input files are not simulated (outside C19)",
                    "the reference for a file is produced in a pristine forked child with freshly loaded settings"],
}}
REQUIRED_PROBES = {"C19": ["chunk_with_two_tasks", "worker_executed_two_chunks", "result_kept_although_its_figure_failed"]}
