"""C13 part of the HVSR-object machine: time-domain rejection (STA/LTA, maximum value) as an operation on result
objects that already have a history (range updates, frequency-domain / manual rejections, mask edits, earlier
time-domain rejections).  The simulator owns the history and the state of the attached object; the per-window
verdicts are judged against models/stalta.py only where the property makes a statement ('clearly inside / outside')."""
import copy
import warnings

import numpy as np

from ..core import np_rng, HarnessError
from ..models import stalta as SL
from ..snapshot import semantic_snap, diff as snapdiff

COMPONENTS = ("ns", "ew", "vt")
ENVELOPES = ("stationary", "stationary", "spike", "burst_start", "quiet_start", "ramp", "dropout", "loud")


# ------------------------------------------------------------------ generation
def draw_records_world(rng, n_windows):
    dt = rng.choice([0.01, 0.005, 0.02, 1 / 75, 0.008, 1 / 128])
    ns = rng.choice([300, 400, 500, 640, 1001, 1500])
    envs = []
    for _ in range(n_windows):
        envs.append({"env": rng.choice(ENVELOPES), "comp": rng.choice(["all", "ns", "ew", "vt"]),
                     "scale": rng.choice([1.0, 1.0, 1.0, 0.25, 8.0, 1e-6, 1e5, 1e-9, 1e-12]),      # counts ... m/s
                     "pos": rng.random(), "gain": rng.choice([3.0, 6.0, 15.0, 40.0])})
    si = rng.random() < 0.15
    if si:
        # a record in SI units (m/s: 1e-9 ... 1e-7) cut into windows that all carry the record's meta
        unit = rng.choice([1e-9, 1e-10, 1e-13])
        for e in envs:
            e["scale"] = unit * rng.choice([1.0, 2.0, 5.0])
    if rng.random() < 0.25:
        # windows of one list need not share the time step or the length (sensors of different kinds, a shorter last window)
        for e in envs:
            if rng.random() < 0.5:
                e["dt"] = rng.choice([0.01, 0.02, 0.005, 0.004])
            if rng.random() < 0.3:
                e["ns"] = rng.choice([ns - 1, ns // 2 + 50, ns + 200])
    return {"k": rng.randrange(1 << 30), "ns": ns, "dt": dt, "envs": envs, "spike_p": 0.0, "same_meta": si or rng.random() < 0.3,
            "deg": rng.choice([0.0, 0.0, 30.0]), "int_samples": rng.random() < 0.15}


def build_records(H, r):
    g = np_rng(r["k"])
    recs = []
    for j, e in enumerate(r["envs"]):
        n = int(e.get("ns", r["ns"]))
        dt_j = float(e.get("dt", r["dt"]))
        comps = {}
        for c in COMPONENTS:
            x = g.normal(0, 1, n)
            if e["comp"] in ("all", c):
                i0 = int(e["pos"] * (n - 40))
                if e["env"] == "spike":
                    x[i0:i0 + 8] += g.normal(0, e["gain"], 8)
                elif e["env"] == "burst_start":
                    x[:n // 5] *= e["gain"]
                elif e["env"] == "quiet_start":
                    x[:n // 4] /= e["gain"]
                elif e["env"] == "ramp":
                    x *= np.linspace(1.0, e["gain"], n)
                elif e["env"] == "dropout":
                    x[i0:i0 + n // 6] /= (10 * e["gain"])
                elif e["env"] == "loud":
                    x *= e["gain"]
            x = x * e["scale"]
            if r.get("int_samples"):
                x = np.round(x * 1000.0)          # counts, as digitisers deliver them
            comps[c] = x
        recs.append(H.SeismicRecording3C(H.TimeSeries(comps["ns"], dt_j), H.TimeSeries(comps["ew"], dt_j),
                                         H.TimeSeries(comps["vt"], dt_j), degrees_from_north=float(r["deg"]),
                                         meta={"file name(s)": "rec.mseed"} if r.get("same_meta") else {"window": j}))
    return recs


def draw_td_op(rng, name, world):
    r = world["records"]
    length = min((int(e.get("ns", r["ns"])) - 1) * float(e.get("dt", r["dt"])) for e in r["envs"])
    comps = rng.choice([["ns", "ew", "vt"], ["ns", "ew", "vt"], ["vt"], ["ns"], ["ew"], ["ns", "ew"], ["vt", "ns"],
                        ["ew", "vt"], ["vt", "ew", "ns"]])
    op = {"op": name, "components": comps, "ctype": rng.choice(["tuple", "tuple", "list", "list", "iter"]),   # "iterable" per docstring
          "container": rng.choice(["list", "list", "tuple", "generator" if name == "sta_lta" else "list"]),
          "dup": rng.random() < 0.12, "twins": rng.sample(["scale2", "scale", "widen", "conj", "alone", "perm", "repeat"],
                                                         rng.randint(1, 3))}
    if name == "sta_lta":
        sta = rng.choice([0.1, 0.2, 0.25, 0.5, 1.0])
        lta = rng.choice([0.5, 1.0, 2.0, 3.0, "full"])
        if lta == "full" or lta > length:
            lta = float(np.floor(length * 100) / 100)
        sta = min(sta, lta)
        op.update({"sta": sta, "lta": lta, "min": rng.choice([0.02, 0.1, 0.2, 0.5, 0.8]),
                   "max": rng.choice([1.2, 1.5, 2.5, 4.0, 10.0])})
    else:
        normalized = rng.random() < 0.6
        op.update({"normalized": normalized,
                   # the flag as callers hold it: a Python bool, a numpy bool (the result of a comparison, an entry of a
                   # configuration array) or 0 / 1
                   "norm_as": rng.choice(["bool", "bool", "np", "int"]),
                   "thr": rng.choice([0.3, 0.6, 0.9, 0.99, 1.0]) if normalized else rng.choice([2.5, 3.5, 5.0, 30.0, 1e3])})
    return op


# ------------------------------------------------------------------ execution
def _container(recs, kind):
    if kind == "tuple":
        return tuple(recs)
    if kind == "generator":
        return (r for r in recs)
    return list(recs)


def _call(H, name, recs, op, hvsr, container=None, **over):
    a = {**op, **over}
    comps = tuple(a["components"]) if a.get("ctype", "tuple") == "tuple" else list(a["components"])
    if a.get("ctype") == "iter":
        comps = iter(comps)                      # a one-shot iterable
    box = _container(recs, container or a.get("container", "list"))
    with warnings.catch_warnings():
        warnings.simplefilter("ignore")
        with np.errstate(all="ignore"):
            if name == "sta_lta":
                return H.sta_lta_window_rejection(box, sta_seconds=a["sta"], lta_seconds=a["lta"],
                                                  min_sta_lta_ratio=a["min"], max_sta_lta_ratio=a["max"],
                                                  components=comps, hvsr=hvsr)
            return H.maximum_value_window_rejection(box, maximum_value_threshold=a["thr"], normalized={"np": np.bool_, "int": int}.get(a.get("norm_as"), bool)(a["normalized"]),
                                                    components=comps, hvsr=hvsr)


def _selection(recs, ret):
    """Boolean selection such that ret == [r for r, s in zip(recs, sel) if s] by IDENTITY and in order, or None."""
    sel, k = [], 0
    for r in recs:
        if k < len(ret) and ret[k] is r:
            sel.append(True)
            k += 1
        else:
            sel.append(False)
    return sel if k == len(ret) else None


def _plain(rec):
    return {c: np.asarray(getattr(rec, c).amplitude, dtype=float) for c in COMPONENTS}


def op_time_domain(ctx, st, op, info, get_records, members):
    """Run one time-domain rejection (C13 mode): without an object, then with each result object of the run attached."""
    from .hvsrobj import hv
    H = hv()
    name = op["op"]
    base = get_records(st)
    recs = list(base)
    if op.get("dup") and len(recs) >= 2:
        recs[-1] = recs[0]                            # the same window object twice in the list
        ctx.probe("c13_duplicate_window_object")
    n = len(recs)
    key = {"op": name, "container": op.get("container"), "dup": bool(op.get("dup"))}
    before = [semantic_snap(r) for r in recs]

    def run(hvsr, rr=recs, **over):
        try:
            return _call(H, name, rr, op, hvsr, **over), None
        except Exception as e:                         # noqa
            return None, e

    ret0, exc = run(None)
    if exc is not None:
        info["exc"] = type(exc).__name__
        ctx.check(False, "time_domain_raised", f"{name} raised {type(exc).__name__}: {exc} on an in-domain call "
                  f"(no object attached, {n} windows, container {op.get('container')})", key=key)
        return
    ctx.check(isinstance(ret0, list), "returns_list", f"{name} returned a {type(ret0).__name__}", key=key)
    sel0 = _selection(recs, ret0)
    ctx.check(sel0 is not None, "returned_windows_not_the_given_objects_in_order",
              lambda: f"{name}: the {len(ret0)} returned windows are not a sub-sequence (by identity, in order) of the {n} given",
              key=key)
    sel0 = np.array(sel0, dtype=bool)
    ctx.probe("c13_kept_%s" % ("all" if sel0.all() else "none" if not sel0.any() else "some"))

    # ---- reference verdicts where the property makes a statement
    plain = [_plain(r) for r in recs]
    if name == "sta_lta":
        want = [SL.sta_lta_verdict(p, float(r.vt.dt_in_seconds), op["sta"], op["lta"], op["min"], op["max"], op["components"])
                for p, r in zip(plain, recs)]
        if len({float(r.vt.dt_in_seconds) for r in recs}) > 1:
            ctx.probe("c13_mixed_time_steps")
    else:
        want = SL.max_value_verdicts(plain, op["thr"], op["normalized"], op["components"])
    judged = [j for j, w in enumerate(want) if w is not None]
    ctx.probe("c13_verdict_not_clear", n - len(judged))
    bad = [j for j in judged if bool(sel0[j]) != want[j]]
    if judged:
        ctx.check(not bad, "verdict_differs_from_criterion",
                  lambda: f"{name}: window(s) {bad} {'kept' if sel0[bad[0]] else 'rejected'} although the criterion says "
                          f"{'keep' if want[bad[0]] else 'reject'} ({ {k: op[k] for k in op if k not in ('twins',)} })", key=key)

    # ---- attached objects: whatever state their history left them in, they end with masks == selection
    for which, obj in members(st):
        pre_cls = "all" if all(np.all(w) and np.all(p) for w, p in _masks(H, obj)) else "history"
        ret, exc = run(obj)
        if exc is not None:
            info["exc"] = type(exc).__name__
            ctx.check(False, "time_domain_raised", f"{name} with a {type(obj).__name__} attached raised "
                      f"{type(exc).__name__}: {exc}", key={**key, "attached": which})
            continue
        sel = _selection(recs, ret)
        ctx.check(sel is not None and np.array_equal(sel, sel0), "selection_depends_on_attached_object",
                  lambda: f"{name}: selection with a {which} result attached {sel} != without {sel0.tolist()}",
                  key={**key, "attached": which})
        for a, (w, p) in enumerate(_masks(H, obj)):
            ok = (w.dtype == bool and p.dtype == bool and w.shape == (n,) and p.shape == (n,)
                  and np.array_equal(w, sel0) and np.array_equal(p, sel0))
            ctx.check(ok, "masks_differ_from_selection",
                      lambda: f"{name} on a {which} result (state before: {pre_cls}), azimuth {a}: window mask "
                              f"{w.astype(int).tolist()} / peak mask {p.astype(int).tolist()} != selection "
                              f"{sel0.astype(int).tolist()}", key={**key, "attached": which, "pre": pre_cls})
        ctx.probe(f"c13_attached_{which}_{pre_cls}")

    # ---- metamorphic twins (no model involved)
    clear = len(judged) == n                       # ties make twins differ legitimately
    for tw in op.get("twins", []):
        if tw == "repeat":
            r2, e2 = run(None)
            ctx.check(e2 is None and _selection(recs, r2) is not None and np.array_equal(_selection(recs, r2), sel0),
                      "repeat_differs", f"{name}: the same call again gives another selection", key={**key, "twin": tw})
        elif tw in ("scale2", "scale") and (name == "sta_lta" or op.get("normalized")):
            c = 2.0 ** 7 if tw == "scale2" else 3.7
            if tw == "scale" and not clear:
                continue
            scaled = [H.SeismicRecording3C(*[H.TimeSeries(c * np.asarray(getattr(r, k).amplitude), r.vt.dt_in_seconds)
                                             for k in COMPONENTS]) for r in recs]
            r2, e2 = run(None, rr=scaled)
            s2 = _selection(scaled, r2) if e2 is None else None
            ctx.check(s2 is not None and np.array_equal(s2, sel0), "rescaling_changes_decision",
                      lambda: f"{name}: all amplitudes x {c} -> selection {s2} != {sel0.tolist()}", key={**key, "twin": tw})
        elif tw == "widen" and name == "sta_lta":
            r2, e2 = run(None, min=op["min"] * 0.5, max=op["max"] * 2.0)
            s2 = _selection(recs, r2) if e2 is None else None
            ctx.check(s2 is not None and bool(np.all(np.array(s2)[sel0])), "widening_rejects_a_kept_window",
                      lambda: f"sta_lta: limits widened to ({op['min'] * 0.5}, {op['max'] * 2.0}) -> {s2}, before {sel0.tolist()}",
                      key={**key, "twin": tw})
        elif tw == "conj" and len(op["components"]) > 1 and (name == "sta_lta" or not op.get("normalized")):
            acc = np.ones(n, dtype=bool)
            okc = True
            for c in op["components"]:
                r2, e2 = run(None, components=[c])
                s2 = _selection(recs, r2) if e2 is None else None
                if s2 is None:
                    okc = False
                    break
                acc &= np.array(s2)
            ctx.check(okc and np.array_equal(acc, sel0), "components_not_a_conjunction",
                      lambda: f"{name}: components {op['components']} -> {sel0.tolist()}, conjunction of the single-component "
                              f"calls -> {acc.tolist()}", key={**key, "twin": tw})
        elif tw in ("alone", "perm") and (name == "sta_lta" or not op.get("normalized")) and not op.get("dup"):
            if tw == "alone":
                j = int(np_rng(st.world["records"]["k"] + len(op["components"])).integers(0, n))
                r2, e2 = run(None, rr=[recs[j]], container="list")
                got = None if e2 is not None else (len(r2) == 1 and r2[0] is recs[j])
                ctx.check(got is not None and bool(got) == bool(sel0[j]), "decision_depends_on_other_windows",
                          lambda: f"{name}: window {j} alone -> {'kept' if got else 'rejected'}, in the list -> "
                                  f"{'kept' if sel0[j] else 'rejected'}", key={**key, "twin": tw})
            else:
                perm = np_rng(st.world["records"]["k"] + 7).permutation(n)
                pr = [recs[i] for i in perm]
                r2, e2 = run(None, rr=pr, container="list")
                s2 = _selection(pr, r2) if e2 is None else None
                ctx.check(s2 is not None and np.array_equal(np.array(s2), sel0[perm]), "decision_depends_on_window_order",
                          lambda: f"{name}: permuted list -> {s2}, expected {sel0[perm].tolist()}", key={**key, "twin": tw})
        else:
            continue
        ctx.probe("c13_twin_" + tw)

    after = [semantic_snap(r) for r in recs]
    d = next((snapdiff(b, a, f"window[{j}]") for j, (b, a) in enumerate(zip(before, after)) if b != a), None)
    ctx.check(d is None, "windows_changed", lambda: f"{name} changed the windows it was given: {d}", key=key)
    info["log"] = {"sel": sel0.astype(int).tolist()}


def _masks(H, obj):
    hs = obj.hvsrs if isinstance(obj, H.HvsrAzimuthal) else [obj]
    return [(np.asarray(h.valid_window_boolean_mask), np.asarray(h.valid_peak_boolean_mask)) for h in hs]
