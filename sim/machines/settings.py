"""Settings machine (DESIGN 3.4): construct / mutate / save / load / dispatch
histories over all eight settings classes on a simulated disk.  Oracle of C15."""
import copy
import json
import warnings

import numpy as np

from ..core import Ctx, Violation, HarnessError, SimCrash, rng_for, np_rng, canon, sha_array
from ..simfs import SimFS, SimDisk, Patched

PROPS = ("C15",)
ISOLATE = True      # constructors have function-default state: every run starts in a forked child

CLASSES = ["HvsrPreProcessingSettings", "PsdPreProcessingSettings", "PsdProcessingSettings",
           "HvsrTraditionalProcessingSettings", "HvsrTraditionalSingleAzimuthProcessingSettings",
           "HvsrTraditionalRotDppProcessingSettings", "HvsrAzimuthalProcessingSettings",
           "HvsrDiffuseFieldProcessingSettings"]
PRE = CLASSES[:2]

_hv = None
_saved_defaults = None


def hv():
    global _hv, _saved_defaults
    if _hv is None:
        from ..env import import_hvsrpy
        _hv = import_hvsrpy()
        import hvsrpy.settings as S
        _saved_defaults = {}
        for name in dir(S):
            c = getattr(S, name)
            if isinstance(c, type) and issubclass(c, S.Settings) and "__init__" in vars(c):
                _saved_defaults[name] = (c, copy.deepcopy(c.__init__.__defaults__))
    return _hv


def reset_defaults():
    """Runs must be independent: put every constructor's default arguments back
    to what they were at import (a run may have mutated a shared default)."""
    hv()
    for name, (c, d) in _saved_defaults.items():
        c.__init__.__defaults__ = copy.deepcopy(d)


def warm(prop):
    from . import batch
    batch.warm(prop)
    hv()


# ===================================================================== value specs
def dec(v):
    """Decode a value spec into a fresh Python object."""
    if isinstance(v, dict) and "t" in v:
        if v["t"] == "array":
            return np.array(v["v"], dtype=float)
        if v["t"] == "tuple":
            return tuple(dec(x) for x in v["v"])
        if v["t"] == "list":
            return [dec(x) for x in v["v"]]
        if v["t"] == "dict":
            return {k: dec(x) for k, x in v["v"].items()}
        if v["t"] == "npfloat":
            return np.float64(v["v"])
        if v["t"] == "npint":
            return np.int64(v["v"])
        if v["t"] == "np32":
            return np.float32(v["v"])
        if v["t"] == "itf":
            from hvsrpy.instrument_response import InstrumentTransferFunction
            return InstrumentTransferFunction(poles=[complex(*p) for p in v["poles"]], zeros=[complex(*z) for z in v["zeros"]],
                                              instrument_sensitivity=v["sens"], normalization_factor=v["a0"])
    return copy.deepcopy(v)


def norm(x):
    """Content of a value: sequences element by element, numpy -> python."""
    if isinstance(x, np.ndarray):
        return [norm(e) for e in x.tolist()]
    if isinstance(x, np.generic):
        return x.item()
    if isinstance(x, (list, tuple)):
        return [norm(e) for e in x]
    if isinstance(x, dict):
        return {str(k): norm(v) for k, v in x.items()}
    if isinstance(x, complex):
        return ["complex", x.real, x.imag]
    if type(x).__name__ == "InstrumentTransferFunction":
        return {"InstrumentTransferFunction": norm(vars(x))}
    return x


def content(o):
    return {"class": type(o).__name__, "attrs": list(o.attrs),
            "values": {name: norm(getattr(o, name, "<missing>")) for name in o.attrs}}


def same_content(a, b):
    return canon(a) == canon(b)


def first_diff(a, b):
    va, vb = a["values"], b["values"]
    if a["class"] != b["class"]:
        return f"class {a['class']} != {b['class']}"
    if a["attrs"] != b["attrs"]:
        return f"attrs {a['attrs']} != {b['attrs']}"
    for k in va:
        if canon(va[k]) != canon(vb.get(k)):
            return f"{k}: {str(va[k])[:60]} != {str(vb.get(k))[:60]}"
    return None


# ===================================================================== generation
def seq(rng, vals):
    t = rng.choice(["list", "list", "tuple", "array"])
    if any(v is None or isinstance(v, str) for v in vals) and t == "array":
        t = "list"
    return {"t": t, "v": list(vals)}


def awkward(rng):
    return rng.choice([0.1, 0.3, 1 / 3, 2.5, 0.1 + 0.2, 1e-3, 40.0, 12.345678901234567])


def draw_fcs(rng):
    n = rng.randint(3, 8) if rng.random() < 0.85 else rng.randint(1, 2)
    vals = [float(x) for x in np.geomspace(rng.choice([0.5, 1.0, 2.0]), rng.choice([8.0, 15.0, 20.0]), n)]
    return seq(rng, vals)


def draw_fft(rng):
    """fft_settings dicts with different key sets (all are valid numpy.fft.rfft keywords)."""
    return {"t": "dict", "v": rng.choice([{"n": 4096}, {"n": 65536}, {"n": 32768, "norm": "ortho"},
                                         {"norm": "backward"}, {"n": 8192, "norm": "forward"}, {"n": None},
                                         {"n": {"t": "npint", "v": 65536}}, {"n": {"t": "npint", "v": 2048}, "axis": {"t": "npint", "v": -1}}])}


def draw_args(rng, cls):
    """Explicit constructor arguments (a random subset of the class' parameters)."""
    a = {}

    def maybe(p=0.6):
        return rng.random() < p
    if cls in PRE:
        if maybe():
            a["orient_to_degrees_from_north"] = rng.choice([0.0, 15.0, None, 270.5, {"t": "npfloat", "v": 30.0}, 90])
        if maybe():
            lo = rng.choice([None, 0.1, 0.5, awkward(rng)])
            hi = rng.choice([None, 20.0, 30.0])
            a["filter_corner_frequencies_in_hz"] = seq(rng, [lo, hi])
            if rng.random() < 0.15 and a["filter_corner_frequencies_in_hz"]["t"] in ("list", "tuple"):
                # corner frequencies picked out of arrays: numpy scalars inside a plain list
                a["filter_corner_frequencies_in_hz"]["v"] = [
                    v if v is None else {"t": rng.choice(["npfloat", "np32", "npint"]), "v": v if v != 0.1 + 0.2 else 0.3}
                    for v in a["filter_corner_frequencies_in_hz"]["v"]]
                for e in a["filter_corner_frequencies_in_hz"]["v"]:
                    if isinstance(e, dict) and e["t"] == "npint":
                        e["v"] = int(max(1, round(e["v"])))
                    if isinstance(e, dict) and e["t"] == "np32":
                        e["v"] = float(np.float32(e["v"]))
        if maybe():
            a["window_length_in_seconds"] = rng.choice([2.0, 2.5, 4.0, None])
        if maybe():
            a["detrend"] = rng.choice(["linear", "constant", "none"])
        if maybe(0.3):
            a["ignore_dissimilar_time_step_warning"] = True
        if cls == "PsdPreProcessingSettings":
            if maybe():
                a["window_type_and_width"] = seq(rng, ["tukey", rng.choice([0.05, 0.2, 0.5])])
            if maybe(0.3):
                a["fft_settings"] = {"t": "dict", "v": {"n": rng.choice([1024, 4096])}}
            if maybe(0.3):
                a["differentiate"] = True
            if maybe(0.08):
                # the documented way to describe the sensor: an InstrumentTransferFunction object
                a["instrument_transfer_function"] = {"t": "itf", "poles": [[-4.44, 4.44], [-4.44, -4.44]], "zeros": [[0.0, 0.0], [0.0, 0.0]],
                                                     "sens": 400.0, "a0": 1.0}
        return a
    if maybe():
        a["window_type_and_width"] = seq(rng, ["tukey", rng.choice([0.0, 0.05, 0.2, 1.0, awkward(rng) % 1])])
    if maybe(0.7):
        op, bw = rng.choice([("konno_and_ohmachi", 40), ("parzen", 0.5), ("log_rectangular", 0.05),
                             ("linear_triangular", 0.5), ("savitzky_and_golay", 9)])
        a["smoothing"] = {"t": "dict", "v": {"operator": op, "bandwidth": bw,
                                             "center_frequencies_in_hz": draw_fcs(rng)}}
    if maybe(0.4):
        a["fft_settings"] = draw_fft(rng)
    if maybe(0.4):
        a["handle_dissimilar_time_steps_by"] = rng.choice(["frequency_domain_resampling",
                                                           "keeping_smallest_time_step", "keeping_majority_time_step"])
    if cls == "HvsrTraditionalProcessingSettings" and maybe():
        a["method_to_combine_horizontals"] = rng.choice([
            "arithmetic_mean", "squared_average", "quadratic_mean", "root_mean_square",
            "effective_amplitude_spectrum", "geometric_mean", "total_horizontal_energy",
            "vector_summation", "maximum_horizontal_value"])
    if cls == "HvsrTraditionalSingleAzimuthProcessingSettings":
        if maybe():
            a["method_to_combine_horizontals"] = rng.choice(["single_azimuth", "directional_energy"])
        if maybe():
            a["azimuth_in_degrees"] = rng.choice([0.0, 33.3, 90.0, awkward(rng), {"t": "npfloat", "v": 12.5}, 45])
    if cls in ("HvsrTraditionalRotDppProcessingSettings", "HvsrAzimuthalProcessingSettings") and maybe(0.8):
        k = rng.randint(2, 4) if rng.random() < 0.8 else 1
        az = [float(x) for x in sorted(rng.sample(range(0, 180, 5), k))]
        if rng.random() < 0.4:
            az = [x + rng.choice([0.5, 2.5, 0.25]) for x in az]          # azimuths need not be whole degrees
        a["azimuths_in_degrees"] = seq(rng, az)
    if cls == "HvsrTraditionalRotDppProcessingSettings" and maybe():
        a["ppth_percentile_for_rotdpp_computation"] = rng.choice([0.0, 50.0, 84.0, {"t": "npfloat", "v": 16.0}, 50])
    return a


MUTABLE_PATHS = [
    ["window_type_and_width", 1], ["filter_corner_frequencies_in_hz", 0], ["filter_corner_frequencies_in_hz", 1],
    ["smoothing", "bandwidth"], ["smoothing", "center_frequencies_in_hz", 0],
    ["smoothing", "center_frequencies_in_hz", -1], ["azimuths_in_degrees", 0], ["fft_settings", "n"],
]
ASSIGNABLE = ["window_type_and_width", "filter_corner_frequencies_in_hz", "window_length_in_seconds",
              "detrend", "handle_dissimilar_time_steps_by", "azimuth_in_degrees", "azimuths_in_degrees",
              "ppth_percentile_for_rotdpp_computation", "orient_to_degrees_from_north", "fft_settings", "smoothing_none"]


def draw_value_for(rng, attr):
    if attr == "window_type_and_width":
        return seq(rng, ["tukey", rng.choice([0.15, 0.25, 0.6])])
    if attr == "filter_corner_frequencies_in_hz":
        return seq(rng, [rng.choice([None, 0.2, 0.4]), rng.choice([None, 25.0])])
    if attr == "window_length_in_seconds":
        return rng.choice([3.0, 2.0, None])
    if attr == "detrend":
        return rng.choice(["linear", "constant", "none"])
    if attr == "handle_dissimilar_time_steps_by":
        return rng.choice(["keeping_smallest_time_step", "keeping_majority_time_step"])
    if attr == "azimuth_in_degrees":
        return rng.choice([10.0, 77.7])
    if attr == "azimuths_in_degrees":
        return seq(rng, rng.choice([[0.0, 45.0, 100.0], [22.5, 67.5, 112.5], [7.25]]))
    if attr == "ppth_percentile_for_rotdpp_computation":
        return rng.choice([16.0, 50.0])
    if attr == "orient_to_degrees_from_north":
        return rng.choice([0.0, 45.0, None])
    if attr == "fft_settings":
        return rng.choice([None, draw_fft(rng), draw_fft(rng)])
    return None


def generate(seed, prop):
    rng = rng_for(seed)
    fault_rate = rng.choice([0.0, 0.0, 0.2, 0.4])
    w = {"construct": 4.0, "mutate": 3.0, "assign": 2.0, "save": 3.0, "load_new": 2.5, "load_into": 1.0,
         "dispatch_read": 2.5, "fresh_defaults": 1.0, "clone": 1.2}
    for k in list(w):
        if rng.random() < 0.12 and k not in ("construct", "save"):
            w[k] = 0.0
    names = list(w)
    focus = rng.sample(CLASSES, rng.randint(1, 4))          # swarm: a few classes per run
    ops = [{"op": "construct", "cls": rng.choice(focus), "args": None if rng.random() < 0.6 else None}]
    ops[0]["args"] = None if rng.random() < 0.5 else draw_args(rng, ops[0]["cls"])
    n_process = 0
    from ..core import deep
    for _ in range(rng.randint(3, 40 if deep() else 20)):
        name = rng.choices(names, [w[k] for k in names])[0]
        if name == "construct":
            cls = rng.choice(focus)
            ops.append({"op": name, "cls": cls, "args": None if rng.random() < 0.5 else draw_args(rng, cls)})
            if ops[-1]["args"] and rng.random() < 0.25:
                # the caller keeps its argument objects (one dict of FFT options, one list of corner frequencies ...) and
                # builds a second settings object of the same class from the very same objects
                ops.append({"op": "construct", "cls": cls, "args": ops[-1]["args"], "same_argument_objects": True})
        elif name == "mutate":
            ops.append({"op": name, "i": rng.randrange(8), "path": rng.choice(MUTABLE_PATHS),
                        "value": rng.choice([0.35, 0.77, 3.0, 7.5, 55.0, 16384])})
        elif name == "assign":
            attr = rng.choice(ASSIGNABLE)
            ops.append({"op": name, "i": rng.randrange(8), "attr": attr, "value": draw_value_for(rng, attr)})
        elif name == "clone":
            # a second object obtained by copying (a template kept for the next site; a settings object sent to a worker)
            ops.append({"op": name, "i": rng.randrange(8), "how": rng.choice(["deepcopy", "deepcopy", "pickle"])})
            if rng.random() < 0.6:                 # ... one of the two is then edited in place
                ops.append({"op": "mutate", "i": rng.choice([-1, ops[-1]["i"]]),
                            "path": rng.choice([["smoothing", "center_frequencies_in_hz", 0], ["azimuths_in_degrees", 0],
                                                ["smoothing", "center_frequencies_in_hz", -1], rng.choice(MUTABLE_PATHS)]),
                            "value": rng.choice([0.35, 0.77, 3.0, 7.5, 55.0])})
        elif name == "save":
            op = {"op": name, "i": rng.randrange(8), "path": "/simfs/s/" + rng.choice(["a", "b", "c"]) + ".json",
                  "via": rng.choice(["method", "function"])}
            if rng.random() < fault_rate:
                op["fault"] = {"kind": rng.choice(["enospc", "eio_write", "crash_in_write", "short_write"]),
                               "frac": rng.choice([0.0, 0.1, 0.5, 0.9, 0.99])}
            ops.append(op)
        elif name in ("load_new", "dispatch_read", "load_into"):
            op = {"op": name, "path": "/simfs/s/" + rng.choice(["a", "b", "c"]) + ".json", "i": rng.randrange(8)}
            if name != "load_into" and n_process < 2 and rng.random() < 0.35:
                op["process"] = True
                op["long_first"] = rng.random() < 0.5
                n_process += 1
            if rng.random() < fault_rate:
                op["fault"] = {"kind": "eio_read", "at": rng.choice([0, 0, 1])}
            ops.append(op)
        else:
            ops.append({"op": name})
    if rng.random() < 0.25:
        # biased schedule: two objects of one class whose dict-valued attributes have different key
        # sets, the second saved and loaded into the first (an existing, non-default object)
        cls = rng.choice([c for c in CLASSES if c != "HvsrPreProcessingSettings"])
        a1, a2 = draw_args(rng, cls), draw_args(rng, cls)
        a1["fft_settings"], a2["fft_settings"] = draw_fft(rng), rng.choice([None, draw_fft(rng)])
        pos = rng.randint(0, len(ops))
        ops[pos:pos] = [{"op": "construct", "cls": cls, "args": a2}, {"op": "save", "i": -1, "path": "/simfs/s/z.json", "via": "method"},
                        {"op": "construct", "cls": cls, "args": a1}, {"op": "load_into", "path": "/simfs/s/z.json", "i": -1}]
    if rng.random() < 0.15:
        # biased schedule: a save of a LONG object dies part-way (crash: only the disk survives), later a SHORTER object is
        # saved under the same name and loaded - whatever the dead save left behind (also under a temporary name) must
        # not show in the new file
        cls = rng.choice([c for c in CLASSES if c not in PRE])
        long_args = {"smoothing": {"t": "dict", "v": {"operator": "konno_and_ohmachi", "bandwidth": 40,
                                                      "center_frequencies_in_hz": {"t": "list", "v": [float(x) for x in np.geomspace(0.2, 30.0, rng.randint(300, 600))]}}}}
        short_args = {"smoothing": {"t": "dict", "v": {"operator": "konno_and_ohmachi", "bandwidth": 40,
                                                       "center_frequencies_in_hz": {"t": "list", "v": [1.0, 2.0, 5.0]}}}}
        path = "/simfs/s/" + rng.choice(["a", "b", "c"]) + ".json"
        pos = rng.randint(0, len(ops))
        ops[pos:pos] = [{"op": "construct", "cls": cls, "args": long_args},
                        {"op": "save", "i": -1, "path": path, "via": rng.choice(["method", "function"]),
                         "fault": {"kind": rng.choice(["crash_in_write", "crash_in_write", "enospc"]), "frac": rng.choice([0.5, 0.9, 0.99])}},
                        {"op": "construct", "cls": cls, "args": short_args},
                        {"op": "save", "i": -1, "path": path, "via": "method"},
                        {"op": rng.choice(["load_new", "dispatch_read"]), "path": path, "i": -1}]
    if rng.random() < 0.15:
        # biased schedule: a is saved, b (same class, values of the same printed length) is saved under the same name, a is
        # saved there again - unchanged - and the file is loaded: it must hold a
        cls = rng.choice(CLASSES)
        if cls in PRE:
            a1 = {"window_length_in_seconds": 60.0, "detrend": "linear"}
            a2 = {"window_length_in_seconds": 30.0, "detrend": "linear"}
        else:
            a1 = {"window_type_and_width": {"t": "list", "v": ["tukey", 0.1]}}
            a2 = {"window_type_and_width": {"t": "list", "v": ["tukey", 0.2]}}
        path = "/simfs/s/" + rng.choice(["a", "b", "c"]) + ".json"
        via = rng.choice(["method", "function"])
        pos = rng.randint(0, len(ops))
        ops[pos:pos] = [{"op": "construct", "cls": cls, "args": a1}, {"op": "construct", "cls": cls, "args": a2},
                        {"op": "save", "i": -2, "path": path, "via": via}, {"op": "save", "i": -1, "path": path, "via": via},
                        {"op": "save", "i": -2, "path": path, "via": via},
                        {"op": rng.choice(["load_new", "dispatch_read"]), "path": path, "i": -1}]
    return {"machine": "settings", "property": prop, "run_seed": int(seed),
            "config": {"weights": w, "fault_rate": fault_rate, "focus": focus},
            "world": {"records": {"k": rng.randrange(1 << 30), "n": 1001, "rate": 100}}, "ops": ops, "faults": []}


# ===================================================================== execution
class State:
    pass


def _records(st, long=False):
    H = hv()
    g = np_rng(st.world["records"]["k"])
    n, dt = st.world["records"]["n"], 1.0 / st.world["records"]["rate"]
    if long:
        n = 33000                                  # above the 2**15 floor of the automatic FFT length
    out = []
    for _ in range(2):
        out.append(H.SeismicRecording3C(*[H.TimeSeries(g.normal(0, 1, n), dt) for _ in range(3)]))
    return out


def run_with(st, settings, long=False):
    """Process (or preprocess) the fixed recordings with `settings` - the live object itself, as a user does; returns a
    comparable digest or ('raised', class name)."""
    H = hv()
    import contextlib
    import io
    recs = _records(st, long)
    s = settings
    try:
        with warnings.catch_warnings(), contextlib.redirect_stdout(io.StringIO()):
            warnings.simplefilter("ignore")
            with np.errstate(all="ignore"):
                if type(settings).__name__ in PRE:
                    out = H.preprocess(recs, s)
                    return ["windows"] + [[sha_array(getattr(w, c).amplitude) for c in ("ns", "ew", "vt")] for w in out]
                res = H.process(recs, s)
    except Exception as e:                                   # noqa
        return ["raised", type(e).__name__]
    if isinstance(res, dict):
        return ["psd"] + [[k, sha_array(np.asarray(v.amplitude)), sha_array(np.asarray(v.frequency))] for k, v in sorted(res.items())]
    if isinstance(res, H.HvsrAzimuthal):
        return ["az"] + [sha_array(np.asarray(h.amplitude)) for h in res.hvsrs] + [sha_array(np.asarray(res.frequency))]
    return [type(res).__name__, sha_array(np.asarray(res.amplitude)), sha_array(np.asarray(res.frequency))]


def frame(ctx, st, before, target, what, fault_kind="none"):
    """Every live object other than `target` is unchanged."""
    for j, (o, b) in enumerate(zip(st.objs, before)):
        if j == target:
            continue
        c = content(o)
        ctx.check(same_content(b, c), "other_object_changed",
                  lambda: f"{what} changed live object #{j} ({b['class']}): {first_diff(b, c)}",
                  key={"op": what.split("(")[0], "cls": b["class"]})
    ctx.probe("frame_condition_judged")


def pristine_defaults(ctx, st, what):
    H = hv()
    for name in CLASSES:
        c = content(getattr(H, name)())
        ctx.check(same_content(st.pristine[name], c), "defaults_changed",
                  lambda: f"after {what}, a freshly constructed {name} differs from the pristine default: "
                          f"{first_diff(st.pristine[name], c)}", key={"op": what.split("(")[0], "cls": name})


def set_path(o, path, value):
    cur = getattr(o, path[0], None)
    if cur is None or isinstance(cur, str):
        return False
    for p in path[1:-1]:
        try:
            cur = cur[p]
        except Exception:                                   # noqa
            return False
    try:
        if isinstance(cur, tuple):
            return False
        if len(path) == 1:
            return False
        old = cur[path[-1]]
        if isinstance(old, (np.ndarray, list, tuple, dict)):
            return False
        cur[path[-1]] = value
    except Exception:                                       # noqa
        return False
    return True


def execute(triple, prop):
    H = hv()
    import hvsrpy.settings as SM
    import hvsrpy.object_io as OIO
    reset_defaults()
    ctx = Ctx(prop)
    st = State()
    st.world = triple["world"]
    st.objs = []
    st.fs = SimFS(SimDisk(), ctx)
    st.saved = {}                 # path -> (content at save time, index of the source)
    st.pristine = {name: content(getattr(H, name)()) for name in CLASSES}
    violation = None
    last = []
    try:
        with Patched(st.fs, modules=(SM, OIO)):
            for op in triple["ops"]:
                name = op["op"]
                before = [content(o) for o in st.objs]
                target = None
                fault_kind = "none"
                sigx = "-"
                if name == "construct":
                    cls = getattr(H, op["cls"])
                    if op.get("same_argument_objects") and getattr(st, "last_kwargs", None) is not None and \
                            st.last_kwargs[0] == op["cls"]:
                        kwargs = st.last_kwargs[1]              # the very objects handed to the previous constructor
                        ctx.probe("constructed_from_the_same_argument_objects")
                    else:
                        kwargs = {k: dec(v) for k, v in (op["args"] or {}).items()}
                    st.last_kwargs = (op["cls"], kwargs)
                    o = cls(**kwargs)
                    st.objs.append(o)
                    if len(st.objs) > 6:
                        st.objs.pop(0)
                        before = before[1:]
                    target = len(st.objs) - 1
                    sigx = op["cls"] + ("/defaults" if not op["args"] else "/args")
                    ctx.state_changes += 1
                    if op["args"]:
                        # explicit arguments are stored with their content
                        c = content(o)["values"]
                        for k, v in kwargs.items():
                            ctx.check(canon(norm(v)) == canon(c.get(k)), "constructor_lost_argument",
                                      f"{op['cls']}({k}=...) stored {str(c.get(k))[:60]}", key={"cls": op["cls"], "attr": k})
                elif name == "clone" and st.objs:
                    import pickle
                    i = op["i"] % len(st.objs)
                    src = st.objs[i]
                    dup = copy.deepcopy(src) if op["how"] == "deepcopy" else pickle.loads(pickle.dumps(src))
                    ctx.check(canon(content(dup)) == canon(before[i]), "copy_differs",
                              lambda: f"{op['how']} of a {type(src).__name__} differs from the object: "
                                      f"{first_diff(before[i], content(dup))}", key={"how": op["how"], "cls": type(src).__name__})
                    st.objs.append(dup)
                    if len(st.objs) > 6:
                        st.objs.pop(0)
                        before = before[1:]
                    target = len(st.objs) - 1
                    sigx = "clone:" + op["how"]
                    ctx.probe("settings_object_copied")
                    ctx.state_changes += 1
                elif name in ("mutate", "assign") and st.objs:
                    i = op["i"] % len(st.objs)
                    o = st.objs[i]
                    target = i
                    if name == "mutate":
                        ok = set_path(o, op["path"], op["value"])
                        sigx = "inplace:" + str(op["path"][0]) + ("" if ok else ":n/a")
                        if ok:
                            ctx.probe("mutated_in_place")
                            ctx.state_changes += 1
                    else:
                        if op["attr"] == "smoothing_none":
                            # a PSD without smoothing: the documented way is smoothing = None (set by assignment)
                            if type(o).__name__ == "PsdProcessingSettings":
                                o.smoothing = None
                                sigx = "assign:smoothing=None"
                                ctx.state_changes += 1
                                ctx.probe("psd_smoothing_none")
                        elif op["attr"] in o.attrs:
                            setattr(o, op["attr"], dec(op["value"]))
                            sigx = "assign:" + op["attr"]
                            ctx.state_changes += 1
                elif name == "save" and st.objs:
                    i = op["i"] % len(st.objs)
                    o = st.objs[i]
                    target = None            # saving must not change anything, including the object itself
                    fault = copy.deepcopy(op.get("fault"))
                    path = op["path"]

                    def do_save():
                        if op["via"] == "method":
                            o.save(path)
                        else:
                            H.write_settings_object_to_file(o, path)
                    if fault:
                        try:
                            size = len(json.dumps(o.attr_dict))
                        except Exception:                           # noqa  (judged by the fault-free save below)
                            fault = None
                    if fault:
                        fault["at"] = min(max(0, int(fault["frac"] * size)), max(0, size - 1))
                        live = st.fs.arm(fault)     # applies to whatever file the save opens (also a temporary name)
                        fault_kind = fault["kind"]
                        try:
                            do_save()
                            ctx.check(fault["kind"] == "short_write" or not live.get("fired"), "write_fault_swallowed",
                                      f"{fault['kind']} during save but the call returned normally", key={"kind": fault["kind"]})
                            st.saved[path] = (content(o), i)
                        except SimCrash:
                            st.fs.disarm()
                            ctx.probe("crash_restart")
                            st.saved.pop(path, None)
                            st.torn = getattr(st, "torn", set()) | {path}
                            st.objs = []                        # restart: only the disk survives
                            before = []
                            reset_defaults()
                        except OSError:
                            st.fs.disarm()
                            ctx.probe("write_failed")
                            st.saved.pop(path, None)
                            c = content(o)
                            ctx.check(same_content(before[i], c), "failed_save_changed_object",
                                      lambda: f"a failed save changed the object: {first_diff(before[i], c)}")
                            do_save()                           # faults stop: one retry succeeds
                            ctx.probe("write_retry_succeeded")
                            st.saved[path] = (content(o), i)
                        finally:
                            st.fs.disarm()
                    else:
                        try:
                            do_save()
                            st.saved[path] = (content(o), i)
                        except Exception as ex:                     # noqa
                            st.saved.pop(path, None)
                            st.torn = getattr(st, "torn", set()) | {path}
                            bad = [n_ for n_ in o.attrs if type(getattr(o, n_, None)).__name__ == "InstrumentTransferFunction"]
                            ctx.check(False, "save_raised",
                                      f"saving a {type(o).__name__} raised {type(ex).__name__}: {ex}",
                                      key={"cls": type(o).__name__, "exc": type(ex).__name__,
                                           "attr": bad[0] if bad else "other"})
                    sigx = "save:" + op["via"]
                    ctx.state_changes += 1
                elif name in ("load_new", "dispatch_read", "load_into"):
                    path = op["path"]
                    if path not in st.saved:
                        if st.fs.exists(path) and path in getattr(st, "torn", set()):
                            try:
                                H.read_settings_object_from_file(path)
                                ctx.probe("torn_file_accepted_silently")
                            except Exception:                   # noqa
                                ctx.probe("torn_file_refused")
                        ctx.event(op=name, skipped=True)
                        continue
                    saved_content, src = st.saved[path]
                    cls = getattr(H, saved_content["class"])
                    fault = copy.deepcopy(op.get("fault"))
                    if name == "load_into":
                        cands = [j for j, o in enumerate(st.objs) if type(o).__name__ == saved_content["class"]]
                        if not cands:
                            ctx.event(op=name, skipped=True)
                            continue
                        target = cands[op["i"] % len(cands)]
                        new = st.objs[target]
                    else:
                        new = cls() if name == "load_new" else None

                    def do_load():
                        if name == "dispatch_read":
                            return H.read_settings_object_from_file(path)
                        new.load(path)
                        return new
                    if fault:
                        fault["path"] = path
                        st.fs.arm(fault)
                        fault_kind = "eio_read"
                        try:
                            do_load()
                            if st.fs.armed and st.fs.armed.get("fired"):
                                ctx.check(False, "read_fault_swallowed", "eio_read during load was swallowed")
                        except OSError:
                            ctx.probe("read_failed")
                            if name == "load_into":
                                c = content(new)
                                ctx.check(same_content(before[target], c), "failed_load_changed_object",
                                          lambda: f"a failed load half-applied attributes: {first_diff(before[target], c)}")
                        finally:
                            st.fs.disarm()
                    try:
                        got = do_load()
                    except Exception as ex:                     # noqa
                        ctx.check(False, "load_raised_after_completed_save",
                                  f"reading a settings file written by a save that completed normally raised "
                                  f"{type(ex).__name__}: {ex}", key={"cls": saved_content["class"]})
                        continue
                    gc = content(got)
                    via = {"load_new": "direct", "load_into": "into_existing", "dispatch_read": "dispatcher"}[name]
                    ctx.check(gc["class"] == saved_content["class"], "class_changed",
                              f"saved a {saved_content['class']}, the {via} reader returned a {gc['class']} "
                              f"(method_to_combine_horizontals={saved_content['values'].get('method_to_combine_horizontals')!r})",
                              key={"via": via, "cls": saved_content["class"]})
                    ctx.check(gc["attrs"] == saved_content["attrs"], "attrs_changed",
                              f"attrs after {via} load: {gc['attrs']} != {saved_content['attrs']}", key={"via": via, "cls": saved_content["class"]})
                    d = first_diff(saved_content, gc)
                    ctx.check(d is None, "roundtrip_content_differs",
                              lambda: f"{saved_content['class']} via {via}: {d}", key={"via": via, "cls": saved_content["class"]})
                    ctx.probe("roundtrip_judged_" + via)
                    if name != "load_into":
                        st.objs.append(got)
                        if len(st.objs) > 6:
                            st.objs.pop(0)
                            before = before[1:]
                            src -= 1
                        target = len(st.objs) - 1
                    if op.get("process") and 0 <= src < len(st.objs) and same_content(content(st.objs[src]), saved_content):
                        if op.get("long_first") and type(got).__name__ not in PRE:
                            # the original has been in use: a longer recording set was processed with it before
                            b_src = content(st.objs[src])
                            run_with(st, st.objs[src], long=True)
                            ctx.check(same_content(b_src, content(st.objs[src])), "processing_changed_settings",
                                      lambda: f"process() changed the settings object it was given: "
                                              f"{first_diff(b_src, content(st.objs[src]))}", key={"cls": saved_content["class"]})
                            ctx.probe("original_used_before_on_longer_records")
                        r1, r2 = run_with(st, st.objs[src]), run_with(st, got)
                        ctx.check(r1 == r2, "processing_differs_after_reload",
                                  lambda: f"{saved_content['class']}: processing with the reloaded settings gives {str(r2)[:80]} "
                                          f"but the original gives {str(r1)[:80]}", key={"via": via, "cls": saved_content["class"]})
                        ctx.probe("processing_compared")
                        if r1[0] == "raised":
                            ctx.probe("processing_raised_both")
                    sigx = via + ":" + saved_content["class"]
                    ctx.state_changes += 1
                elif name == "fresh_defaults":
                    pass
                else:
                    ctx.event(op=name, skipped=True)
                    continue
                # frame condition + pristine defaults after every operation
                if len(before) == len(st.objs) or target == len(st.objs) - 1:
                    frame(ctx, st, before, target, f"{name}({sigx})")
                pristine_defaults(ctx, st, f"{name}({sigx})")
                ctx.ops_done += 1
                last = (last + [name])[-2:]
                ctx.signature(sigx, ",".join(last), fault_kind)
                ctx.event(op=name, sig=sigx, n=len(st.objs), disk=sorted(st.fs.disk.files))
    except Violation as v:
        violation = v.as_dict()
        ctx.event(violation=violation["oracle"])
    finally:
        reset_defaults()
    nontrivial = sum(ctx.judged.values()) > 0 and ctx.state_changes > 0
    return {"violation": violation, "digest": ctx.digest(), "probes": dict(ctx.probes),
            "faults": dict(ctx.faults), "ops": ctx.ops_done, "judged": dict(ctx.judged),
            "sigs": list(ctx.sig) if nontrivial else [], "nontrivial": bool(nontrivial),
            "known": ctx.known, "sim_seconds": 0.0}


def shrinks(t, prop):
    for i, o in enumerate(t["ops"]):
        if o.get("fault"):
            c = copy.deepcopy(t)
            del c["ops"][i]["fault"]
            yield c
        if o.get("process"):
            c = copy.deepcopy(t)
            del c["ops"][i]["process"]
            yield c
        if o["op"] == "construct" and o.get("args"):
            for k in list(o["args"]):
                c = copy.deepcopy(t)
                del c["ops"][i]["args"][k]
                yield c


EVIDENCE = {"C15": {
    "components": {"real": ["all eight settings classes, Settings.save/load, read/write_settings_object_to_file, json, the stdlib text/buffered I/O stack",
                            "hvsrpy.process / preprocess for the 'equal processing result' clause"],
                   "stub": ["the raw storage device (SimFS, fault-injecting)"]},
    "assumptions": ["excluded: float32 scalars as azimuth attribute values (single precision before, double after a reload: results differ by 1e-8), a failed save destroying the previous file content (the property speaks of completed saves); open finding: InstrumentTransferFunction objects cannot be saved (known_findings.json)", "constructor default arguments are reset to their import-time values before and after every run so runs are independent",
                    "a quarter of the explicit constructs are followed by a second construct from the very same argument objects",
                    "instrument_transfer_function stays None (not JSON-serialisable)"],
}}
REQUIRED_PROBES = {"C15": ["roundtrip_judged_direct", "roundtrip_judged_dispatcher", "mutated_in_place", "settings_object_copied",
                           "original_used_before_on_longer_records"]}
