"""write_then_read operation of the HVSR-object machine and the C12 oracles."""
import copy
import json
import warnings

import numpy as np

from ..core import SimCrash, HarnessError, canon, sha_array, bits_equal, Violation
from ..simfs import SimFS, SimDisk, Patched
from ..snapshot import snap, semantic_snap, diff as snapdiff


def _mods():
    import hvsrpy.object_io as OIO
    return OIO


def _fs(st, ctx):
    if getattr(st, "fs", None) is None:
        st.fs = SimFS(SimDisk(), ctx)
    st.fs.ctx = ctx
    return st.fs


def write_obj(fs, obj, path, dmc, dfn):
    from . import hvsrobj as M
    OIO = _mods()
    with Patched(fs, modules=(OIO,), np_proxy_modules=(OIO,)):
        with warnings.catch_warnings():
            warnings.simplefilter("ignore")
            with np.errstate(all="ignore"):
                M.hv().write_hvsr_object_to_file(obj, path, distribution_mc=dmc, distribution_fn=dfn)


def read_obj(fs, path):
    from . import hvsrobj as M
    OIO = _mods()
    with Patched(fs, modules=(OIO,), np_proxy_modules=(OIO,)):
        with warnings.catch_warnings():
            warnings.simplefilter("ignore")
            with np.errstate(all="ignore"):
                return M.hv().read_hvsr_object_from_file(path)


# ----------------------------------------------------------------- parser ----
def parse_file(data):
    """Strict, independent parser of the text format.  Returns
    (meta, column_names, array[nfreq, ncol], byte offset of the numeric block)."""
    text = data.decode("utf-8")
    if not text.endswith("\n"):
        raise ValueError("file does not end with a newline")
    lines = text[:-1].split("\n")
    k = 0
    while k < len(lines) and lines[k].startswith("# "):
        k += 1
    if k < 2:
        raise ValueError("header missing")
    meta = json.loads("\n".join(l[2:] for l in lines[:k - 1]))
    cols = lines[k - 1][2:].split(",")
    rows = []
    for l in lines[k:]:
        parts = l.split(",")
        if len(parts) != len(cols):
            raise ValueError("ragged row")
        rows.append([float(p) for p in parts])
    offset = len(("\n".join(lines[:k]) + "\n").encode("utf-8"))
    return meta, cols, np.array(rows, dtype=float), offset


def jsonish(x):
    return json.loads(json.dumps(x, default=_np_default))


def _np_default(o):
    if isinstance(o, np.ndarray):
        return o.tolist()
    if isinstance(o, np.generic):
        return o.item()
    raise TypeError(type(o))


# ------------------------------------------------------------- semantics ----
def semantic(obj):
    """Everything C12 says must survive: curves (bits), masks, range, peaks, statistics."""
    from . import hvsrobj as M
    H = M.hv()
    out = {"type": type(obj).__name__}
    if isinstance(obj, H.HvsrAzimuthal):
        out["frequency"] = sha_array(np.asarray(obj.frequency, float))
        out["azimuths"] = [float(a) for a in obj.azimuths]
        out["amplitude"] = [sha_array(np.asarray(h.amplitude, float)) for h in obj.hvsrs]
        out["masks"] = [[np.asarray(h.valid_window_boolean_mask).tolist(),
                         np.asarray(h.valid_peak_boolean_mask).tolist()] for h in obj.hvsrs]
        out["peaks"] = [_peaks(h) for h in obj.hvsrs]
        out["stats"] = _stats(obj)
    elif isinstance(obj, H.HvsrTraditional):
        out["frequency"] = sha_array(np.asarray(obj.frequency, float))
        out["amplitude"] = sha_array(np.asarray(obj.amplitude, float))
        out["masks"] = [np.asarray(obj.valid_window_boolean_mask).tolist(),
                        np.asarray(obj.valid_peak_boolean_mask).tolist()]
        out["peaks"] = _peaks(obj)
        out["stats"] = _stats(obj)
    else:
        out["frequency"] = sha_array(np.asarray(obj.frequency, float))
        out["amplitude"] = sha_array(np.asarray(obj.amplitude, float))
        out["peaks"] = [_arr([obj.peak_frequency]), _arr([obj.peak_amplitude])]
        try:
            out["stats"] = {"mean_curve_peak": _arr(obj.mean_curve_peak(
                search_range_in_hz=obj.meta.get("search_range_in_hz", (None, None)),
                find_peaks_kwargs=obj.meta.get("find_peaks_kwargs")))}
        except ValueError:
            out["stats"] = {"mean_curve_peak": "raised"}
    out["range"] = jsonish(obj.meta.get("search_range_in_hz"))
    out["find_peaks_kwargs"] = jsonish(obj.meta.get("find_peaks_kwargs"))
    return out


def _peaks(h):
    try:
        return [_arr(h.peak_frequencies), _arr(h.peak_amplitudes)]
    except Exception as e:                                   # noqa  (e.g. a mask of the wrong length)
        return ["raised", type(e).__name__]


def _arr(a):
    a = np.asarray(a, dtype=float)
    return ["nan" if np.isnan(x) else repr(float(x)) for x in a.ravel()]


def _stats(obj):
    from . import hvsrobj as M
    acc = M._accessors_trad(obj)
    out = {}
    for k, v in acc.items():
        if isinstance(v, tuple):
            out[k] = list(v)
        else:
            out[k] = _arr(v)
    return out


def sem_diff(a, b, path=""):
    if a == b:
        return None
    if isinstance(a, dict) and isinstance(b, dict):
        for k in a:
            if k not in b:
                return f"{path}.{k} missing"
            d = sem_diff(a[k], b[k], f"{path}.{k}")
            if d:
                return d
    if isinstance(a, list) and isinstance(b, list) and len(a) == len(b):
        for i, (x, y) in enumerate(zip(a, b)):
            d = sem_diff(x, y, f"{path}[{i}]")
            if d:
                return d
    return f"{path}: {str(a)[:70]} != {str(b)[:70]}"


# ------------------------------------------------------------- operation ----
def _accepted_ok(obj):
    from . import hvsrobj as M
    H = M.hv()
    if isinstance(obj, H.HvsrAzimuthal):
        w = [int(np.sum(h.valid_window_boolean_mask)) for h in obj.hvsrs]
        p = [int(np.sum(h.valid_peak_boolean_mask)) for h in obj.hvsrs]
        return all(x >= 1 for x in w) and sum(w) >= 2 and w == p
    if isinstance(obj, H.HvsrTraditional):
        return int(np.sum(obj.valid_window_boolean_mask)) >= 2
    return True


def _fault_offset(data, fault):
    n = len(data)
    frac = fault.get("frac", 0.5)
    k = int(frac * n)
    bias = fault.get("bias", "uniform")
    if bias == "header_end":
        lines = data.split(b"\n")
        off = 0
        for l in lines:
            if not l.startswith(b"# "):
                break
            off += len(l) + 1
        k = off
    elif bias == "line_start":
        j = data.rfind(b"\n", 0, max(1, k))
        k = j + 1 if j >= 0 else 0
    return max(0, min(k, n - 1))


def op_write_read(ctx, st, op, prop, info):
    from . import hvsrobj as M
    H = M.hv()
    fs = _fs(st, ctx)
    judge = prop == "C12"
    log = []
    info["log"] = log
    for which in ("trad", "az", "diff"):
        if which not in st.objs:
            continue
        obj = st.objs[which]
        path = op["path"] + "." + which
        dmc, dfn = op["dmc"], op["dfn"]
        in_domain = _accepted_ok(obj)
        before = semantic_snap(obj)
        fault = copy.deepcopy(op.get("fault"))
        # --- dry run on a scratch disk: is the write defined at all, and how long is it?
        scratch = SimFS(SimDisk(), None)
        try:
            write_obj(scratch, obj, path, dmc, dfn)
            ref_bytes = scratch.read_bytes(path)
        except Exception as e:                     # noqa
            log.append([which, "write_undefined", type(e).__name__])
            ctx.probe("write_undefined_state")
            if judge:
                ctx.check(not in_domain, "write_raised_in_domain",
                          f"{which}: writing raised {type(e).__name__}: {e} although at least two windows are accepted",
                          key={"which": which})
                d = snapdiff(before, semantic_snap(obj))
                ctx.check(d is None, "failed_write_changed_object", f"{which}: {d}", key={"which": which})
            if which == "az" and getattr(st, "member_before_write", None):
                st.member = dict(st.member_before_write)    # nothing was written: the object and its out-of-step member stay
            continue
        if judge:
            d = snapdiff(before, semantic_snap(obj))
            ctx.check(d is None, "write_changed_object", f"{which}: writing changed the object: {d}",
                      key={"which": which})
        # --- the real write, possibly under a fault
        wrote = False
        if fault and fault["kind"] in ("enospc", "eio_write", "crash_in_write", "short_write"):
            fault["at"] = _fault_offset(ref_bytes, fault)
            live = fs.arm(fault)            # applies to whatever file the write opens (also a temporary name)
            st.fault_kind = fault["kind"]
            try:
                write_obj(fs, obj, path, dmc, dfn)
                wrote = True
                if fault["kind"] != "short_write" and live.get("fired"):
                    ctx.check(False, "write_fault_swallowed",
                              f"{which}: {fault['kind']} after {fault['at']} bytes but the write returned normally",
                              key={"which": which, "kind": fault["kind"]}) if judge else None
            except SimCrash:
                fs.disarm()
                log.append([which, "crash", fault["at"]])
                ctx.probe("crash_restart")
                # restart: every in-memory object is gone, only the disk survives
                fresh = M.build_world(st.world)
                fresh.fs = fs
                keep_sig = st.last_ops
                st.__dict__.update(fresh.__dict__)
                st.fs = fs
                st.shadow = None
                st.last_ops = keep_sig
                st.fault_kind = "crash_in_write"
                try:
                    read_obj(fs, path)
                    ctx.probe("torn_file_accepted_silently")
                except Exception:                   # noqa
                    ctx.probe("torn_file_refused")
                return
            except OSError as e:
                log.append([which, "write_failed", fault["kind"], fault["at"]])
                ctx.probe("write_failed")
                if judge:
                    d = snapdiff(before, semantic_snap(obj))
                    ctx.check(d is None, "failed_write_changed_object",
                              f"{which}: a failed write changed the object: {d}", key={"which": which})
                    if fs.exists(path):      # (an implementation writing to a temporary name leaves no file here)
                        ctx.check(len(fs.read_bytes(path)) <= max(fault["at"], len(ref_bytes)), "harness_prefix",
                                  "more bytes on disk than the device accepted")
            finally:
                fs.disarm()
            if not wrote:
                # faults stop: one retry must succeed
                write_obj(fs, obj, path, dmc, dfn)
                ctx.probe("write_retry_succeeded")
        else:
            write_obj(fs, obj, path, dmc, dfn)
        data = fs.read_bytes(path)
        if judge:
            ctx.check(data == ref_bytes, "write_not_deterministic",
                      f"{which}: two writes of the same object produced different files", key={"which": which})
        # --- the read, possibly under a fault
        if fault and fault["kind"] == "eio_read":
            fault["at"] = int(fault.get("frac", 0) * 3)
            fault["path"] = path
            fs.arm(fault)
            st.fault_kind = "eio_read"
            try:
                r0 = read_obj(fs, path)
                if fault.get("fired") or (fs.armed and fs.armed.get("fired")):
                    if judge:
                        ctx.check(False, "read_fault_swallowed", f"{which}: eio_read was swallowed", key={"which": which})
            except OSError:
                ctx.probe("read_failed")
                log.append([which, "read_failed"])
            finally:
                fs.disarm()
        try:
            R = read_obj(fs, path)
        except Exception as e:                      # noqa
            if judge:
                ctx.check(not in_domain, "read_back_raised",
                          f"{which}: reading the file back raised {type(e).__name__}: {e}", key={"which": which})
            log.append([which, "read_raised", type(e).__name__])
            if which == "az" and getattr(st, "member_before_write", None):
                st.member = dict(st.member_before_write)    # the written object stays, and so does its out-of-step member
            continue
        log.append([which, "ok", len(data)])
        out_of_step = which == "az" and bool(getattr(st, "member_before_write", None))
        if out_of_step:
            ctx.probe("members_out_of_step_at_write")       # the caller updated one member alone: not judged
        if judge and in_domain and not out_of_step:
            judge_roundtrip(ctx, st, which, obj, R, data, op, fs)
        # continue the history on the read-back object; the written one becomes its shadow.  (A write outside the
        # property's domain - fewer than two accepted windows somewhere - says nothing about what is read back: the
        # history then continues on the object that was written.)
        if in_domain:
            st.objs[which] = R
        elif which == "az" and getattr(st, "member_before_write", None):
            st.member = dict(st.member_before_write)        # the written object stays, and so does its out-of-step member
        if judge and in_domain and not out_of_step:
            if getattr(st, "shadow", None) is None:
                sh = M.State()
                sh.objs = {}
                st.shadow = sh
            # the shadow state always restarts from the primary's model (range in use, kwargs, …)
            keep = st.shadow.objs
            st.shadow.__dict__.update({k: copy.copy(v) if isinstance(v, (dict, set, list)) else v
                                       for k, v in st.__dict__.items() if k not in ("objs", "shadow", "fs", "peak_cache")})
            st.shadow.peak_cache = st.peak_cache
            st.shadow.objs = keep
            st.shadow.shadow = None
            st.shadow.fs = None
            st.shadow.objs[which] = obj
        elif getattr(st, "shadow", None) is not None:
            st.shadow.objs.pop(which, None)
    ctx.state_changes += 1


def op_sibling(ctx, st, op, prop, info):
    """The caller keeps using ANOTHER result object that shares caller-owned inputs with the one under test (built from
    the same meta dict, or being one of the objects an azimuthal container was built from): each must round-trip as
    itself, whatever was done to the other in the meantime."""
    from . import hvsrobj as M
    sib = None
    if getattr(st, "sibling", None) is not None:
        sib = st.sibling
    elif getattr(st, "src_members", None):
        sib = st.src_members[op["az"] % len(st.src_members)]
    info["log"] = ["sibling", op["do"]]
    if sib is None:
        info["log"].append("none")
        return
    fs = _fs(st, ctx)
    if op["do"] == "update":
        sib.update_peaks_bounded(search_range_in_hz=tuple(op["range"]), find_peaks_kwargs=copy.deepcopy(op["kwargs"]))
        ctx.probe("sibling_updated")
        return
    path = op["path"] + ".sib"
    try:
        write_obj(fs, sib, path, op["dmc"], op["dfn"])
        data = fs.read_bytes(path)
        R = read_obj(fs, path)
    except Exception as e:                          # noqa
        info["log"].append(type(e).__name__)
        if prop == "C12":
            ctx.check(not _accepted_ok(sib), "read_back_raised",
                      f"sibling: write/read raised {type(e).__name__}: {e}", key={"which": "sibling"})
        return
    info["log"].append(len(data))
    if prop == "C12" and _accepted_ok(sib):
        judge_roundtrip(ctx, st, "trad", sib, R, data, op, fs)
        ctx.probe("sibling_roundtrip_judged")


def judge_roundtrip(ctx, st, which, W, R, data, op, fs):
    from . import hvsrobj as M
    H = M.hv()
    key = {"which": which}
    ctx.check(type(R) is type(W), "type_changed", f"wrote {type(W).__name__}, read {type(R).__name__}", key=key)
    # 1. the file itself
    meta, cols, arr, offset = parse_file(data)
    with np.errstate(all="ignore"), warnings.catch_warnings():
        warnings.simplefilter("ignore")
        ctx.check(bits_equal(arr[:, 0], W.frequency), "file_frequency_column", "frequency column != object's frequency", key=key)
        if which != "diff":
            mc = np.asarray(W.mean_curve(op["dmc"]), float)
            sc = np.asarray(W.std_curve(op["dmc"]), float)
            ok = bits_equal(arr[:, -2], mc) and bits_equal(arr[:, -1], sc)
            nbad = int(np.sum(arr[:, -2] != mc)) + int(np.sum(arr[:, -1] != sc))
            ctx.check(ok, "derived_columns_match_object",
                      lambda: f"file's mean/std columns != object.mean_curve/std_curve('{op['dmc']}') at {nbad} entries "
                              f"(e.g. file {arr[0, -2]!r}/{arr[0, -1]!r} vs object {mc[0]!r}/{sc[0]!r})", key=key)
            ctx.check(cols[-2] == f"mean curve ({op['dmc']})" and cols[-1] == f"mean curve std ({op['dmc']})",
                      "derived_column_labels", f"labels {cols[-2:]}", key=key)
    if which == "trad":
        ctx.check(meta.get("valid_window_boolean_mask") == np.asarray(W.valid_window_boolean_mask).tolist() and
                  meta.get("valid_peak_boolean_mask") == np.asarray(W.valid_peak_boolean_mask).tolist(),
                  "header_masks", "masks in the header differ from the object's", key=key)
        ctx.check(bits_equal(arr[:, 1:-2].T, W.amplitude), "file_curve_columns", "curve columns differ from the object's curves", key=key)
    elif which == "az":
        ctx.check(meta.get("valid_window_boolean_masks") == [np.asarray(h.valid_window_boolean_mask).tolist() for h in W.hvsrs] and
                  meta.get("valid_peak_boolean_masks") == [np.asarray(h.valid_peak_boolean_mask).tolist() for h in W.hvsrs],
                  "header_masks", "masks in the header differ from the object's", key=key)
        allamp = np.vstack([h.amplitude for h in W.hvsrs])
        ctx.check(bits_equal(arr[:, 1:-2].T, allamp), "file_curve_columns", "curve columns differ from the object's curves", key=key)
    # 2. read-back object vs written object
    sw, sr = semantic(W), semantic(R)
    d = sem_diff(sw, sr)
    ctx.check(d is None, "readback_differs", lambda: f"{which}: read-back object differs from the written one: {d}",
              key={**key, "field": (d or "").split(":")[0].split("[")[0].split(".")[1] if d else ""})
    # (the entry that tells the reader which class to build is the writer's: it is not compared, the class is)
    mw = jsonish({k: v for k, v in W.meta.items() if k != "processing_method"})
    mr = jsonish({k: v for k, v in R.meta.items() if k != "processing_method"})
    ctx.check(type(R) is type(W), "readback_class_differs", f"{which}: a {type(W).__name__} was read back as {type(R).__name__}", key=key)
    ctx.check(canon(mw) == canon(mr), "meta_differs",
              lambda: f"{which}: meta differs after the round trip: {sem_diff(mw, mr)}", key=key)
    # 3. second generation is byte-identical in the numeric block
    p2 = op["path"] + "." + which + ".gen2"
    write_obj(fs, R, p2, op["dmc"], op["dfn"])
    d2 = fs.read_bytes(p2)
    _, _, _, off2 = parse_file(d2)
    ctx.check(d2[off2:] == data[offset:], "second_generation_differs",
              "numeric block changed when the read-back object was written again", key=key)
    if d2 == data:
        ctx.probe("second_generation_whole_file_identical")
    ctx.probe("roundtrip_judged_" + which)


def oracle_c12_shadow(ctx, st, op, info):
    """After every later operation the read-back object must still behave like
    the object that was written (both received the same operations)."""
    from . import hvsrobj as M
    sh = getattr(st, "shadow", None)
    if sh is None or not sh.objs or op["op"] in ("write_read", "plot"):
        return
    for which, w in list(sh.objs.items()):
        if which not in st.objs:
            continue
        d = sem_diff(semantic(w), semantic(st.objs[which]))
        ctx.check(d is None, "history_diverges_after_readback",
                  lambda: f"{which}: after {op['op']} the read-back object differs from the written one: {d}",
                  key={"which": which, "after": op["op"]})
        ctx.probe("shadow_compared")
