"""The 'recorder' side of the reader machine: encoders for the eight on-disk
layouts and independent decoders of (possibly damaged) stored bytes.

Binary formats are written/decoded with obspy (trusted as the recorder);
SAF, MiniShark and PEER have my own encoders and strict parsers."""
import io
import os
import re
import tempfile
import warnings

import numpy as np

FORMATS = ["mseed1", "mseed3", "sac_le", "sac_be", "gcf", "saf", "minishark", "peer"]
TEXT = ("saf", "minishark", "peer")
COMPS = ("N", "E", "Z")


def samples(spec):
    """Three integer sample arrays (N, E, Z) from the spec."""
    from ..core import np_rng
    g = np_rng(spec["k"])
    lim = 2 ** 23 if not spec.get("big") else 2 ** 30
    return {c: g.integers(-lim, lim, spec["n"]).astype(np.int64) for c in COMPS}


def _trace(ch, data, rate, spec):
    from obspy import Trace, UTCDateTime
    tr = Trace(data=data)
    tr.stats.sampling_rate = float(rate)
    tr.stats.channel = ch
    tr.stats.station = "ST%02d" % (spec.get("idx", 0) + 1)
    tr.stats.network = "XX"
    tr.stats.location = spec.get("loc", "")
    tr.stats.starttime = UTCDateTime(2020, 1, 1)
    return tr


def encode(spec):
    """Return (files, expect): files = list of (name, bytes) in *storage order*;
    expect = dict(ns, ew, vt float64 arrays, dt, deg or None)."""
    fmt, rate, order = spec["fmt"], spec["rate"], spec["order"]
    s = samples(spec)
    band = spec.get("band", "BH")
    bands = spec.get("bands") or {c: band for c in COMPS}       # per-component band codes (e.g. EHZ with HHN/HHE)
    stem = "r%d" % spec.get("idx", 0)
    exp = {"dt": 1.0 / rate, "deg": 0.0}
    with warnings.catch_warnings():
        warnings.simplefilter("ignore")
        if fmt in ("mseed1", "mseed3"):
            data = {c: s[c].astype(np.int32) for c in COMPS}
            trs = [_trace(bands[c] + c, data[c], rate, spec) for c in order]
            if fmt == "mseed1":
                from obspy import Stream
                b = io.BytesIO()
                Stream(trs).write(b, format="MSEED", reclen=512, encoding=spec.get("encoding", "STEIM2"))
                files = [(stem + ".mseed", b.getvalue())]
            else:
                files = []
                for tr in trs:
                    b = io.BytesIO()
                    tr.write(b, format="MSEED", reclen=512, encoding=spec.get("encoding", "STEIM2"))
                    files.append((stem + "_" + tr.stats.channel.lower() + ".mseed", b.getvalue()))
            exp.update(ns=data["N"].astype(float), ew=data["E"].astype(float), vt=data["Z"].astype(float))
        elif fmt in ("sac_le", "sac_be"):
            data = {c: s[c].astype(np.float32) for c in COMPS}
            files = []
            per_file = spec.get("sac_orders") or {}                  # the files of one recording need not share a byte order
            for c in order:
                b = io.BytesIO()
                bo = per_file.get(c, "<" if fmt == "sac_le" else ">")
                _trace(bands[c] + c, data[c], rate, spec).write(b, format="SAC", byteorder=bo)
                files.append((stem + "_" + c.lower() + ".sac", b.getvalue()))
            exp.update(ns=data["N"].astype(float), ew=data["E"].astype(float), vt=data["Z"].astype(float))
            exp["dt"] = None              # SAC stores delta in single precision: judged against the file's own header
        elif fmt == "gcf":
            from obspy import Stream
            data = {c: s[c].astype(np.int32) for c in COMPS}
            trs = [_trace(bands[c] + c, data[c], rate, spec) for c in order]
            d = tempfile.mkdtemp(prefix="hvsrpy-verif-gcf-")
            p = os.path.join(d, "x.gcf")
            try:
                Stream(trs).write(p, format="GCF")
                with open(p, "rb") as f:
                    raw = f.read()
            finally:
                try:
                    os.remove(p)
                except OSError:
                    pass
                os.rmdir(d)
            files = [(stem + ".gcf", raw)]
            exp.update(ns=data["N"].astype(float), ew=data["E"].astype(float), vt=data["Z"].astype(float))
        elif fmt == "saf":
            files, exp2 = encode_saf(spec, s, stem)
            exp.update(exp2)
        elif fmt == "minishark":
            files, exp2 = encode_minishark(spec, s, stem)
            exp.update(exp2)
        elif fmt == "peer":
            files, exp2 = encode_peer(spec, s, stem)
            exp.update(exp2)
        else:
            raise ValueError(fmt)
    return files, exp


# ------------------------------------------------------------------- SAF ----
def encode_saf(spec, s, stem):
    east_first = spec.get("east_first", False)
    cols = ["Z", "E", "N"] if east_first else ["Z", "N", "E"]
    if spec.get("saf_cols"):
        cols = list(spec["saf_cols"])            # any of the 6 channel layouts
        east_first = cols.index("E") < cols.index("N")
    ids = {"Z": "V", "N": "N", "E": "E"}
    rot = spec.get("north_rot")
    lines = ["SESAME ASCII data format (saf) v. 1    (this line must not be modified)",
             f"SAMP_FREQ = {spec['rate']}", f"NDAT = {spec['n']:010d}",
             "START_TIME = 2021 11 22 13 31 10.000", "SENSOR_TYPE = Velocity", "ACQ_SYSTEM = sim",
             "STA_CODE = SIM-01"]
    if rot is not None:
        lines.append(f"NORTH_ROT = {rot}")
    lines += ["UNITS = Counts"] + [f"CH{i}_ID = {ids[c]}" for i, c in enumerate(cols)] + ["STA_Z = 0",
                                                                                         "####--------------------------------"]
    body = [f"{s[cols[0]][i]} {s[cols[1]][i]} {s[cols[2]][i]}" for i in range(spec["n"])]
    text = "\n".join(lines + body) + "\n"
    exp = {c: s[k].astype(np.float32).astype(float) for c, k in (("ns", "N"), ("ew", "E"), ("vt", "Z"))}
    if cols[0] != "Z":
        exp["deg"] = None                 # non-standard layout: orientation not judged
    elif rot is None:
        exp["deg"] = 0.0
    elif east_first:
        exp["deg"] = None                 # meaning of NORTH_ROT for east-first files is not settled by the property
    else:
        exp["deg"] = float(rot) % 360.0
    return [(stem + ".saf", text.encode())], exp


def decode_saf(data):
    """Strict parser; raises ValueError on anything irregular."""
    text = data.decode("utf-8").replace("\r\n", "\n")
    if not text.endswith("\n"):
        raise ValueError("no final newline")
    lines = text[:-1].split("\n")
    while lines and lines[-1] == "":
        lines.pop()                                  # trailing blank lines are harmless
    if not lines[0].startswith("SESAME ASCII data format (saf) v. 1"):
        raise ValueError("not saf")
    hdr = {}
    i = 1
    while i < len(lines) and not lines[i].startswith("####"):
        if lines[i].startswith("#"):
            i += 1
            continue
        m = re.fullmatch(r"([A-Z0-9_ ]+?) = ?(.*)", lines[i])
        if not m:
            raise ValueError("bad header line")
        hdr[m.group(1)] = m.group(2)
        i += 1
    if i >= len(lines):
        raise ValueError("no separator")
    rows = lines[i + 1:]
    ndat = int(re.fullmatch(r"\d+", hdr["NDAT"]).group(0))
    rate = int(re.fullmatch(r"\d+", hdr["SAMP_FREQ"]).group(0))
    ch = {}
    for k in range(3):
        ch[hdr[f"CH{k}_ID"]] = k
    if sorted(ch) != ["E", "N", "V"]:
        raise ValueError("bad channel ids")
    arr = []
    for r in rows:
        m = re.fullmatch(r"(-?\d+)[ \t](-?\d+)[ \t](-?\d+)", r)
        if not m:
            raise ValueError("bad row")
        arr.append([int(x) for x in m.groups()])
    if len(arr) != ndat:
        raise ValueError("count mismatch")
    a = np.array(arr, dtype=np.int64).reshape(-1, 3)
    out = {"ns": a[:, ch["N"]].astype(np.float32).astype(float), "ew": a[:, ch["E"]].astype(np.float32).astype(float),
           "vt": a[:, ch["V"]].astype(np.float32).astype(float), "dt": 1.0 / rate, "deg": None}
    return out


# ------------------------------------------------------------- MiniShark ----
def encode_minishark(spec, s, stem):
    gain, conv = spec.get("gain", 1), spec.get("conv", 1)
    lines = ["#MiniShark recording (simulated)", "#Start time:\t2018-11-15 04:41:00",
             f"#Sample rate (sps):\t{spec['rate']}", f"#Sample number:\t{spec['n']}",
             f"#Gain:\t{gain}", f"#Conversion factor:\t{conv}", "#Channels:\tV N E"]
    body = [f"{s['Z'][i]}\t{s['N'][i]}\t{s['E'][i]}" for i in range(spec["n"])]
    text = "\n".join(lines + body) + "\n"
    exp = {c: s[k].astype(float) / gain / conv for c, k in (("ns", "N"), ("ew", "E"), ("vt", "Z"))}
    exp["deg"] = 0.0
    exp["rtol"] = 1e-6                    # single precision with two divisions
    return [(stem + ".minishark", text.encode())], exp


def decode_minishark(data):
    text = data.decode("utf-8").replace("\r\n", "\n")
    if not text.endswith("\n"):
        raise ValueError("no final newline")
    lines = text[:-1].split("\n")
    while lines and lines[-1] == "":
        lines.pop()
    hdr, i = {}, 0
    while i < len(lines) and lines[i].startswith("#"):
        m = re.fullmatch(r"#([^\t]+):\t(.*)", lines[i])
        if m:
            hdr[m.group(1)] = m.group(2)
        i += 1
    n = int(re.fullmatch(r"\d+", hdr["Sample number"]).group(0))
    rate = int(re.fullmatch(r"\d+", hdr["Sample rate (sps)"]).group(0))
    gain = int(re.fullmatch(r"\d+", hdr["Gain"]).group(0))
    conv = int(re.fullmatch(r"\d+", hdr["Conversion factor"]).group(0))
    arr = []
    for r in lines[i:]:
        m = re.fullmatch(r"(-?\d+)\t(-?\d+)\t(-?\d+)", r)
        if not m:
            raise ValueError("bad row")
        arr.append([int(x) for x in m.groups()])
    if len(arr) != n:
        raise ValueError("count mismatch")
    a = np.array(arr, dtype=np.int64).reshape(-1, 3)
    return {"vt": a[:, 0] / gain / conv, "ns": a[:, 1] / gain / conv, "ew": a[:, 2] / gain / conv,
            "dt": 1.0 / rate, "deg": 0.0, "rtol": 1e-6}


# ------------------------------------------------------------------ PEER ----
def _peer_num(v):
    return "%15.7E" % v


def encode_peer(spec, s, stem):
    codes = spec.get("codes", {"N": "360", "E": "90", "Z": "UP"})
    dt_txt = ("%.8f" % (1.0 / spec["rate"])).lstrip("0")
    files = []
    vals = {}
    short = spec.get("peer_short") or {}
    for c in spec["order"]:
        v = s[c].astype(float) * 1e-3
        if short.get("comp") == c:                 # PEER does not require equal lengths:
            v = v[:max(2, len(v) - short["by"])]    # the reader keeps the common leading part
        toks = [_peer_num(x) for x in v]
        vals[c] = np.array([float(t) for t in toks])
        lines = ["PEER NGA STRONG MOTION DATABASE RECORD (simulated)",
                 f"Simulated-01, 1/17/1994, Station {stem}, {codes[c]}",
                 "VELOCITY TIME SERIES IN UNITS OF CM/S",
                 f"NPTS=  {len(toks):5d}, DT=   {dt_txt} SEC"]
        for i in range(0, len(toks), 5):
            lines.append("".join(toks[i:i + 5]))
        files.append((f"{stem}_{codes[c].lower()}.vt2", ("\n".join(lines) + "\n").encode()))
    m = min(len(x) for x in vals.values())
    exp = {"ns": vals["N"][:m], "ew": vals["E"][:m], "vt": vals["Z"][:m], "dt": float("0" + dt_txt)}
    exp["deg"] = float(int(codes["N"]) % 360) if codes["N"].isdigit() else 0.0
    return files, exp


def decode_peer_file(data):
    text = data.decode("utf-8").replace("\r\n", "\n")
    if not text.endswith("\n"):
        raise ValueError("no final newline")
    lines = text[:-1].split("\n")
    while lines and lines[-1] == "":
        lines.pop()
    if len(lines) < 4:
        raise ValueError("short")
    m = re.fullmatch(r".*, ([A-Za-z0-9]+)", lines[1])
    if not m:
        raise ValueError("no direction")
    code = m.group(1)
    m = re.fullmatch(r"NPTS=\s*(\d+), DT=\s*(\d*\.\d+) SEC\s*", lines[3])
    if not m:
        raise ValueError("bad NPTS line")
    n, dt = int(m.group(1)), float(m.group(2))
    toks = []
    for l in lines[4:]:
        if len(l) % 15:
            raise ValueError("bad sample line")
        for i in range(0, len(l), 15):
            t = l[i:i + 15]
            if not re.fullmatch(r"\s*-?\d\.\d{7}E[+-]\d\d", t):
                raise ValueError("bad sample")
            toks.append(float(t))
    if len(toks) != n:
        raise ValueError("count mismatch")
    return code, np.array(toks), dt


# ----------------------------------------------------- binary decode (obspy) ----
def decode_binary(fmt, blobs, extra=None):
    """Independent per-trace decode of the surviving bytes with obspy.
    Returns list of (channel, float64 data, delta) or raises."""
    import obspy
    out = []
    with warnings.catch_warnings():
        warnings.simplefilter("ignore")
        for b in blobs:
            if fmt.startswith("mseed"):
                st = obspy.read(io.BytesIO(b), **{"format": "MSEED", **(extra or {})})
            elif fmt.startswith("sac"):
                st = None
                for bo in ("little", "big"):
                    try:
                        st = obspy.read(io.BytesIO(b), format="SAC", byteorder=bo)
                        break
                    except Exception:                   # noqa
                        continue
                if st is None:
                    raise ValueError("not SAC in either byte order")
                st = st[:1]
            else:
                st = obspy.read(io.BytesIO(b), format="GCF")
            for tr in st:
                out.append((tr.stats.channel, np.array(tr.data, dtype=float), float(tr.stats.delta)))
    return out


def assemble_binary(traces):
    """What a recording built from these traces must look like, or None when
    the property demands an error (not exactly one N, E, Z of equal length/dt)."""
    if len(traces) != 3:
        return None
    by = {}
    for ch, d, delta in traces:
        c = ch[-1:] if ch else ""
        if c not in COMPS or c in by:
            return None
        by[c] = (d, delta)
    if len(by) != 3:
        return None
    n = {len(v[0]) for v in by.values()}
    dts = {v[1] for v in by.values()}
    if len(n) != 1 or max(dts) - min(dts) > 1e-8:
        return None
    return {"ns": by["N"][0], "ew": by["E"][0], "vt": by["Z"][0], "dt": by["N"][1], "deg": 0.0}


# ------------------------------------------------ tolerant scans (damaged text files) ----
def scan_rows(fmt, data):
    """Tolerant scan of a (possibly damaged) SAF or MiniShark file: the header count, the channel
    mapping and every WELL-FORMED data row in file order.  Returns None when the header itself
    cannot be understood.  dict(n=header count, rows=int array [k,3] in (vt, ns, ew) order,
    tail_row=(vt,ns,ew) or None when the text after the last newline is itself a complete row,
    junk=number of non-empty data lines that are not well formed)."""
    try:
        text = data.decode("utf-8")
    except UnicodeDecodeError:
        return None
    text = text.replace("\r\n", "\n").replace("\r", "\n")      # universal newlines, as the readers see them
    if fmt == "saf":
        m = re.search(r"NDAT = (\d+)\n", text)
        ids = {k: re.search(r"CH(\d)_ID = %s" % k, text) for k in "VNE"}
        sep = text.find("####")
        if not m or not all(ids.values()) or sep < 0:
            return None
        cols = [int(ids[k].group(1)) for k in "VNE"]
        if sorted(cols) != [0, 1, 2]:
            return None
        body = text[text.find("\n", sep) + 1:] if text.find("\n", sep) >= 0 else ""
        pat = re.compile(r"(-?\d+)[ \t](-?\d+)[ \t](-?\d+)")
    elif fmt == "minishark":
        m = re.search(r"#Sample number:\t(\d+)\n", text)
        if not m:
            return None
        cols = [0, 1, 2]
        lines = text.split("\n")
        k = 0
        while k < len(lines) and lines[k].startswith("#"):
            k += 1
        body = "\n".join(lines[k:])
        pat = re.compile(r"(-?\d+)\t(-?\d+)\t(-?\d+)")
    else:
        return None
    complete, _, tail = body.rpartition("\n") if "\n" in body else ("", "", body)
    rows, junk = [], 0
    for line in (complete.split("\n") if complete or "\n" in body else []):
        mm = pat.fullmatch(line)
        if mm:
            v = [int(x) for x in mm.groups()]
            rows.append([v[cols[0]], v[cols[1]], v[cols[2]]])
        elif line.strip():
            junk += 1
    tail_row = None
    mm = pat.fullmatch(tail)
    if mm:
        v = [int(x) for x in mm.groups()]
        tail_row = [v[cols[0]], v[cols[1]], v[cols[2]]]
    elif tail.strip():
        junk += 1
    return {"n": int(m.group(1)), "rows": np.array(rows, dtype=np.int64).reshape(-1, 3), "tail_row": tail_row, "junk": junk}
