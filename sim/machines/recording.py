"""Recording machine (DESIGN 3.5): trim / filter / detrend / taper / orient /
split / copy / edit / save / load histories on a simulated disk.  Oracle of C18."""
import copy
import os
import json
import warnings

import numpy as np

from ..core import Ctx, Violation, HarnessError, SimCrash, rng_for, np_rng, canon, sha_array, bits_equal
from ..simfs import SimFS, SimDisk, Patched
from ..snapshot import snap, semantic_snap, diff as snapdiff

ISOLATE = "chunk"   # every chunk of consecutive runs starts in a forked child of a pristine process (see hvsrobj.py)

PROPS = ("C18",)
MAX_POOL = 8

_hv = None


def hv():
    global _hv
    if _hv is None:
        from ..env import import_hvsrpy
        _hv = import_hvsrpy()
    return _hv


# ===================================================================== generation
RATES = [50, 75, 100, 128, 200, 250, 300]


def generate(seed, prop):
    rng = rng_for(seed)
    n_rec = rng.randint(1, 3)
    long_world = rng.random() < 0.04                      # an hour-long record: relative tolerances span several samples
    recs = [{"k": rng.randrange(1 << 30), "n": rng.randint(100, 3000) if not long_world else rng.randint(150000, 400000),
             "rate": rng.choice(RATES),
             "deg": rng.choice([0.0, 0.0, 33.0, 359.5, 400.0, -20.0]),
             "meta": {"site": "S%d" % i, "nested": {"list": [1, 2, 3]}, "tuple_like": [0.5, 2]}} for i in range(n_rec)]
    fault_rate = rng.choice([0.0, 0.0, 0.2, 0.5])
    w = {"trim": 3.0, "filter": 1.5, "detrend": 1.5, "window": 1.5, "orient": 1.5, "split": 1.5,
         "copy": 2.0, "ts_copy": 1.0, "construct": 1.0, "ts_split": 1.2, "ts_from_array": 1.0, "edit_caller_array": 1.0,
         "ts_method": 1.0, "edit_samples": 2.5, "edit_meta": 1.0, "set_dt": 0.6,
         "assign_samples": 0.7, "save": 3.0, "load": 3.0, "use": 0.8}
    for k in list(w):
        if rng.random() < 0.12 and k not in ("save", "load"):
            w[k] = 0.0
    if long_world:
        recs = recs[:1]
        for k in w:
            if k not in ("trim", "copy", "orient"):
                w[k] = 0.0
        w["trim"] = 3.0
    names = [k for k in w if w[k] > 0]
    ops = []
    from ..core import deep
    for _ in range((rng.randint(3, 44 if deep() else 22)) if not long_world else rng.randint(2, 5)):
        name = rng.choices(names, [w[k] for k in names])[0]
        ops.append(draw_op(rng, name, fault_rate))
    rename_paths(rng, ops)
    return {"machine": "recording", "property": prop, "run_seed": int(seed),
            "config": {"weights": w, "fault_rate": fault_rate},
            "world": {"records": recs}, "ops": ops, "faults": []}


# file names: plain '<x>.json', and station-style names as the package's own sample data carry them (NETWORK.STATION.CONFIG,
# numbered parts, versions) - several dots, no '.json' ending, pairs that differ only after the last dot
DOTTED = [["UT.STN11.A2_C50", "UT.STN11.A2_C150", "UT.STN12.A2_C50"], ["site.001", "site.002", "site.json"],
          ["rec.v1.json", "rec.v2.json", "rec"], ["a.b.json", "a.c.json", "a.json"], ["run 1/x.json", "run 1/x.JSON", "run 1/x"]]


def draw_path(rng):
    return "/simfs/r/" + rng.choice(["a", "b", "c"]) + ".json"


def rename_paths(rng, ops):
    """A run uses one naming style for its files (drawn per run, so that the names of a run can collide or not)."""
    if rng.random() < 0.3:
        names = rng.choice(DOTTED)
        table = {"/simfs/r/%s.json" % x: "/simfs/r/" + n for x, n in zip("abc", names)}
        for o in ops:
            if o.get("path") in table:
                o["path"] = table[o["path"]]


def draw_op(rng, name, fault_rate):
    i = rng.randrange(16)
    if name == "trim":
        # times are expressed as fractions of the record's duration (resolved at run time)
        kind = rng.choice(["inside", "inside", "on_sample", "between", "outside_end", "negative", "inverted", "whole",
                           "just_past_end", "near_end"])
        return {"op": "trim", "i": i, "kind": kind, "a": rng.random(), "b": rng.random(),
                "off": rng.choice([0.0, 0.25, 0.4, 0.49, 0.51, 0.75]),
                # times taken from an array are numpy scalars (float64, or an integer number of seconds)
                "num": rng.choice(["float"] * 5 + ["np64", "npint"]),
                # fault injection: the trim of the k-th component fails (an allocation failure); the caller repeats the call
                "fault": {"at": rng.randrange(3)} if rng.random() < 0.06 else None}
    if name == "filter":
        return {"op": "filter", "i": i, "fcs": rng.choice([[0.5, None], [None, 10.0], [0.5, 10.0], [None, None]]),
                "order": rng.choice([2, 5])}
    if name == "detrend":
        return {"op": "detrend", "i": i, "type": rng.choice(["linear", "constant"])}
    if name == "window":
        return {"op": "window", "i": i, "width": rng.choice([0.0, 0.1, 0.5, 1.0])}
    if name == "orient":
        return {"op": "orient", "i": i, "deg": rng.choice([0.0, 45.0, 90.0, 400.0, -30.0, 720.0, 123.456]),
                "num": rng.choice(["float"] * 5 + ["np64", "npint", "np32"])}
    if name == "split":
        return {"op": "split", "i": i, "frac": rng.choice([0.2, 0.34, 0.5, 0.99, 1.5])}
    if name in ("copy", "ts_copy", "construct"):
        return {"op": name, "i": i, "comp": rng.choice(["ns", "ew", "vt"])}
    if name == "ts_split":
        return {"op": name, "i": i, "comp": rng.choice(["ns", "ew", "vt"]), "frac": rng.choice([0.2, 0.34, 0.5])}
    if name == "ts_from_array":
        return {"op": name, "k": rng.randrange(1 << 30), "n": rng.randint(50, 400), "rate": rng.choice(RATES),
                "dtype": rng.choice(["float64", "float64", "float32", "int64", "list"])}
    if name == "edit_caller_array":
        return {"op": name, "i": i, "k": rng.randrange(1000), "delta": rng.choice([1.0, -3.0])}
    if name == "ts_method":
        return {"op": name, "i": i, "method": rng.choice(["window", "detrend", "filter", "trim"]), "width": rng.choice([0.1, 0.5, 1.0])}
    if name in ("edit_samples", "assign_samples"):
        return {"op": name, "i": i, "comp": rng.choice(["ns", "ew", "vt"]), "k": rng.randrange(1000),
                "delta": rng.choice([1.0, -2.5, 1e6]),
                # special but legal sample values (a clipped channel, a gap marker, a dead sensor)
                "set": rng.choice([None] * 8 + ["inf", "-inf", "nan", "-0.0", "tiny", "huge"])}
    if name == "use":
        # read-only uses of the live recordings between the operations (none of them may change anything, and what
        # they leave behind inside the objects - memoised vectors, say - must not influence later operations)
        return {"op": name, "i": i, "how": rng.choice(["time", "time", "str", "compare", "plot_records", "plot_records",
                                                      "sta_lta"])}
    if name == "set_dt":
        # the header carried a wrong sampling rate: the user corrects the time step of the three components in place
        # (dt_in_seconds is a plain public attribute)
        return {"op": name, "i": i, "factor": rng.choice([0.5, 2.0, 1.25, 0.1])}
    if name == "edit_meta":
        return {"op": name, "i": i, "key": rng.choice(["site", "note", "edited"]), "value": rng.choice(["x", 7, [1, 2]])}
    if name == "save":
        op = {"op": "save", "i": i, "path": draw_path(rng)}
        if rng.random() < fault_rate:
            op["fault"] = {"kind": rng.choice(["enospc", "eio_write", "crash_in_write", "short_write"]),
                           "frac": rng.choice([0.0, 0.05, 0.5, 0.95, 0.999])}
        return op
    if name == "load":
        op = {"op": "load", "path": draw_path(rng)}
        if rng.random() < fault_rate:
            op["fault"] = {"kind": "eio_read", "at": rng.choice([0, 1, 2])}
        return op
    raise ValueError(name)


# ===================================================================== helpers
def make_record(H, spec):
    g = np_rng(spec["k"])
    n, dt = spec["n"], 1.0 / spec["rate"]
    comps = [H.TimeSeries(np.cumsum(g.normal(0, 1, n)) * 0.1 + g.normal(0, 1, n), dt) for _ in range(3)]
    return H.SeismicRecording3C(*comps, degrees_from_north=spec["deg"], meta=copy.deepcopy(spec["meta"]))


def sample_arrays(o, H):
    if isinstance(o, H.TimeSeries):
        return [o.amplitude]
    return [o.ns.amplitude, o.ew.amplitude, o.vt.amplitude]


def jsonish(x):
    """Content of a metadata value as JSON keeps it (tuples become lists; numpy scalars are the numbers they hold)."""
    return json.loads(json.dumps(x, default=lambda o: o.tolist() if isinstance(o, (np.generic, np.ndarray)) else str(o)))


def saved_view(o):
    """What a save must preserve (taken at save time)."""
    return {"ns": np.array(o.ns.amplitude), "ew": np.array(o.ew.amplitude), "vt": np.array(o.vt.amplitude),
            "dt": o.ns.dt_in_seconds, "deg": float(o.degrees_from_north), "meta": jsonish(o.meta)}


def nearest_candidates(n, dt, t):
    times = np.arange(n) * dt
    d = np.abs(times - t)
    m = d.min()
    return set(np.nonzero(d <= m * (1 + 1e-9) + 1e-12 * dt)[0].tolist())


class State:
    pass


def recordings(st, H):
    return [(j, o) for j, o in enumerate(st.pool) if isinstance(o, H.SeismicRecording3C)]


def pick(st, H, i, kind="rec"):
    cands = [o for o in st.pool if isinstance(o, H.SeismicRecording3C if kind == "rec" else H.TimeSeries)]
    if not cands:
        return None
    return cands[i % len(cands)]


def add(st, o):
    st.pool.append(o)
    while len(st.pool) > MAX_POOL:
        st.pool.pop(0)


# ===================================================================== execute
def execute(triple, prop):
    H = hv()
    import hvsrpy.seismic_recording_3c as SR
    ctx = Ctx(prop)
    st = State()
    st.pool = []
    st.fs = SimFS(SimDisk(), ctx)
    st.saved = {}
    st.torn = set()
    st.caller_arrays = []
    violation = None
    last = []
    try:
        with warnings.catch_warnings():
            warnings.simplefilter("ignore")
            for spec in triple["world"]["records"]:
                st.pool.append(make_record(H, spec))
            ctx.event(op="build", recs=[sha_array(o.ns.amplitude) for o in st.pool])
            with Patched(st.fs, modules=(SR,)):
                for op in triple["ops"]:
                    step(ctx, st, op, H)
                    ctx.ops_done += 1
                    last = (last + [op["op"]])[-3:]
                    ctx.signature(",".join(last), st.alias_kind, st.fault_kind)
    except Violation as v:
        violation = v.as_dict()
        ctx.event(violation=violation["oracle"])
    nontrivial = sum(ctx.judged.values()) > 0 and ctx.state_changes > 0
    return {"violation": violation, "digest": ctx.digest(), "probes": dict(ctx.probes),
            "faults": dict(ctx.faults), "ops": ctx.ops_done, "judged": dict(ctx.judged),
            "sigs": list(ctx.sig) if nontrivial else [], "nontrivial": bool(nontrivial),
            "known": ctx.known, "sim_seconds": 0.0}


def step(ctx, st, op, H):
    name = op["op"]
    st.alias_kind, st.fault_kind = "none", "none"
    before = [semantic_snap(o) for o in st.pool]
    ids_before = list(st.pool)
    targets = []          # objects the operation is allowed to change
    created = []
    info = None
    rec = pick(st, H, op.get("i", 0), "rec")
    if name == "trim" and rec is not None:
        n, dt = rec.ns.n_samples, rec.ns.dt_in_seconds
        T = (n - 1) * dt
        a, b = sorted([op["a"], op["b"]])
        kind = op["kind"]
        if kind == "on_sample":
            s, e = int(a * (n - 1)) * dt, int(b * (n - 1)) * dt
        elif kind == "between":
            s, e = (int(a * (n - 1)) + op["off"]) * dt, (int(b * (n - 1)) + op["off"]) * dt
        elif kind == "outside_end":
            s, e = a * T, T + (0.5 + b) * dt * 3
            if op["off"] in (0.25, 0.4, 0.49):
                e = T + op["off"] * dt                       # only a fraction of a sample past the end
        elif kind == "just_past_end":
            s, e = a * T * 0.5, T * (1 + 3e-7) + 1e-9          # a hair beyond the last sample: outside the record
        elif kind == "near_end":
            s, e = a * T * 0.5, T - (1.0 + op["off"]) * dt      # one to two samples before the last one
        elif kind == "negative":
            s, e = -(0.1 + a) * dt * 5, b * T
        elif kind == "inverted":
            s, e = b * T, a * T
        elif kind == "whole":
            s, e = 0.0, T
        else:
            s, e = a * T, b * T
        s, e = float(s), float(e)
        if op.get("num") == "npint" and T > 4:
            s, e = float(int(s)), float(max(int(e), int(s) + 1))      # whole seconds
        s_arg, e_arg = s, e
        if op.get("num") == "np64":
            s_arg, e_arg = np.float64(s), np.float64(e)
        elif op.get("num") == "npint" and T > 4:
            s_arg, e_arg = np.int64(s), np.int64(e)
        old = [np.array(x) for x in sample_arrays(rec, H)]
        exc = None
        if op.get("fault") and os.environ.get("VERIF_TRIM_FAULTS", "1") != "0":
            real_trim, calls = H.TimeSeries.trim, [0]

            def failing_trim(self_, *a_, **k_):
                calls[0] += 1
                if calls[0] - 1 == op["fault"]["at"]:
                    raise MemoryError("injected failure in the trim of one component")
                return real_trim(self_, *a_, **k_)
            H.TimeSeries.trim = failing_trim
            try:
                rec.trim(s_arg, e_arg)
            except MemoryError:
                ctx.fault("raise_in_component_trim")
            except Exception:                               # noqa  (refused for its own reasons before the fault)
                pass
            finally:
                H.TimeSeries.trim = real_trim
            # faults have stopped: the caller repeats the identical call; it is judged below like any other trim,
            # against the samples the recording had before the first attempt
        try:
            rec.trim(s_arg, e_arg)
        except Exception as ex:                              # noqa
            exc = ex
        targets = [rec]
        outside = s < 0 or e > T * (1 + 1e-12) + 1e-12
        valid = (0 <= s < e) and (e <= T * (1 - 1e-12)) and (e - s) > dt
        key = {"kind": kind}
        if outside and not (abs(e - T) <= 1e-9 * max(T, 1)):
            ctx.check(isinstance(exc, IndexError), "trim_outside_not_refused",
                      lambda: f"trim({s!r}, {e!r}) on a record of duration {T!r} " + ("returned normally" if exc is None else f"raised {type(exc).__name__}"),
                      key=key)
            ctx.probe("trim_refused")
        if exc is not None:
            for x0, x1 in zip(old, sample_arrays(rec, H)):
                ctx.check(bits_equal(x0, x1), "refused_trim_changed_samples", "a refused trim altered the samples", key=key)
        elif valid:
            ci, cj = nearest_candidates(n, dt, s), nearest_candidates(n, dt, e)
            for x0, x1, comp in zip(old, sample_arrays(rec, H), ("ns", "ew", "vt")):
                ok = any(len(x1) == j - i + 1 and bits_equal(x0[i:j + 1], x1) for i in ci for j in cj)
                ctx.check(ok, "trim_wrong_samples",
                          lambda: f"trim({s!r}, {e!r}) (dt={dt!r}, n={n}) kept {len(x1)} samples of {comp}; expected samples "
                                  f"{sorted(ci)}..{sorted(cj)} (nearest to start/end)", key=key)
            ctx.probe("trim_judged")
            if len(ci) > 1 or len(cj) > 1:
                ctx.probe("trim_tie")
        if exc is None and not valid and not outside:
            ctx.probe("trim_degenerate_accepted")
        ctx.state_changes += 1
        info = [s, e, type(exc).__name__ if exc else None]
    elif name in ("filter", "detrend", "window", "orient") and rec is not None:
        targets = [rec]
        try:
            if name == "filter":
                rec.butterworth_filter(tuple(op["fcs"]), order=op["order"])
            elif name == "detrend":
                rec.detrend(op["type"])
            elif name == "window":
                rec.window("tukey", op["width"])
            else:
                d_ = op["deg"]
                if op.get("num") == "np64":
                    d_ = np.float64(d_)
                elif op.get("num") == "np32":
                    d_ = np.float32(d_)
                elif op.get("num") == "npint" and float(d_).is_integer():
                    d_ = np.int64(d_)
                rec.orient_sensor_to(d_)
        except Exception as ex:                              # noqa
            info = type(ex).__name__
        ctx.state_changes += 1
    elif name == "split" and rec is not None:
        T = (rec.ns.n_samples - 1) * rec.ns.dt_in_seconds
        targets = [rec]                   # split records its length in the source's meta
        try:
            wins = rec.split(max(op["frac"] * T, rec.ns.dt_in_seconds * 3))
            for w in wins[:3]:
                add(st, w)
                created.append(w)
            st.alias_kind = "split"
            ctx.probe("split_created")
        except ValueError:
            info = "ValueError"
        ctx.state_changes += 1
    elif name == "copy" and rec is not None:
        c = H.SeismicRecording3C.from_seismic_recording_3c(rec)
        ctx.check(snap_eq_samples(rec, c, H), "copy_differs", "copy constructor did not reproduce the samples")
        add(st, c)
        created.append(c)
        st.alias_kind = "copy"
        ctx.state_changes += 1
    elif name == "ts_copy" and rec is not None:
        src = getattr(rec, op["comp"])
        c = H.TimeSeries.from_timeseries(src)
        ctx.check(bits_equal(src.amplitude, c.amplitude), "copy_differs", "TimeSeries copy constructor did not reproduce the samples")
        add(st, c)
        created.append(c)
        st.alias_kind = "ts_copy"
        ctx.state_changes += 1
    elif name == "construct":
        ts = [o for o in st.pool if isinstance(o, H.TimeSeries)]
        base = pick(st, H, op["i"], "ts")
        if base is not None:
            same = [t for t in ts if t.n_samples == base.n_samples and abs(t.dt_in_seconds - base.dt_in_seconds) < 1e-12]
            trio = [same[(op["i"] + q) % len(same)] for q in range(3)]
            c = H.SeismicRecording3C(*trio, degrees_from_north=10.0, meta={"made": "from parts"})
            add(st, c)
            created.append(c)
            st.alias_kind = "ctor_arg"
            ctx.probe("constructed_from_caller_timeseries")
            ctx.state_changes += 1
    elif name == "ts_split":
        src = None
        ts_pool = [o for o in st.pool if isinstance(o, H.TimeSeries)]
        if ts_pool and op["i"] % 2:
            src = ts_pool[op["i"] % len(ts_pool)]
        elif rec is not None:
            src = H.TimeSeries.from_timeseries(getattr(rec, op["comp"]))
            add(st, src)
            created.append(src)
        if src is not None:
            T = (src.n_samples - 1) * src.dt_in_seconds
            try:
                wins = src.split(max(op["frac"] * T, src.dt_in_seconds * 3))
                for w in wins[:3]:
                    add(st, w)
                    created.append(w)
                st.alias_kind = "ts_split"
                ctx.probe("ts_split_created")
            except ValueError:
                info = "ValueError"
            ctx.state_changes += 1
    elif name == "ts_from_array":
        g = np_rng(op["k"])
        vals = np.round(g.normal(0, 100, op["n"]))
        arr = vals.tolist() if op["dtype"] == "list" else vals.astype(op["dtype"])
        t = H.TimeSeries(arr, 1.0 / op["rate"])
        ctx.check(np.array_equal(t.amplitude, np.asarray(vals, float)), "constructor_altered_samples", "TimeSeries(array) does not hold the samples given")
        if not isinstance(arr, list):
            st.caller_arrays.append(arr)
            st.caller_arrays = st.caller_arrays[-4:]
        add(st, t)
        created.append(t)
        st.alias_kind = "ctor_array"
        ctx.probe("timeseries_from_caller_array")
        ctx.state_changes += 1
    elif name == "edit_caller_array":
        if st.caller_arrays:
            a = st.caller_arrays[op["i"] % len(st.caller_arrays)]
            a[op["k"] % len(a)] += op["delta"]
            st.alias_kind = "caller_array_edit"
            ctx.probe("edited_caller_array")
            ctx.state_changes += 1
    elif name == "ts_method":
        ts_pool = [o for o in st.pool if isinstance(o, H.TimeSeries)]
        if ts_pool:
            t = ts_pool[op["i"] % len(ts_pool)]
            targets = [t]
            try:
                if op["method"] == "window":
                    t.window("tukey", op["width"])
                elif op["method"] == "detrend":
                    t.detrend("linear")
                elif op["method"] == "filter":
                    t.butterworth_filter((None, 0.2 / t.dt_in_seconds), order=3)
                else:
                    T = (t.n_samples - 1) * t.dt_in_seconds
                    t.trim(0.1 * T, 0.8 * T)
            except Exception as ex:                          # noqa
                info = type(ex).__name__
            st.alias_kind = "ts_inplace_" + op["method"]
            ctx.state_changes += 1
    elif name in ("edit_samples", "assign_samples"):
        o = st.pool[op["i"] % len(st.pool)] if st.pool else None
        if o is not None:
            ts = o if isinstance(o, H.TimeSeries) else getattr(o, op["comp"])
            targets = [o]
            if name == "edit_samples" and op.get("set"):
                ts.amplitude[op["k"] % ts.n_samples] = {"inf": np.inf, "-inf": -np.inf, "nan": np.nan, "-0.0": -0.0,
                                                         "tiny": 5e-324, "huge": 1.7976931348623157e308}[op["set"]]
                ctx.probe("special_sample_value")
            elif name == "edit_samples":
                ts.amplitude[op["k"] % ts.n_samples] += op["delta"]
            else:
                ts.amplitude = np.array(ts.amplitude) * 0.5
            ctx.probe("edited_samples")
            ctx.state_changes += 1
    elif name == "use":
        recs_ = [o for o in st.pool if isinstance(o, H.SeismicRecording3C)]
        how = op["how"]
        try:
            if how == "time":
                for o in st.pool:
                    for t in ([o] if isinstance(o, H.TimeSeries) else [o.ns, o.ew, o.vt]):
                        tv = t.time()
                        ctx.check(len(tv) == t.n_samples and tv[0] == 0.0, "time_vector", "time() is not the record's time axis")
            elif how == "str":
                for o in st.pool:
                    str(o), repr(o)
            elif how == "compare" and len(recs_) >= 2:
                a_, b_ = recs_[op["i"] % len(recs_)], recs_[(op["i"] + 1) % len(recs_)]
                a_.is_similar(b_), a_ == b_, a_ != b_
            elif how == "plot_records" and recs_:
                import matplotlib.pyplot as plt
                try:
                    H.plot_seismic_recordings_3c(recs_ if len(recs_) > 1 or op["i"] % 2 else recs_[0])
                finally:
                    plt.close("all")
                ctx.probe("records_plotted")
            elif how == "sta_lta" and recs_:
                dt_ = recs_[0].vt.dt_in_seconds
                same = [r for r in recs_ if r.vt.dt_in_seconds == dt_ and r.vt.n_samples >= 20]
                if same:
                    H.sta_lta_window_rejection(same, sta_seconds=4 * dt_, lta_seconds=16 * dt_, min_sta_lta_ratio=0.1,
                                               max_sta_lta_ratio=5.0)
        except Violation:
            raise
        except Exception as ex:                              # noqa  (a use that fails is of no interest here)
            info = type(ex).__name__
        ctx.probe("read_only_use")
    elif name == "set_dt" and rec is not None:
        targets = [rec]
        new_dt = rec.ns.dt_in_seconds * op["factor"]
        for c_ in ("ns", "ew", "vt"):
            getattr(rec, c_).dt_in_seconds = new_dt
        ctx.probe("time_step_corrected_in_place")
        ctx.state_changes += 1
    elif name == "edit_meta" and rec is not None:
        targets = [rec]
        rec.meta[op["key"]] = copy.deepcopy(op["value"])
        ctx.state_changes += 1
    elif name == "save" and rec is not None:
        path = op["path"]
        fault = copy.deepcopy(op.get("fault"))
        view = saved_view(rec)
        try:                                           # without any fault, a recording in any reachable state can be saved
            chk = SimFS(SimDisk(), None)
            with Patched(chk, modules=(__import__("hvsrpy.seismic_recording_3c", fromlist=["x"]),)):
                rec.save(path)
        except Exception as ex:                          # noqa
            ctx.check(False, "save_raised", f"save() of a recording raised {type(ex).__name__}: {ex} "
                      f"(orientation {rec.degrees_from_north!r}, meta keys {sorted(map(str, rec.meta))})", key={"exc": type(ex).__name__})
            return
        if fault:
            dry = SimFS(SimDisk(), None)               # dry run on a scratch disk: how long is this write?
            with Patched(dry, modules=(__import__("hvsrpy.seismic_recording_3c", fromlist=["x"]),)):
                rec.save(path)
            size = max([len(b_) for b_ in dry.disk.files.values()] or [1])   # whatever name the save gives its file
            fault["at"] = min(max(0, int(fault["frac"] * size)), size - 1)
            live = st.fs.arm(fault)          # applies to whatever file the save opens (also a temporary name)
            st.fault_kind = fault["kind"]
            try:
                rec.save(path)
                ctx.check(fault["kind"] == "short_write" or not live.get("fired"), "write_fault_swallowed",
                          f"{fault['kind']} during save but the call returned normally", key={"kind": fault["kind"]})
                st.saved[path] = view
            except SimCrash:
                st.fs.disarm()
                ctx.probe("crash_restart")
                st.saved.pop(path, None)
                st.torn.add(path)
                st.pool = []                                  # restart: only the disk survives
                before, ids_before = [], []
            except OSError:
                st.fs.disarm()
                ctx.probe("write_failed")
                st.saved.pop(path, None)
                rec.save(path)                                # faults stop: one retry succeeds
                ctx.probe("write_retry_succeeded")
                st.saved[path] = view
            finally:
                st.fs.disarm()
        else:
            rec.save(path)
            st.saved[path] = view
        st.torn.discard(path) if path in st.saved else None
        ctx.state_changes += 1
    elif name == "load":
        path = op["path"]
        if path in st.saved:
            fault = copy.deepcopy(op.get("fault"))
            if fault:
                fault["path"] = path
                st.fs.arm(fault)
                st.fault_kind = "eio_read"
                try:
                    H.SeismicRecording3C.load(path)
                    if st.fs.armed and st.fs.armed.get("fired"):
                        ctx.check(False, "read_fault_swallowed", "eio_read during load was swallowed")
                except OSError:
                    ctx.probe("read_failed")
                except Exception as ex:                      # noqa  (not the injected error: the file itself is bad)
                    ctx.check(False, "load_raised_after_completed_save",
                              f"loading a file written by a save that completed normally raised {type(ex).__name__}: {ex}",
                              key={"op": "load"})
                finally:
                    st.fs.disarm()
            key = {"op": "load"}
            try:
                got = H.SeismicRecording3C.load(path)
            except Exception as ex:                          # noqa
                ctx.check(False, "load_raised_after_completed_save",
                          f"loading a file written by a save that completed normally raised {type(ex).__name__}: {ex}", key=key)
                got = None
            if got is None:
                return
            v = st.saved[path]
            for comp in ("ns", "ew", "vt"):
                ctx.check(bits_equal(getattr(got, comp).amplitude, v[comp]), "roundtrip_samples_differ",
                          lambda: f"{comp} samples differ after save/load "
                                  f"({int(np.sum(np.asarray(getattr(got, comp).amplitude) != v[comp])) if len(getattr(got, comp).amplitude) == len(v[comp]) else 'length'} differ)",
                          key=key)
            ctx.check(got.ns.dt_in_seconds == v["dt"] and got.ew.dt_in_seconds == v["dt"] and got.vt.dt_in_seconds == v["dt"],
                      "roundtrip_dt_differs", f"dt {got.ns.dt_in_seconds!r} != {v['dt']!r}", key=key)
            dd = (float(got.degrees_from_north) - v["deg"]) % 360.0
            ctx.check(min(dd, 360.0 - dd) < 1e-9, "roundtrip_orientation_differs",
                      f"orientation {got.degrees_from_north!r} != {v['deg']!r} (mod 360)", key=key)
            ctx.check(canon(jsonish(got.meta)) == canon(v["meta"]), "roundtrip_meta_differs",
                      lambda: f"meta {str(jsonish(got.meta))[:100]} != {str(v['meta'])[:100]}", key=key)
            add(st, got)
            created.append(got)
            ctx.probe("roundtrip_judged")
            ctx.state_changes += 1
        elif path in st.torn and st.fs.exists(path):
            try:
                H.SeismicRecording3C.load(path)
                ctx.probe("torn_file_accepted_silently")
            except Exception:                                 # noqa
                ctx.probe("torn_file_refused")
    # ---- frame condition: only the targets may have changed
    for o, b in zip(ids_before, before):
        if any(o is t for t in targets) or not any(o is p for p in st.pool):
            continue
        d = snapdiff(b, semantic_snap(o))
        ctx.check(d is None, "other_object_changed",
                  lambda: f"{name} changed an object that was not its target: {d}",
                  key={"op": name, "alias": st.alias_kind})
    # ---- no two live objects share sample storage
    arrs = [(j, a) for j, o in enumerate(st.pool) for a in sample_arrays(o, H)]
    for x in range(len(arrs)):
        for y in range(x + 1, len(arrs)):
            if arrs[x][0] != arrs[y][0] and np.shares_memory(arrs[x][1], arrs[y][1]):
                ctx.check(False, "shared_sample_storage",
                          f"after {name}: objects #{arrs[x][0]} and #{arrs[y][0]} of the pool share sample storage",
                          key={"op": name, "alias": st.alias_kind})
    for ci, ca in enumerate(st.caller_arrays):
        for j, a in arrs:
            if np.shares_memory(ca, a):
                ctx.check(False, "shared_sample_storage",
                          f"after {name}: object #{j} of the pool shares sample storage with an array still held by the caller",
                          key={"op": name, "alias": "caller_array"})
    ctx.judged["no_shared_storage"] += 1
    # components inside one recording are distinct too
    for j, o in enumerate(st.pool):
        if isinstance(o, H.SeismicRecording3C):
            a = sample_arrays(o, H)
            if np.shares_memory(a[0], a[1]) or np.shares_memory(a[0], a[2]) or np.shares_memory(a[1], a[2]):
                ctx.check(False, "shared_sample_storage", f"after {name}: components of recording #{j} share storage",
                          key={"op": name, "alias": "components"})
    # nested meta sharing is probe-counted only (the property speaks of sample storage)
    for c in created:
        if isinstance(c, H.SeismicRecording3C) and rec is not None and c is not rec:
            if any(isinstance(v, (list, dict)) and any(v is w for w in rec.meta.values()) for v in c.meta.values()):
                ctx.probe("meta_nested_shared_with_source")
    ctx.event(op=name, info=info, pool=[sha_array(a) for o in st.pool for a in sample_arrays(o, H)],
              disk=sorted(st.fs.disk.files))


def snap_eq_samples(a, b, H):
    return all(bits_equal(x, y) for x, y in zip(sample_arrays(a, H), sample_arrays(b, H)))


def shrinks(t, prop):
    for i, r in enumerate(t["world"]["records"]):
        if r["n"] > 120:
            c = copy.deepcopy(t)
            c["world"]["records"][i]["n"] = 101
            yield c
    if len(t["world"]["records"]) > 1:
        c = copy.deepcopy(t)
        c["world"]["records"] = c["world"]["records"][:1]
        yield c
    for i, o in enumerate(t["ops"]):
        if o.get("fault"):
            c = copy.deepcopy(t)
            del c["ops"][i]["fault"]
            yield c


EVIDENCE = {"C18": {
    "components": {"real": ["SeismicRecording3C, TimeSeries (all editing methods, copy constructors, split, save/load), json, stdlib I/O stack"],
                   "stub": ["the raw storage device (SimFS, fault-injecting)"]},
    "assumptions": ["excluded: NaN trim bounds, the meta entry a refused trim leaves behind, nested meta values shared between a copy and its source (the property speaks of sample storage), non-string meta keys; a NaN sample equals any NaN (sign and payload are not kept by JSON)", "edits of meta are top-level assignments; nested meta values shared between a copy and its source are probe-counted, "
                    "not judged (the property speaks of sample storage)",
                    "trim ties (time exactly between two samples) accept either neighbour",
                    "start >= end or an interval shorter than one sample is outside the judged domain"],
}}
REQUIRED_PROBES = {"C18": ["roundtrip_judged", "trim_judged", "split_created", "time_step_corrected_in_place", "crash_restart"]}
