"""HVSR-object machine (DESIGN 3.2): operation histories on HvsrTraditional /
HvsrAzimuthal / HvsrDiffuseField / HvsrCurve, with the oracles of
C05, C06, C08, C11, C12 and C20.  Each check enables only its own oracles."""
import copy
import io
import json
import logging
import warnings

import numpy as np

from ..core import (gc_point, Ctx, Violation, SimCrash, HarnessError, rng_for, np_rng, canon,
                    sha_array, close, bits_equal)
from ..models import peaks as PK
from ..models import stats as ST
from ..models import fdwra as FD
from ..simfs import SimFS, Patched
from ..snapshot import snap, diff as snapdiff
from . import curves as CV

ISOLATE = "chunk"   # result objects may keep process-global state (module-level caches, memoised helpers): every chunk of
#                     consecutive runs starts in a forked child of a pristine process; a violation that needs the earlier
#                     runs of its chunk is replayed (and minimised) together with them

PROPS = ("C05", "C06", "C08", "C11", "C12", "C13", "C20")
DISTS = ("normal", "lognormal")

_hv = None


def hv():
    global _hv
    if _hv is None:
        from ..env import import_hvsrpy
        _hv = import_hvsrpy()
    return _hv


# ===================================================================== generation
def draw_range(rng, f):
    n = len(f)

    def bound():
        u = rng.random()
        i = rng.randrange(n)
        if u < 0.04:
            return 0.0                                           # zero is a legal bound (not 'no bound')
        if u < 0.055:
            return rng.choice([float("inf"), float("-inf")])     # an unbounded side written as infinity
        if u < 0.30:
            return float(f[i])                                   # on a sample
        if u < 0.60:
            j = min(i + 1, n - 1)
            t = rng.choice([0.1, 0.3, 0.45, 0.55, 0.7, 0.9])
            return float(f[i] + t * (f[j] - f[i]))               # between samples
        if u < 0.70:
            return float(f[i] * (1 + rng.choice([-1e-9, 1e-9])))  # a hair off a sample
        if u < 0.80:
            return float(f[0] * rng.choice([0.5, 0.9, 0.999]))   # below the grid
        if u < 0.90:
            return float(f[-1] * rng.choice([1.001, 1.1, 2.0]))  # above the grid
        return float(f[rng.choice([0, 1, n - 2, n - 1])])        # at a grid end
    u = rng.random()
    if u < 0.15:
        return [None, None]
    if u < 0.27:
        return [None, bound()]
    if u < 0.39:
        return [bound(), None]
    a, b = bound(), bound()
    if rng.random() < 0.9 and float(a) > float(b):
        a, b = b, a                                              # 10 %: left inverted
    return [a, b]


def draw_kwargs(rng):
    u = rng.random()
    if u < 0.55:
        return None
    if u < 0.85:
        return {}
    if u < 0.93:
        return {"prominence": rng.choice([0.01, 0.1, 0.5, 1.0])}
    if u < 0.95:
        return rng.choice([{"width": 2}, {"width": 3}, {"distance": 3}, {"height": 2.0}])
    # scipy takes (min, max) pairs for these options; a pair is a nested mutable value
    return rng.choice([{"height": [rng.choice([0.0, 1.0]), rng.choice([2.0, 4.0, None])]},
                       {"prominence": [rng.choice([0.01, 0.1]), rng.choice([0.5, 2.0, None])]}])


def _kind_for(prop, rng):
    if prop == "C08":
        return "multi"
    if prop == "C05":
        return "traditional"
    if prop == "C11":
        return "azimuthal"
    if prop == "C06":
        return "traditional" if rng.random() < 0.6 else "azimuthal"
    if prop == "C13":
        return "traditional" if rng.random() < 0.5 else "azimuthal"
    return rng.choice(["traditional", "traditional", "azimuthal", "azimuthal", "diffuse"])


def generate(seed, prop):
    rng = rng_for(seed)
    kind = _kind_for(prop, rng)
    grid = CV.draw_grid(rng)
    if prop in ("C20", "C08", "C05", "C12") and rng.random() < (0.12 if prop == "C20" else 0.05):
        grid = {"kind": "lin0", "hi": rng.choice([10.0, 25.0, 50.0]), "n": rng.choice([9, 17, 33])}
    if prop in ("C05", "C08", "C12", "C11") and rng.random() < 0.04:
        grid = {"kind": "fine", "lo": rng.choice([1.0, 40.0]), "n": rng.choice([12, 20, 30])}
    f = CV.gen_grid(grid)
    n_az = 1
    if kind in ("azimuthal", "multi"):
        n_az = rng.choice([1, 2, 2, 3, 3, 4, 5])
    equal = rng.random() < 0.75 or prop == "C13"     # (C13: one time window per curve on every azimuth)
    from ..core import deep
    nmax = (12 if prop != "C20" else 8) * (2 if deep() else 1)
    nmin = 1 if (kind == "azimuthal" and not equal and rng.random() < 0.5) else 2
    if prop == "C06" and rng.random() < 0.3:
        # large window sets on a fine grid: the tails are trimmed a few windows at a time over many
        # iterations, which is where the convergence test matters
        grid = {"kind": "geom", "lo": 0.2, "hi": 20.0, "n": rng.choice([60, 90, 120])}
        f = CV.gen_grid(grid)
        nmin, nmax = 40, 110
        n_az = 1 if kind == "traditional" else rng.choice([1, 2])
        azimuths = CV.draw_azimuths(rng, n_az, ends=prop in ("C11", "C05", "C06", "C08"))
    if prop == "C20" and rng.random() < 0.03:
        # hours of data cut into short windows: hundreds of curves in one panel
        grid = {"kind": "geom", "lo": 0.5, "hi": 20.0, "n": 8}
        f = CV.gen_grid(grid)
        nmin, nmax = 205, 260
        n_az = 1 if kind != "azimuthal" else rng.choice([1, 2])
        azimuths = CV.draw_azimuths(rng, n_az)
    curves = CV.draw_curve_sets(rng, len(f), n_az, equal_counts=equal, nmin=nmin, nmax=nmax)
    if nmin >= 40:
        for cs in curves:                      # resonances scattered around the centre like a (log)normal sample
            c0 = len(f) // 2
            for sp in cs:
                sd = len(f) / 24.0 if rng.random() < 0.8 else len(f) / 7.0      # a tight core with heavy tails
                sp.update({"r": "bump", "i0": int(min(max(round(rng.gauss(c0, sd)), 1), len(f) - 2)),
                           "w": 0.12, "noise": 0.0})
                sp.pop("at", None)
    bimodal = None
    if prop == "C06" and nmin < 40 and rng.random() < 0.4:
        # two resonances per curve (a low and a high mode, each scattered like a sample with outliers): which one the
        # mean curve's peak is depends on the search range, so consecutive rejections with different ranges on ONE
        # object visit the same accept states under different ranges
        grid = {"kind": "geom", "lo": 0.2, "hi": 20.0, "n": rng.choice([30, 45, 60, 90, 120])}
        f = CV.gen_grid(grid)
        nf = len(f)
        n_az = 1 if kind == "traditional" else rng.choice([1, 2])
        nw = rng.randint(10, 40) if rng.random() < 0.3 else rng.randint(40, 110)
        curves = []
        for _ in range(n_az):
            cs = []
            for _ in range(nw):
                sd = nf / 30.0 if rng.random() < 0.8 else nf / 9.0
                cs.append({"r": "twin", "k": rng.randrange(1 << 30), "w": rng.choice([0.1, 0.15]), "base": 1.0,
                           "a": rng.choice([2.0, 3.0, 4.0]), "eps": rng.choice([-0.3, -0.1, 0.1, 0.3]),
                           "i0": int(min(max(round(rng.gauss(nf // 4, sd)), 1), nf // 2 - 2)),
                           "i1": int(min(max(round(rng.gauss(3 * nf // 4, sd)), nf // 2 + 2), nf - 2))})
            curves.append(cs)
        bimodal = float(f[nf // 2])
    if kind == "diffuse":
        curves = [[curves[0][0]]]
    azimuths = CV.draw_azimuths(rng, n_az, ends=prop in ("C11", "C05", "C06", "C08"))
    world = {"kind": kind, "grid": grid, "azimuths": azimuths, "curves": curves,
             # (plots are kept at ordinary magnitudes: the contour plot's colour-bar code builds one tick per
             #  5 amplitude units, which is a resource question, not a property of C20)
             "ctor": rng.choice(["init", "init", "from_curves"]),
             "amp_scale": rng.choice([1.0] * 8 + ([1e-9, 1e9, 2.0 ** -20, 3.7] if prop != "C20" else [0.25, 3.7, 2.0, 1.0])),
             "meta": {"file name(s)": ["a.mseed"], "trim": [0.5, 10.25],
                      "note": "sim", "deployed degrees from north": 12.5,
                      "nested": {"a": [1, {"b": None}], "c": 1e-300}, "flag": True, "none": None, "unicode": "Å/µ"},
             "records": {"k": rng.randrange(1 << 30), "ns": rng.choice([400, 500, 640]),
                         "dt": rng.choice([0.01, 0.005, 0.02]),
                         "spike_p": rng.choice([0.0, 0.2, 0.5]),
                         # sensor orientation of the windows (0 after the default preprocessing, anything otherwise)
                         "deg": rng.choice([0.0, 0.0, "mixed", 30.0, -12.5, 360.0, 725.25])}}
    if prop in ("C05", "C11") and rng.random() < 0.2:
        # a few exactly-zero samples (log -> -inf): the lognormal curve statistics of THOSE columns are outside the
        # estimator's domain and are not judged; every other column is
        zs = []
        for _ in range(rng.randint(1, 3)):
            a_ = rng.randrange(len(curves))
            zs.append([a_, rng.randrange(len(curves[a_])), rng.randrange(grid["n"])])
        world["zeros"] = zs
    if prop == "C06" and rng.random() < 0.12:
        # an exactly-zero sample (a spectral hole; legal) in a few windows AT the frequency where the mean curve peaks:
        # under the lognormal assumption the mean curve is 0 there as long as such a window is accepted
        zs = []
        for a_ in range(len(curves)):
            amps_ = np.array([CV.gen_curve(f, sp_) for sp_ in curves[a_]])
            ipk = int(np.argmax(np.exp(np.mean(np.log(np.maximum(amps_, 1e-300)), axis=0))))
            for j_ in rng.sample(range(len(curves[a_])), min(len(curves[a_]), rng.randint(1, 2))):
                zs.append([a_, j_, min(max(ipk + rng.choice([0, 0, 0, -1, 1]), 0), len(f) - 1)])
        world["zeros"] = zs
    if prop == "C12" and rng.random() < 0.15:
        world["bare"] = True          # results built directly from arrays, without the meta entries process() would add
    if prop == "C12" and kind == "azimuthal" and rng.random() < 0.12:
        # the container is given the meta of the results it is made of (each carries the station's entries, and the label
        # of how IT was processed)
        world["az_meta"] = "member"
    if prop == "C13":
        from . import hvsrobj_td as TD
        world["records"] = TD.draw_records_world(rng, len(curves[0]))
    counts = [len(c) for c in curves]
    same_counts = len(set(counts)) == 1

    # swarm: op weights
    w = {"update_peaks": 4.0, "fdwra": 2.0, "set_masks": 2.0, "sta_lta": 0.6,
         "max_value": 0.6, "manual": 0.0, "write_read": 0.0, "plot": 0.0, "query": 1.0, "clone": 0.5}
    if rng.random() < 0.15:
        w["manual"] = 0.5
    if prop == "C08" and n_az > 1:
        w["update_member"] = 1.0
    if prop == "C08" and kind in ("multi", "azimuthal"):
        w["update_source"] = 0.7
    if prop == "C12" and kind == "azimuthal" and n_az > 1:
        w["update_member"] = 0.6
    if prop == "C06":
        w["fdwra"] = 5.0
        if kind == "azimuthal" and n_az > 1:
            w["update_member"] = 0.8       # one azimuth searched on its own before the rejection brings all to one range
    if prop == "C12":
        w["write_read"] = 3.0
        if kind != "diffuse":
            w["sibling"] = 1.2     # a second result built from the very same caller-owned meta dict / the container's sources
    if prop == "C20":
        w["plot"] = 3.0
        w["manual"] = 0.0
    if prop == "C13":
        w.update({"sta_lta": 4.0, "max_value": 3.0, "update_peaks": 2.0, "fdwra": 1.5, "set_masks": 2.0, "query": 0.5,
                  "edit_window": 1.5})
    for k in list(w):                         # randomly mute / boost some ops
        u = rng.random()
        if u < 0.15 and k not in ("write_read", "plot"):
            w[k] = 0.0
        elif u < 0.3:
            w[k] *= 3
    if prop == "C06" and w["fdwra"] == 0:
        w["fdwra"] = 5.0
    if prop == "C06" and (max(len(c) for c in curves) >= 40 or bimodal is not None):
        w["fdwra"] = 12.0                      # large sets: mostly the algorithm itself, from different entry states
    if not same_counts:
        w["sta_lta"] = w["max_value"] = 0.0
    if prop == "C13" and w["sta_lta"] == 0 and w["max_value"] == 0:
        w["sta_lta"] = 4.0
    if kind == "diffuse":
        for k in ("fdwra", "set_masks", "sta_lta", "max_value", "manual"):
            w[k] = 0.0
    fault_rate = 0.0
    if prop == "C12" and rng.random() < 0.5:
        fault_rate = rng.choice([0.15, 0.3, 0.6])
    max_ops = {"C20": 8, "C12": 10}.get(prop, 25)
    if deep():
        max_ops *= 2
    n_ops = rng.randint(1, max_ops) if rng.random() < 0.7 else rng.randint(1, 4)
    if not any(v > 0 for v in w.values()):
        w["update_peaks"] = 4.0
    names = [k for k in w if w[k] > 0]
    weights = [w[k] for k in names]
    ops = []
    n_plots = 0
    last_range = None
    last_alias = False
    last_ralias, last_rkwargs = False, None
    last_kw = None
    for _ in range(n_ops):
        name = rng.choices(names, weights)[0]
        if name == "plot":
            if n_plots >= 3:
                name = "update_peaks"
            n_plots += 1
        if prop == "C13" and name in ("sta_lta", "max_value"):
            o = TD.draw_td_op(rng, name, world)
        else:
            o = draw_op(rng, name, f, kind, curves, azimuths, fault_rate)
        if prop == "C20" and name == "set_masks" and rng.random() < 0.35:
            o["how"] = "assign_one"
        if bimodal is not None and "range" in o and name in ("fdwra", "update_peaks", "query"):
            o["range"] = rng.choice([[None, bimodal], [bimodal, None], [None, None], [float(f[1]), bimodal], o["range"]])
            if name == "fdwra":
                o["max_iterations"] = rng.choice([50, 50, 5])
                o["kwargs"] = rng.choice([None, None, {}])
        if grid.get("kind") == "fine" and name == "update_peaks":
            # on a very fine grid the interesting neighbours of a range are the ranges one or two samples away, asked for with
            # the very same (explicit) options
            o["kwargs"], o["kw_alias"], o["rnum"] = {}, False, "float"
            if last_range is not None and None not in last_range and rng.random() < 0.7:
                ia = int(np.argmin(np.abs(f - last_range[0])))
                ib = int(np.argmin(np.abs(f - last_range[1])))
                ia = min(max(ia + rng.choice([-2, -1, 0, 1, 2]), 0), len(f) - 1)
                ib = min(max(ib + rng.choice([-2, -1, 0, 1, 2]), 0), len(f) - 1)
                o["range"] = [float(f[min(ia, ib)]), float(f[max(ia, ib)])]
            else:
                ia, ib = sorted(rng.sample(range(len(f)), 2))
                o["range"] = [float(f[ia]), float(f[ib])]
        if "range" in o and name != "query":
            # biased schedule: repeat the range in use (with other kwargs / argument type) so that the
            # same-range short-circuit and 'only the kwargs changed' paths are exercised
            if last_range is not None and rng.random() < 0.25:
                o["range"] = list(last_range)
            if name == "update_peaks":
                # biased schedule: a sweep over the options with one dict edited in place and an unchanged range
                if o.get("kw_alias") and last_alias and last_range is not None and rng.random() < 0.6:
                    o["range"] = list(last_range)
                    if isinstance(last_kw, dict) and any(isinstance(v_, list) for v_ in last_kw.values()):
                        # the same option again, its (min, max) pair edited in place
                        k_ = next(k for k, v_ in last_kw.items() if isinstance(v_, list))
                        o["kwargs"] = {k_: [last_kw[k_][0], rng.choice([x for x in (0.5, 2.0, 4.0, None) if x != last_kw[k_][1]])]}
                last_kw = copy.deepcopy(o.get("kwargs"))
                last_alias = bool(o.get("kw_alias"))
                if o.get("r_alias") and last_ralias and rng.random() < 0.6:
                    # ... and a sweep over the range with one list edited in place and the very same explicit options
                    o["rtype"], o["kwargs"], o["kw_alias"] = "list", copy.deepcopy(last_rkwargs if last_rkwargs is not None else {}), False
                last_ralias = bool(o.get("r_alias")) and o.get("rtype") == "list"
                last_rkwargs = copy.deepcopy(o.get("kwargs"))
            last_range = list(o["range"])
        ops.append(o)
        if name == "update_peaks" and isinstance(o.get("kwargs"), dict) and rng.random() < 0.7 and \
                any(isinstance(v_, list) for v_ in o["kwargs"].values()):
            # biased schedule: a sweep over the upper limit of a (min, max) option - the caller keeps ONE options dict and
            # edits the pair in place; the range stays
            o["kw_alias"] = True
            k_ = next(k for k, v_ in o["kwargs"].items() if isinstance(v_, list))
            for _ in range(rng.randint(1, 2)):
                prev = ops[-1]["kwargs"][k_]
                ops.append({"op": "update_peaks", "range": list(o["range"]), "rnum": o.get("rnum", "float"),
                            "rtype": o.get("rtype", "tuple"), "kw_alias": True, "fault": None,
                            "kwargs": {k_: [prev[0], rng.choice([x for x in (0.5, 2.0, 4.0, None) if x != prev[1]])]}})
            last_alias, last_kw = True, copy.deepcopy(ops[-1]["kwargs"])
        if name == "update_peaks" and not plain_kwargs(o.get("kwargs")) and rng.random() < 0.5 and len(f) >= 8:
            # biased schedule: the same (non-default) peak options again on a range nested in the one just searched
            lo_, hi_ = o["range"]
            i_lo = 0 if lo_ is None or not np.isfinite(lo_) else int(np.argmin(np.abs(f - lo_)))
            i_hi = len(f) - 1 if hi_ is None or not np.isfinite(hi_) else int(np.argmin(np.abs(f - hi_)))
            if i_hi - i_lo >= 4:
                j_hi = rng.randint(i_lo + 2, i_hi - 1)
                ops.append({"op": "update_peaks", "range": [lo_, float(f[j_hi])], "rnum": "float", "rtype": o.get("rtype", "tuple"),
                            "kwargs": copy.deepcopy(o["kwargs"]), "kw_alias": False, "fault": None})
                last_range = list(ops[-1]["range"])
        if name == "update_member" and rng.random() < 0.5:
            # biased schedule: the container is then brought to the very range (and kwargs) one member already has
            o["rtype"] = "tuple"
            o["kwargs"] = o["kwargs"] if o["kwargs"] is not None else {}
            ops.append({"op": "update_peaks", "range": list(o["range"]), "rnum": o.get("rnum", "float"), "rtype": "tuple",
                        "kwargs": copy.deepcopy(o["kwargs"])})
    # single-precision bounds (values read from a float32 array) are used in runs where EVERY bound is exactly representable
    # in single precision: whether float32(x) 'equals' a nearby double is decided by numpy's promotion rules (weak Python
    # floats), not by hvsrpy, so mixing the two would make 'the range changed' ill-defined
    single = rng.random() < 0.15
    for o in ops:
        if "range" in o:
            if single:
                o["range"] = [None if v is None else float(np.float32(v)) for v in o["range"]]
            elif o.get("rnum") == "np32":
                o["rnum"] = "np"
    if rng.random() < 0.3:
        # the interpreter has a HISTORY: other results, on another frequency grid, were built, searched with some of the
        # very ranges used below and thrown away before this world's objects exist (history independence: nothing
        # of that may be visible - module-level caches, memoised helpers, recycled object identities)
        rs = [o["range"] for o in ops if "range" in o and o["range"] != [None, None]]
        g2 = CV.draw_grid(rng)
        world["prehistory"] = {"grid": g2, "k": rng.randrange(1 << 30), "n": rng.randint(1, 4),
                               "ranges": [list(r) for r in rng.sample(rs, min(len(rs), 3))] if rs else [],
                               "rounds": rng.randint(1, 3)}
    if prop == "C12" and kind != "diffuse" and rng.random() < 0.2:
        # biased schedule: two different selections with the SAME number of accepted windows, a write after each
        a_ = rng.randrange(len(curves))
        n_ = len(curves[a_])
        if n_ >= 4:
            k_ = rng.randint(1, n_ // 2)
            pick = rng.sample(range(n_), 2 * k_)
            i1, i2 = sorted(pick[:k_]), sorted(pick[k_:])
            pos = rng.randint(0, len(ops))
            ops[pos:pos] = [{"op": "set_masks", "az": a_, "idx": i1, "value": False},
                            draw_op(rng, "write_read", f, kind, curves, azimuths, 0.0),
                            {"op": "set_masks", "az": a_, "idx": i1, "value": True},
                            {"op": "set_masks", "az": a_, "idx": i2, "value": False},
                            draw_op(rng, "write_read", f, kind, curves, azimuths, 0.0)]
    if prop == "C12" and not any(o["op"] == "write_read" for o in ops):
        ops.append(draw_op(rng, "write_read", f, kind, curves, azimuths, fault_rate))
    if prop == "C13" and not any(o["op"] in ("sta_lta", "max_value") for o in ops):
        ops.append(TD.draw_td_op(rng, rng.choice(["sta_lta", "max_value"]), world))
    if prop == "C20" and not any(o["op"] == "plot" for o in ops):
        ops.append(draw_op(rng, "plot", f, kind, curves, azimuths, fault_rate))
    return {"machine": "hvsrobj", "property": prop, "run_seed": int(seed),
            "config": {"weights": {k: w[k] for k in names}, "fault_rate": fault_rate},
            "world": world, "ops": ops, "faults": []}


def draw_op(rng, name, f, kind, curves, azimuths, fault_rate=0.0):
    if name == "update_peaks":
        return {"op": name, "range": draw_range(rng, f), "rnum": rng.choice(["float", "float", "float", "np", "int", "npint", "np32"]),
                "rtype": rng.choice(["tuple", "tuple", "list"]), "kwargs": draw_kwargs(rng),
                # the caller keeps ONE options dict, edits it in place and hands it in again (a parameter sweep)
                "kw_alias": rng.random() < 0.3,
                # the caller keeps ONE range list (read from a configuration, say), hands it in, and afterwards writes the
                # next range of its sweep into that same list ("r_edit"); the update that follows hands the list in again
                "r_alias": rng.random() < 0.35, "r_edit": draw_range(rng, f) if rng.random() < 0.6 else None,
                # fault injection: the k-th inner peak search of the update fails (an allocation failure, say); the caller
                # then simply issues the same call again
                "fault": {"kind": "raise_in_search", "at": rng.randrange(0, 14),
                          "how": rng.choice(["error", "error", "interrupt"])} if rng.random() < 0.07 else None}
    if name == "fdwra":
        return {"op": name, "n": rng.choice([0.5, 1.0, 1.5, 2.0, 2, 2.5, 3.0, 3, 1]),
                "max_iterations": rng.choice([1, 1, 2, 3, 5, 50, 50]),
                "dfn": rng.choice(DISTS), "dmc": rng.choice(DISTS),
                # the spelling 'log-normal' is accepted wherever 'lognormal' is (hvsrpy.constants.DISTRIBUTION_MAP)
                "spell_fn": rng.random() < 0.12, "spell_mc": rng.random() < 0.12,
                "range": draw_range(rng, f) if rng.random() < 0.6 else [None, None],
                "rnum": rng.choice(["float", "float", "float", "np", "int", "npint", "np32"]),
                "rtype": rng.choice(["tuple", "tuple", "list"]), "kwargs": draw_kwargs(rng)}
    if name == "set_masks":
        a = rng.randrange(len(curves))
        n = len(curves[a])
        idx = sorted(rng.sample(range(n), rng.randint(1, max(1, n // 2))))
        return {"op": name, "az": a, "idx": idx, "value": rng.random() < 0.25}
    if name == "sta_lta":
        return {"op": name, "sta": rng.choice([0.2, 0.5, 1.0]), "lta": rng.choice([1.0, 2.0]),
                "min": rng.choice([0.1, 0.2, 0.5]), "max": rng.choice([1.5, 2.5, 4.0]),
                "components": rng.choice([["ns", "ew", "vt"], ["vt"], ["ns", "ew"]])}
    if name == "max_value":
        return {"op": name, "thr": rng.choice([0.3, 0.6, 0.9, 0.99]),
                "normalized": rng.random() < 0.8}
    if name == "manual":
        boxes = []
        for _ in range(rng.randint(0, 2)):
            i = rng.randrange(1, len(f) - 1)
            boxes.append({"i0": max(0, i - 1), "i1": min(len(f) - 1, i + 1),
                          "y0": rng.choice([0.0, 1.2, 2.0, 3.0]), "y1": rng.choice([2.5, 4.0, 50.0])})
        return {"op": name, "boxes": boxes, "range": draw_range(rng, f),
                "kwargs": rng.choice([None, {}]), "dfn": rng.choice(DISTS), "dmc": rng.choice(DISTS)}
    if name == "clone":
        # the caller goes on with a copy of the result (copy.deepcopy, or a pickle round trip as multiprocessing makes)
        return {"op": name, "how": rng.choice(["deepcopy", "pickle"])}
    if name == "edit_window":
        # the caller edits the samples of a time window in place between two rejections (a taper, a burst written into a
        # slice, a rescaled part): the same array objects, other contents
        return {"op": name, "j": rng.randrange(64), "how": rng.choice(["taper", "burst", "quiet", "scale_all"]),
                "comp": rng.choice(["ns", "ew", "vt", "all"]), "pos": rng.random()}
    if name == "update_source":
        return {"op": name, "az": rng.randrange(len(curves)), "range": draw_range(rng, f), "kwargs": draw_kwargs(rng),
                "also": rng.choice(["update", "mask", "second_container"])}
    if name == "sibling":
        return {"op": name, "do": rng.choice(["update", "write_read", "write_read"]), "az": rng.randrange(len(curves)),
                "range": draw_range(rng, f), "kwargs": draw_kwargs(rng),
                "path": "/simfs/out/" + rng.choice(["s.csv", "sib.hv"]), "dmc": rng.choice(DISTS), "dfn": rng.choice(DISTS)}
    if name == "update_member":
        return {"op": name, "az": rng.randrange(len(curves)), "range": draw_range(rng, f),
                "rtype": rng.choice(["tuple", "list"]), "kwargs": draw_kwargs(rng)}
    if name == "query":
        return {"op": name, "range": draw_range(rng, f), "kwargs": draw_kwargs(rng), "dist": rng.choice(DISTS),
                # the caller works on what the accessors return - normalises the mean curve, converts peak frequencies to
                # periods - in place: what is returned is the caller's
                "scribble": rng.random() < 0.5}
    if name == "write_read":
        op = {"op": name, "path": "/simfs/out/" + rng.choice(["a.csv", "b.csv", "res.hv"]),
              "dmc": rng.choice(DISTS), "dfn": rng.choice(DISTS)}
        if rng.random() < fault_rate:
            op["fault"] = {"kind": rng.choice(["enospc", "eio_write", "eio_read",
                                               "crash_in_write", "short_write"]),
                           "frac": rng.choice([0.0, 0.01, 0.2, 0.5, 0.9, 0.999]),
                           "bias": rng.choice(["uniform", "header_end", "line_start"])}
        return op
    if name == "plot":
        fns = ["single_panel", "single_panel", "summary_table"]
        if kind in ("traditional",):
            fns += ["pre_post", "pre_post", "records"]
        if kind in ("azimuthal",):
            fns += ["contour_2d", "contour_3d", "az_summary"]
        fn = rng.choice(fns)
        op = {"op": name, "fn": fn, "dmc": rng.choice(DISTS), "dfn": rng.choice(DISTS),
              "opts": {k: rng.random() < p for k, p in [
                  ("plot_valid_curves", 0.8), ("plot_invalid_curves", 0.5),
                  ("plot_mean_curve", 0.8), ("plot_frequency_std", 0.7),
                  ("plot_peak_mean_curve", 0.7), ("plot_peak_individual_valid_curves", 0.7),
                  ("plot_peak_individual_invalid_curves", 0.4)]}}
        if fn == "single_panel" and rng.random() < 0.45:
            # the caller draws onto axes of its own, kept across the run: cleared before the call, or still holding
            # what was drawn there before
            op["ax"] = rng.choice(["cleared", "cleared", "dirty"])
        if rng.random() < 0.25:
            site = rng.choice(["ax.plot", "ax.plot", "ax.fill", "ax.legend"])
            op["fault"] = {"kind": "raise_in_call", "site": site,
                           "at": rng.randrange(0, 12) if site == "ax.plot" else rng.randrange(0, 2)}
        return op
    raise ValueError(name)


# ===================================================================== state
class State:
    pass


def _tup(r):
    return tuple(r)


def run_prehistory(H, ph):
    import gc
    f2 = CV.gen_grid(ph["grid"])
    g = np_rng(ph["k"])
    for _ in range(ph.get("rounds", 1)):
        amp = 1.0 + g.random((ph["n"], len(f2))) * 3.0
        with warnings.catch_warnings():
            warnings.simplefilter("ignore")
            ghosts = [H.HvsrTraditional(f2, amp), H.HvsrCurve(f2, amp[0]), H.HvsrDiffuseField(f2, amp[0]),
                      H.HvsrAzimuthal([H.HvsrTraditional(f2, amp), H.HvsrTraditional(f2, amp[::-1].copy())], [0.0, 90.0])]
            for r in ph["ranges"]:
                for gh in ghosts:
                    try:
                        gh.update_peaks_bounded(search_range_in_hz=tuple(r))
                        if hasattr(gh, "mean_curve_peak"):
                            gh.mean_curve_peak(search_range_in_hz=tuple(r))
                    except Exception:                       # noqa
                        pass
        del ghosts, amp
        gc.collect()


def build_world(world):
    H = hv()
    if world.get("prehistory"):
        run_prehistory(H, world["prehistory"])
    st = State()
    st.kind = world["kind"]
    st.f = CV.gen_grid(world["grid"])
    scale = float(world.get("amp_scale", 1.0))          # very small / very large but legal amplitudes
    st.amps = [scale * np.array([CV.gen_curve(st.f, s) for s in cs]) for cs in world["curves"]]
    for a_, j_, i_ in world.get("zeros", []):           # an amplitude of exactly zero is legal (>= 0 is what is checked)
        if a_ < len(st.amps) and j_ < len(st.amps[a_]) and i_ < len(st.f):
            st.amps[a_][j_, i_] = 0.0
    st.azimuths = list(world["azimuths"])
    st.meta0 = dict(world.get("meta") or {})
    st.objs = {}
    k = st.kind
    bare = bool(world.get("bare"))

    def pm(name):
        return {} if bare else {"processing_method": name}
    if k in ("traditional", "multi"):
        if world.get("ctor") == "from_curves":      # the other public way to build a traditional result
            st.objs["trad"] = H.HvsrTraditional.from_hvsr_curves(
                [H.HvsrCurve(st.f, a) for a in st.amps[0]], meta={**st.meta0, **pm("traditional")})
        else:
            caller_meta = {**st.meta0, **pm("traditional")}
            st.objs["trad"] = H.HvsrTraditional(st.f, st.amps[0], meta=caller_meta)
            # the caller builds a second result (another time of day, say) from the very same station-meta dict
            st.sibling = H.HvsrTraditional(st.f, st.amps[0][::-1].copy(), meta=caller_meta)
    if k in ("azimuthal", "multi"):
        hs = [H.HvsrTraditional(st.f, a, meta={**pm("traditional"), "source of azimuth": i})
              for i, a in enumerate(st.amps)]
        st.src_members = hs            # the caller keeps the objects it built the container from
        if world.get("az_meta") == "member":
            hs[0].meta.update(st.meta0)
            st.objs["az"] = H.HvsrAzimuthal(hs, st.azimuths, meta=hs[0].meta)
        else:
            st.objs["az"] = H.HvsrAzimuthal(hs, st.azimuths,
                                            meta={**st.meta0, **pm("azimuthal")})
    if k in ("diffuse", "multi"):
        st.objs["diff"] = H.HvsrDiffuseField(st.f, st.amps[0][0],
                                             meta={**st.meta0, **pm("diffuse_field")})
    if k == "multi":
        st.objs["curves"] = [H.HvsrCurve(st.f, a) for a in st.amps[0]]
    st.cur_range = (None, None)
    st.cur_kwargs = None
    st.member = {}                   # azimuth index -> (range, kwargs) when a member was updated on its own
    st.member_same = set()
    st.range_changed = True          # last op re-evaluated peaks under a new range
    st.records = None
    st.world = world
    st.peak_cache = {}
    st.shadow = None                 # parallel state holding the written objects (C12)
    st.fs = None
    st.last_ops = []
    st.fault_kind = "none"
    return st


def get_records(st):
    """Synthetic 3-component windows matching the number of curves (lazy)."""
    if st.records is None:
        H = hv()
        r = st.world["records"]
        if "envs" in r:                                  # C13 worlds: windows drawn by envelope recipe
            from . import hvsrobj_td as TD
            st.records = TD.build_records(H, r)
            return st.records
        g = np_rng(r["k"])
        n = len(st.amps[0])
        recs = []
        deg = r.get("deg", 0.0)
        for j in range(n):
            comps = []
            spike = g.random() < r["spike_p"]
            for _c in range(3):
                x = g.normal(0, 1, r["ns"])
                if spike and g.random() < 0.7:
                    i = int(g.integers(0, r["ns"] - 20))
                    x[i:i + 20] += g.normal(0, 15, 20)
                comps.append(H.TimeSeries(x, r["dt"]))
            d = float(g.choice([0.0, 15.0, 200.5])) if deg == "mixed" else float(deg)
            recs.append(H.SeismicRecording3C(*comps, degrees_from_north=d, meta={"window": j, "tags": ["sim", {"deg": d}]}))
        st.records = recs
    return st.records


def trads_of(st):
    """[(label, HvsrTraditional, amplitude-array)] for every traditional-like holder."""
    out = []
    if "trad" in st.objs:
        out.append(("trad", st.objs["trad"], st.amps[0]))
    if "az" in st.objs:
        for a, h in enumerate(st.objs["az"].hvsrs):
            out.append((f"az{a}", h, st.amps[a]))
    return out


def curve_peak(st, a, j):
    """Peak of curve (azimuth a, window j) under the current range, through the
    public HvsrCurve API (peak finding itself is C08's business)."""
    key = (a, j, canon([st.cur_range, st.cur_kwargs]))
    if key not in st.peak_cache:
        H = hv()
        c = H.HvsrCurve(st.f, st.amps[a][j])
        c.update_peaks_bounded(search_range_in_hz=tuple(st.cur_range),
                               find_peaks_kwargs=st.cur_kwargs)
        st.peak_cache[key] = (float(c.peak_frequency), float(c.peak_amplitude))
    return st.peak_cache[key]


class InjectedSearchFailure(MemoryError):
    pass


class InjectedInterrupt(KeyboardInterrupt):
    """The user interrupts a long update (Ctrl-C in an interactive session) and issues the call again: not an Exception subclass."""


class _SearchFault:
    """While installed, the k-th call of scipy's find_peaks made by hvsrpy.hvsr_curve fails (counted across the objects of the run)."""

    def __init__(self, at, ctx, how="error"):
        import hvsrpy.hvsr_curve as HC
        self.HC, self.at, self.n, self.fired, self.ctx, self.how = HC, at, 0, False, ctx, how

    def __enter__(self):
        self.orig = self.HC.find_peaks

        def wrapper(*a, **k):
            self.n += 1
            if self.n - 1 == self.at and not self.fired:
                self.fired = True
                if self.how == "interrupt":
                    self.ctx.fault("interrupt_in_peak_search")
                    raise InjectedInterrupt("injected interrupt in the peak search")
                self.ctx.fault("raise_in_peak_search")
                raise InjectedSearchFailure("injected failure in the peak search")
            return self.orig(*a, **k)
        self.HC.find_peaks = wrapper
        return self

    def __exit__(self, *exc):
        self.HC.find_peaks = self.orig
        return False


def plain_kwargs(k):
    return k is None or k == {}


# ===================================================================== ops
class FdwraTrace(logging.Handler):
    def __init__(self):
        super().__init__(level=logging.DEBUG)
        self.iters = []      # list of dict(it=, peak_mask=[…])

    def emit(self, record):
        msg = record.getMessage()
        if msg.startswith("c_iteration:"):
            self.iters.append({"it": int(msg.split(":")[1]), "peak": None, "window": None})
        elif msg.startswith("valid_peak_boolean_mask:") and self.iters:
            self.iters[-1]["peak"] = _parse_mask(msg)
        elif msg.startswith("valid_window_boolean_mask:") and self.iters:
            self.iters[-1]["window"] = _parse_mask(msg)
        elif msg.startswith("\t") and self.iters and ":" in msg:
            k, _, v = msg.strip().partition(":")
            if k in ("mean_fn_before", "std_fn_before", "mc_peak_frq_before", "mean_fn_after", "std_fn_after",
                     "mc_peak_frq_after"):
                try:
                    self.iters[-1][k] = float(v)
                except ValueError:
                    pass


def _parse_mask(msg):
    body = msg.split(":", 1)[1]
    toks = body.replace("[", " ").replace("]", " ").split()
    if any(t not in ("True", "False") for t in toks):
        return None
    return [t == "True" for t in toks]


def range_arg(op):
    """The search range as the caller passes it: tuple or list, python floats, numpy scalars or ints."""
    vals = list(op["range"])
    num = op.get("rnum", "float")
    if num == "np":
        vals = [None if v is None else np.float64(v) for v in vals]
    elif num == "int":
        vals = [None if v is None else (int(v) if float(v).is_integer() else v) for v in vals]
    elif num == "npint":
        vals = [None if v is None else (np.int64(v) if float(v).is_integer() else np.float64(v)) for v in vals]
    elif num == "np32":
        vals = [None if v is None else np.float32(v) for v in vals]
    return tuple(vals) if op.get("rtype", "tuple") == "tuple" else vals


def call_fdwra(obj, op):
    H = hv()
    rng_arg = range_arg(op)
    lg = logging.getLogger("hvsrpy.window_rejection")
    h = FdwraTrace()
    old_level, old_prop = lg.level, lg.propagate
    lg.addHandler(h)
    lg.setLevel(logging.DEBUG)
    lg.propagate = False
    try:
        with warnings.catch_warnings():
            warnings.simplefilter("ignore")
            with np.errstate(all="ignore"):
                ret = H.frequency_domain_window_rejection(
                    obj, n=op["n"], max_iterations=op["max_iterations"],
                    distribution_fn="log-normal" if op.get("spell_fn") and op["dfn"] == "lognormal" else op["dfn"],
                    distribution_mc="log-normal" if op.get("spell_mc") and op["dmc"] == "lognormal" else op["dmc"],
                    search_range_in_hz=rng_arg,
                    find_peaks_kwargs=copy.deepcopy(op["kwargs"]))
        return ret, None, h.iters
    except Exception as e:                         # noqa
        return None, e, h.iters
    finally:
        lg.removeHandler(h)
        lg.setLevel(old_level)
        lg.propagate = old_prop


def masks_of(obj):
    H = hv()
    if isinstance(obj, H.HvsrAzimuthal):
        return [(np.array(h.valid_window_boolean_mask), np.array(h.valid_peak_boolean_mask))
                for h in obj.hvsrs]
    return [(np.array(obj.valid_window_boolean_mask), np.array(obj.valid_peak_boolean_mask))]


def make_twin(st, which, perm=None, scale=1.0):
    """Fresh object with permuted windows / rescaled amplitudes put into the same
    accept state and the same stored search range through the public API only."""
    H = hv()
    obj = st.objs[which]
    if which == "trad":
        amps = [st.amps[0]]
        src = [obj]
    else:
        amps = st.amps
        src = obj.hvsrs
    perms = perm if perm is not None else [np.arange(len(a)) for a in amps]
    hs = [H.HvsrTraditional(st.f, scale * a[p]) for a, p in zip(amps, perms)]
    if which == "trad":
        tw = hs[0]
        tws = [tw]
    else:
        tw = H.HvsrAzimuthal(hs, st.azimuths)
        tws = tw.hvsrs
    tw.update_peaks_bounded(search_range_in_hz=tuple(st.cur_range),
                            find_peaks_kwargs=copy.deepcopy(st.cur_kwargs))
    for t, s, p in zip(tws, src, perms):
        t.valid_window_boolean_mask = np.array(s.valid_window_boolean_mask)[p]
        t.valid_peak_boolean_mask = np.array(s.valid_peak_boolean_mask)[p]
    return tw, perms


def apply_op(ctx, st, op, prop):
    """Execute one operation on every object of the run.  Returns info dict."""
    H = hv()
    name = op["op"]
    info = {"exc": None}
    st.member_same = set()
    if name == "write_read":
        st.member_before_write = dict(st.member)
    if name in ("update_peaks", "fdwra", "manual", "write_read"):
        # the container fans the range out to every member again; a member that already holds this
        # very range (set on its own earlier) may legitimately short-circuit
        if "range" in op:
            st.member_same = {a for a, (r_, k_) in st.member.items() if tuple(r_) == tuple(op["range"])}
        st.member_at_entry = dict(st.member)
        st.member = {}
    if name == "update_peaks":
        r = range_arg(op)
        if op.get("r_alias") and isinstance(r, list):
            if not hasattr(st, "caller_range"):
                st.caller_range = []
            st.caller_range[:] = r
            r = st.caller_range
            ctx.probe("caller_reuses_range_list")
        alias = None
        if op.get("kw_alias"):
            if not hasattr(st, "caller_kwargs"):
                st.caller_kwargs = {}
            alias = st.caller_kwargs
            new_kw = copy.deepcopy(op["kwargs"] or {})
            for k_ in list(alias):
                if k_ not in new_kw:
                    del alias[k_]
            for k_, v_ in new_kw.items():
                if isinstance(v_, list) and isinstance(alias.get(k_), list) and len(alias[k_]) == len(v_):
                    alias[k_][:] = v_                  # a (min, max) pair is edited in place as well
                    ctx.probe("caller_edits_nested_option_in_place")
                else:
                    alias[k_] = v_
            ctx.probe("caller_reuses_kwargs_dict")
        fault = op.get("fault") if prop in ("C08", "C05", "C11", "C06") else None
        for attempt in ((fault, None) if fault else (None,)):
            inj = _SearchFault(attempt["at"], ctx, attempt.get("how", "error")) if attempt else None
            for key, obj in st.objs.items():
                targets = obj if key == "curves" else [obj]
                for t in targets:
                    try:
                        if inj:
                            inj.__enter__()
                        try:
                            t.update_peaks_bounded(search_range_in_hz=r,
                                                   find_peaks_kwargs=alias if alias is not None else copy.deepcopy(op["kwargs"]))
                        finally:
                            if inj:
                                inj.__exit__()
                    except (InjectedSearchFailure, InjectedInterrupt):
                        info["exc"] = "InjectedSearchFailure"      # the caller repeats the call below, faults have stopped
        if op.get("r_alias") and isinstance(r, list) and op.get("r_edit") is not None:
            r[:] = list(op["r_edit"])                  # the caller's list now holds the NEXT range; none has been applied yet
            ctx.probe("caller_edits_range_list_after_the_call")
        st.range_changed = tuple(op["range"]) != tuple(st.cur_range)
        st.cur_range, st.cur_kwargs = tuple(op["range"]), copy.deepcopy(op["kwargs"])
        ctx.state_changes += 1
        if not st.range_changed:
            ctx.probe("same_range_update")
    elif name == "fdwra":
        res = {}
        for which in ("trad", "az"):
            if which not in st.objs:
                continue
            pre = None
            if prop == "C06":
                pre = prepare_c06(ctx, st, which, op)
            ret, exc, trace = call_fdwra(st.objs[which], op)
            res[which] = (ret, exc, trace, pre)
            if exc is not None:
                info["exc"] = type(exc).__name__
                # an exception may leave some azimuths un-searched: the user re-issues
                # the peak search so that the object's range is well defined again
                try:
                    st.objs[which].update_peaks_bounded(search_range_in_hz=tuple(op["range"]),
                                                        find_peaks_kwargs=copy.deepcopy(op["kwargs"]))
                except Exception:                      # noqa
                    pass
        # the algorithm searched peaks with its own range on entry
        for key in ("diff", "curves"):
            if key in st.objs:
                targets = st.objs[key] if key == "curves" else [st.objs[key]]
                for t in targets:
                    t.update_peaks_bounded(search_range_in_hz=tuple(op["range"]),
                                           find_peaks_kwargs=copy.deepcopy(op["kwargs"]))
        st.range_changed = False
        st.cur_range, st.cur_kwargs = tuple(op["range"]), copy.deepcopy(op["kwargs"])
        info["fdwra"] = res
        ctx.state_changes += 1
    elif name == "set_masks":
        for label, h, amp in trads_of(st):
            a = 0 if label == "trad" else int(label[2:])
            if a != op["az"]:
                continue
            for j in op["idx"]:
                if j >= len(amp):
                    continue
                if op["value"]:
                    pf, _ = curve_peak(st, a, j)
                    if np.isnan(pf):
                        continue
                h.valid_window_boolean_mask[j] = op["value"]
                h.valid_peak_boolean_mask[j] = op["value"]
            if op.get("how") == "assign_one":
                # a hand rejection written as: mask = ...; hvsr.valid_window_boolean_mask = mask; hvsr.valid_peak_boolean_mask = mask
                m_ = np.asarray(h.valid_window_boolean_mask, bool) & np.asarray(h.valid_peak_boolean_mask, bool)
                h.valid_window_boolean_mask = m_
                h.valid_peak_boolean_mask = m_
                ctx.probe("one_array_assigned_to_both_masks")
        st.range_changed = False
        ctx.state_changes += 1
    elif name == "clone":
        import pickle

        def dup(o):
            return copy.deepcopy(o) if op["how"] == "deepcopy" else pickle.loads(pickle.dumps(o))
        for key in list(st.objs):
            st.objs[key] = [dup(c) for c in st.objs[key]] if key == "curves" else dup(st.objs[key])
        ctx.probe("history_continues_on_a_copy")
        st.range_changed = False
    elif name == "edit_window":
        recs = get_records(st)
        r_ = recs[op["j"] % len(recs)]
        for c_ in (("ns", "ew", "vt") if op["comp"] == "all" else (op["comp"],)):
            ts = getattr(r_, c_)
            n_ = ts.n_samples
            i0 = int(op["pos"] * max(1, n_ - n_ // 4))
            if op["how"] == "taper":
                ts.window("tukey", 1.0)
            elif op["how"] == "burst":
                ts.amplitude[i0:i0 + max(4, n_ // 20)] *= 25.0
            elif op["how"] == "quiet":
                ts.amplitude[i0:i0 + n_ // 4] *= 1e-3
            else:
                ts.amplitude *= 3.0
        ctx.probe("window_samples_edited_in_place")
        st.range_changed = False
        ctx.state_changes += 1
    elif name in ("sta_lta", "max_value") and prop == "C13":
        from . import hvsrobj_td as TD
        TD.op_time_domain(ctx, st, op, info, get_records,
                          lambda s: [(k, s.objs[k]) for k in ("trad", "az") if k in s.objs])
        st.range_changed = False
        ctx.state_changes += 1
    elif name in ("sta_lta", "max_value"):
        recs = get_records(st)
        for which in ("trad", "az"):
            if which not in st.objs:
                continue
            try:
                with warnings.catch_warnings():
                    warnings.simplefilter("ignore")
                    if name == "sta_lta":
                        H.sta_lta_window_rejection(recs, sta_seconds=op["sta"], lta_seconds=op["lta"],
                                                   min_sta_lta_ratio=op["min"], max_sta_lta_ratio=op["max"],
                                                   components=tuple(op["components"]), hvsr=st.objs[which])
                    else:
                        H.maximum_value_window_rejection(recs, maximum_value_threshold=op["thr"],
                                                         normalized=op["normalized"], hvsr=st.objs[which])
            except Exception as e:               # noqa
                info["exc"] = type(e).__name__
        st.range_changed = False
        ctx.state_changes += 1
    elif name == "manual":
        from ..simuser import run_manual
        for which in ("trad", "az"):
            if which in st.objs:
                exc = run_manual(ctx, st.objs[which], op, st.f)
                if exc is not None:
                    info["exc"] = type(exc).__name__
        for key in ("diff", "curves"):
            if key in st.objs:
                targets = st.objs[key] if key == "curves" else [st.objs[key]]
                for t in targets:
                    t.update_peaks_bounded(search_range_in_hz=tuple(op["range"]),
                                           find_peaks_kwargs={} if op["kwargs"] is None else op["kwargs"])
        st.range_changed = False
        st.cur_range = tuple(op["range"])
        st.cur_kwargs = {} if op["kwargs"] is None else copy.deepcopy(op["kwargs"])
        ctx.state_changes += 1
    elif name == "update_source":
        # the caller goes on using the objects the container was built from: the container is not affected
        src = getattr(st, "src_members", None)
        if src and op["az"] < len(src):
            h = src[op["az"]]
            if op["also"] == "mask":
                h.valid_window_boolean_mask[:] = False
                h.valid_peak_boolean_mask[:] = False
            elif op["also"] == "second_container":
                H.HvsrAzimuthal([h], [10.0])
            else:
                h.update_peaks_bounded(search_range_in_hz=tuple(op["range"]), find_peaks_kwargs=copy.deepcopy(op["kwargs"]))
            ctx.probe("source_member_used_again")
        st.range_changed = False
    elif name == "update_member":
        if "az" in st.objs and op["az"] < len(st.objs["az"].hvsrs):
            r = tuple(op["range"]) if op["rtype"] == "tuple" else list(op["range"])
            st.objs["az"].hvsrs[op["az"]].update_peaks_bounded(search_range_in_hz=r,
                                                              find_peaks_kwargs=copy.deepcopy(op["kwargs"]))
            st.member[op["az"]] = (tuple(op["range"]), copy.deepcopy(op["kwargs"]))
            ctx.probe("member_updated_alone")
            ctx.state_changes += 1
        st.range_changed = False
    elif name == "query":
        # read-only accessors, some with arguments of their own: none of them may change the state
        with warnings.catch_warnings():
            warnings.simplefilter("ignore")
            with np.errstate(all="ignore"):
                for key, obj in st.objs.items():
                    targets = obj if key == "curves" else [obj]
                    for t in targets:
                        for call in (lambda: t.mean_curve_peak(op["dist"]),
                                     lambda: t.mean_curve_peak(search_range_in_hz=tuple(op["range"]),
                                                               find_peaks_kwargs=copy.deepcopy(op["kwargs"])),
                                     lambda: t.mean_curve(op["dist"]), lambda: t.std_curve(op["dist"]),
                                     lambda: t.mean_fn_frequency(op["dist"]), lambda: t.cov_fn(op["dist"]),
                                     lambda: t.nth_std_curve(1.0, op["dist"]), lambda: t.peak_frequencies,
                                     lambda: t.mean_curve_peak_by_azimuth(op["dist"])):
                            try:
                                got = call()
                            except Exception:              # noqa  (many accessors do not exist on every kind)
                                continue
                            if op.get("scribble"):
                                for g_ in (got if isinstance(got, (tuple, list)) else [got]):
                                    if isinstance(g_, np.ndarray) and g_.dtype.kind == "f" and g_.flags.writeable and g_.size:
                                        g_ *= 0.5
                                        ctx.probe("caller_edits_returned_array")
        st.range_changed = False
    elif name == "write_read":
        from .hvsrobj_io import op_write_read
        op_write_read(ctx, st, op, prop, info)
    elif name == "sibling":
        from .hvsrobj_io import op_sibling
        op_sibling(ctx, st, op, prop, info)
        st.range_changed = False
    elif name == "plot":
        from .hvsrobj_plot import op_plot
        op_plot(ctx, st, op, prop, info)
    else:
        raise HarnessError(f"unknown op {name}")
    return info


# ===================================================================== oracles
def _mask_class(st):
    cls = set()
    for label, h, amp in trads_of(st):
        w, p = np.asarray(h.valid_window_boolean_mask), np.asarray(h.valid_peak_boolean_mask)
        if w.all() and p.all():
            cls.add("all")
        elif not np.array_equal(w, p):
            cls.add("unequal")
        else:
            cls.add("some_rejected")
    return "+".join(sorted(cls)) or "none"


def _range_class(st):
    lo, hi = st.cur_range
    f = st.f
    if lo is None and hi is None:
        return "none"
    if lo is None or hi is None:
        return "half_lo" if hi is None else "half_hi"
    if lo > hi:
        return "empty"
    if lo <= f[1] or hi >= f[-2]:
        return "touch_end"
    return "inside"


def _ncls(n):
    return "2" if n <= 2 else "3-5" if n <= 5 else "6+"


def signature(ctx, st, op):
    st.last_ops = (st.last_ops + [op["op"]])[-2:]
    ctx.signature(st.kind, _ncls(len(st.amps[0])), len(st.amps), _mask_class(st),
                  _range_class(st), ",".join(st.last_ops), st.fault_kind)


# ---- C08 ------------------------------------------------------------------
def oracle_c08(ctx, st, op, info):
    f, R, K = st.f, st.cur_range, st.cur_kwargs
    plain = plain_kwargs(K)

    def judge(label, v, rf, ra, R=R, plain=plain):
        if plain:
            ok, name, detail = PK.judge_peak(f, v, R, rf, ra)
        else:
            if rf is None or np.isnan(rf):
                return
            ok, name, detail = PK.judge_peak(f, v, R, rf, ra)
            if name in ("higher_peak_in_range",):     # prominence may legitimately hide it
                ok = True
        ctx.check(ok, name or "peak_ok", lambda: f"{label}: {detail}",
                  key={"where": label.split("[")[0], "range_hi_none": R[1] is None})

    # the curves the objects hold are the curves they were given (nothing the caller did to RETURNED values reaches them)
    held = [(f"curve[{j}]", c.amplitude, st.amps[0][j]) for j, c in enumerate(st.objs.get("curves", []))]
    if "diff" in st.objs:
        held.append(("diffuse", st.objs["diff"].amplitude, st.amps[0][0]))
    held += [(label, h.amplitude, amp) for label, h, amp in trads_of(st)]
    for label, have, given in held:
        ctx.check(np.array_equal(np.asarray(have), np.asarray(given)), "curve_changed",
                  lambda: f"{label}: the curve held by the object is no longer the curve it was built from (after {op['op']}); "
                          f"reported peaks refer to a curve that is gone", key={"where": label.split("[")[0], "after": op["op"]})
    # single curves and the diffuse-field curve
    for j, c in enumerate(st.objs.get("curves", [])):
        judge(f"curve[{j}]", st.amps[0][j], c.peak_frequency, c.peak_amplitude)
    if "diff" in st.objs:
        d = st.objs["diff"]
        judge("diffuse", st.amps[0][0], d.peak_frequency, d.peak_amplitude)
        try:
            mf, ma = d.mean_curve_peak(search_range_in_hz=tuple(R), find_peaks_kwargs=copy.deepcopy(K))
        except ValueError:
            mf, ma = np.nan, np.nan
        judge("diffuse.mean_curve_peak", np.asarray(d.mean_curve()), mf, ma)

    # every window of every traditional-like holder
    for label, h, amp in trads_of(st):
        Rm, Km = R, K
        if label.startswith("az") and int(label[2:]) in st.member:
            Rm, Km = st.member[int(label[2:])]
        plain_m = plain_kwargs(Km)
        vp = np.asarray(h.valid_peak_boolean_mask)
        pf, pa = np.asarray(h.peak_frequencies), np.asarray(h.peak_amplitudes)
        ctx.check(len(pf) == int(vp.sum()) and len(pa) == len(pf), "peak_vector_length",
                  f"{label}: peak_frequencies has {len(pf)} entries for {int(vp.sum())} valid peaks")
        k = 0
        for j in range(len(amp)):
            cls = PK.classify(f, amp[j], Rm)
            if vp[j]:
                rf, ra = float(pf[k]), float(pa[k])
                k += 1
                if np.isnan(rf):
                    ctx.probe("peakless_window_flagged_valid")
                if not np.isnan(rf):
                    judge(f"{label}[{j}]", amp[j], rf, ra, R=Rm, plain=plain_m)
            elif st.range_changed and plain and not (label.startswith("az") and int(label[2:]) in st.member_same):
                # peaks were just re-evaluated under a new range: a window is
                # peak-less only if the range really holds no local maximum
                ctx.check(not cls["required"], "peak_missed",
                          lambda: f"{label} window {j}: flagged peak-less after the range changed to {R}, "
                                  f"but a local maximum lies strictly inside it",
                          key={"where": label[:2], "range_hi_none": R[1] is None})
        # consistency with the single-curve object for the same curve
        if label == "trad" and "curves" in st.objs:
            k = 0
            for j, c in enumerate(st.objs["curves"]):
                if vp[j]:
                    same = (close(pf[k], c.peak_frequency, 0, 0) and close(pa[k], c.peak_amplitude, 0, 0))
                    ctx.check(same, "kinds_disagree",
                              lambda: f"window {j}: HvsrTraditional reports ({pf[k]!r},{pa[k]!r}) but HvsrCurve "
                                      f"({c.peak_frequency!r},{c.peak_amplitude!r}) for the same curve and range {R}")
                    k += 1

    # a peak-less window must not enter the resonance statistics, whatever its flag says
    for name in ("trad", "az"):
        if name not in st.objs:
            continue
        o = st.objs[name]
        subs = [o] if name == "trad" else o.hvsrs
        Fs = [np.asarray(h.peak_frequencies, float) for h in subs]
        As = [np.asarray(h.peak_amplitudes, float) for h in subs]
        if not any(np.isnan(x).any() for x in Fs):
            continue
        keep = [~np.isnan(x) for x in Fs]
        if sum(int(k.sum()) for k in keep) < 2 or any(k.sum() < 1 for k in keep):
            continue
        F = np.concatenate([x[k] for x, k in zip(Fs, keep)])
        Aa = np.concatenate([x[k] for x, k in zip(As, keep)])
        w = ST.cheng_weights([int(k.sum()) for k in keep])
        with np.errstate(all="ignore"), warnings.catch_warnings():
            warnings.simplefilter("ignore")
            for d in DISTS:
                if name == "trad":
                    exp = {"mean_fn_frequency": ST.mean(F, d), "std_fn_frequency": ST.std(F, d),
                           "mean_fn_amplitude": ST.mean(Aa, d), "std_fn_amplitude": ST.std(Aa, d),
                           "cov_fn": ST.cov(F, Aa, d)}
                else:
                    exp = {"mean_fn_frequency": ST.wmean(F, w, d), "std_fn_frequency": ST.wstd(F, w, d),
                           "mean_fn_amplitude": ST.wmean(Aa, w, d), "std_fn_amplitude": ST.wstd(Aa, w, d),
                           "cov_fn": ST.wcov(F, Aa, w, d)}
                for stat, e in exp.items():
                    try:
                        g = np.asarray(getattr(o, stat)(d), float)
                    except Exception as ex:            # noqa
                        g = ("raised", type(ex).__name__)
                    ctx.check(stat_same(stat + "(" + d + ")", g, e, F, Aa, np.zeros(0)), "absent_peak_enters_statistics",
                              lambda: f"{name}: a window without a peak is flagged as a valid peak (after {op['op']}) and "
                                      f"{stat}('{d}') = {g!r}, but over the windows that have a peak it is {e!r}",
                              key={"holder": name, "stat": stat, "after": op["op"]})
    # peak of the mean curve
    holders = [(n, st.objs[n]) for n in ("trad", "az") if n in st.objs]
    for name, obj in holders:
        subs = [(name, obj)]
        if name == "az":
            subs += [(f"az{a}.mean", h) for a, h in enumerate(obj.hvsrs)]
        for label, o in subs:
            Rj = R
            if st.member:
                if label == "az":
                    continue                    # members are out of step by the caller's own doing
                if label.startswith("az") and label.endswith(".mean") and int(label[2:-5]) in st.member:
                    Rj = st.member[int(label[2:-5])][0]
                    if not plain_kwargs(st.member[int(label[2:-5])][1]):
                        continue
            for dist in DISTS:
                try:
                    with warnings.catch_warnings():
                        warnings.simplefilter("ignore")
                        with np.errstate(all="ignore"):
                            mc = np.asarray(o.mean_curve(dist), dtype=float)
                except Exception:
                    continue
                if mc.ndim != 1 or len(mc) != len(f) or np.isnan(mc).any():
                    continue
                try:
                    mf, ma = o.mean_curve_peak(dist)
                except ValueError:
                    mf, ma = np.nan, np.nan
                judge(f"{label}.mean_curve_peak({dist})", mc, mf, ma, R=Rj)


# ---- C05 ------------------------------------------------------------------
STAT_RTOL = 1e-9


def _trad_inputs(st, h, a):
    """(W, P, peaks_f, peaks_a) of a traditional holder under the current range."""
    W = np.asarray(h.valid_window_boolean_mask, bool)
    P = np.asarray(h.valid_peak_boolean_mask, bool)
    n = len(st.amps[a])
    pk = [curve_peak(st, a, j) for j in range(n)]
    return W, P, np.array([p[0] for p in pk]), np.array([p[1] for p in pk])


def _accessors_trad(o, dists=DISTS, ns=(1.0, -1.0, 2.5)):
    """Every statistic accessor as {name: value}; exceptions recorded by class."""
    out = {}

    def put(name, fn):
        try:
            with warnings.catch_warnings():
                warnings.simplefilter("ignore")
                with np.errstate(all="ignore"):
                    out[name] = fn()
        except Exception as e:                      # noqa
            out[name] = ("raised", type(e).__name__)
    for d in dists:
        put(f"mean_fn_frequency({d})", lambda: o.mean_fn_frequency(d))
        put(f"std_fn_frequency({d})", lambda: o.std_fn_frequency(d))
        put(f"mean_fn_amplitude({d})", lambda: o.mean_fn_amplitude(d))
        put(f"std_fn_amplitude({d})", lambda: o.std_fn_amplitude(d))
        put(f"cov_fn({d})", lambda: np.asarray(o.cov_fn(d)))
        put(f"mean_curve({d})", lambda: np.asarray(o.mean_curve(d)))
        put(f"std_curve({d})", lambda: np.asarray(o.std_curve(d)))
        put(f"mean_curve_peak({d})", lambda: np.asarray(o.mean_curve_peak(d), dtype=float))
        for n in ns:
            put(f"nth_std_fn_frequency({n},{d})", lambda: o.nth_std_fn_frequency(n, d))
            put(f"nth_std_fn_amplitude({n},{d})", lambda: o.nth_std_fn_amplitude(n, d))
            put(f"nth_std_curve({n},{d})", lambda: np.asarray(o.nth_std_curve(n, d)))
    return out


def alias_check(ctx, o, got, key):
    """'log-normal' is an accepted spelling of the lognormal assumption: every statistic must agree."""
    alt = _accessors_trad(o, dists=("log-normal",))
    for name, v in alt.items():
        ref = got.get(name.replace("log-normal", "lognormal"))
        if ref is None:
            continue
        ctx.check(_same(v, ref, 0, 0), "distribution_alias_differs",
                  lambda: f"{name} = {v!r} but {name.replace('log-normal', 'lognormal')} = {ref!r}",
                  key={**key, "stat": name.split("(")[0]})


def stat_same(name, g, e, F, A, rows):
    """Scale-aware comparison of a statistic with its expected value: rounding noise is judged
    relative to the magnitude of the data the statistic is computed from (cancellation in a
    standard deviation or covariance is proportional to that magnitude, not to the result)."""
    if isinstance(g, tuple) or isinstance(e, tuple):
        return isinstance(g, tuple) and isinstance(e, tuple) and g == e
    if "curve" in name and np.size(rows) and ("lognormal" in name or "log-normal" in name):
        zero_cols = (np.asarray(rows) <= 0).any(axis=0)
        if zero_cols.any() and np.shape(g) == zero_cols.shape == np.shape(e):
            g, e = np.array(g, float), np.array(e, float)   # log(0): outside the lognormal estimator's domain
            g[zero_cols] = 1.0
            e[zero_cols] = 1.0
    with np.errstate(all="ignore"):
        mf = float(np.nanmax(np.abs(F))) if len(F) else 1.0
        ma = float(np.nanmax(np.abs(A))) if len(A) else 1.0
        mr = float(np.nanmax(np.abs(rows))) if np.size(rows) else 1.0
    if name.startswith("cov_fn"):
        g, e = np.asarray(g, float), np.asarray(e, float)
        if g.shape != (2, 2) or e.shape != (2, 2):
            return False
        lognormal = "lognormal" in name or "log-normal" in name
        sf, sa = (1.0, 1.0) if lognormal else (mf, ma)
        tol = 1e-9 * np.array([[sf * sf, sf * sa], [sf * sa, sa * sa]])
        return bool(np.all(np.isnan(g) == np.isnan(e)) and
                    np.all(np.abs(np.nan_to_num(g) - np.nan_to_num(e)) <= tol + 1e-9 * np.abs(np.nan_to_num(e))))
    if "curve" in name:
        scale = mr
    elif "amplitude" in name:
        scale = ma
    else:
        scale = mf
    if ("std_" in name and "nth" not in name) and ("lognormal" in name or "log-normal" in name):
        scale = 1.0                                   # log-space standard deviations are dimensionless
    return close(g, e, STAT_RTOL, 1e-9 * scale)


def _same(a, b, rtol=STAT_RTOL, atol=1e-12):
    if isinstance(a, tuple) or isinstance(b, tuple):
        return isinstance(a, tuple) and isinstance(b, tuple) and a == b
    return close(a, b, rtol, atol)


def oracle_c05(ctx, st, op, info):
    H = hv()
    o = st.objs["trad"]
    amp = st.amps[0]
    W, P, pf, pa = _trad_inputs(st, o, 0)
    has_peak = ~np.isnan(pf)
    Pe = P & has_peak                      # accepted windows that do have a peak
    if (P & ~has_peak).any():
        ctx.probe("peakless_window_flagged_valid")
    if W.sum() >= 2 and Pe.sum() < 2:
        # the curve statistics do not need any peak: judge them alone (e.g. no curve has a peak in the range)
        got = _accessors_trad(o)
        rows = amp[W]
        with np.errstate(all="ignore"):
            for d in DISTS:
                exp = {f"mean_curve({d})": ST.mean(rows, d, axis=0), f"std_curve({d})": ST.std(rows, d, axis=0)}
                for n in (1.0, -1.0, 2.5):
                    exp[f"nth_std_curve({n},{d})"] = ST.nth(n, d, exp[f"mean_curve({d})"], exp[f"std_curve({d})"])
                for name, e in exp.items():
                    g = got[name]
                    ctx.check(stat_same(name, g, e, np.zeros(0), np.zeros(0), rows), "estimator_mismatch",
                              lambda: f"{name} = {g!r} but the textbook estimator over the accepted windows "
                                      f"{np.nonzero(W)[0].tolist()} (fewer than two of them have a peak) gives {e!r}",
                              key={"after": op["op"], "stat": name.split("(")[0]})
        ctx.probe("c05_curves_only_judged")
        return
    if W.sum() < 2 or Pe.sum() < 2:
        ctx.probe("c05_out_of_domain")
        return
    got = _accessors_trad(o)
    rows = amp[W]
    F, A = pf[Pe], pa[Pe]
    key = {"after": op["op"]}
    with np.errstate(all="ignore"):
        for d in DISTS:
            exp = {
                f"mean_fn_frequency({d})": ST.mean(F, d), f"std_fn_frequency({d})": ST.std(F, d),
                f"mean_fn_amplitude({d})": ST.mean(A, d), f"std_fn_amplitude({d})": ST.std(A, d),
                f"cov_fn({d})": ST.cov(F, A, d),
                f"mean_curve({d})": ST.mean(rows, d, axis=0), f"std_curve({d})": ST.std(rows, d, axis=0),
            }
            for n in (1.0, -1.0, 2.5):
                exp[f"nth_std_fn_frequency({n},{d})"] = ST.nth(n, d, ST.mean(F, d), ST.std(F, d))
                exp[f"nth_std_fn_amplitude({n},{d})"] = ST.nth(n, d, ST.mean(A, d), ST.std(A, d))
                exp[f"nth_std_curve({n},{d})"] = ST.nth(n, d, ST.mean(rows, d, axis=0), ST.std(rows, d, axis=0))
            for name, e in exp.items():
                g = got[name]
                ctx.check(stat_same(name, g, e, F, A, rows), "estimator_mismatch",
                          lambda: f"{name} = {g!r} but the textbook estimator over the accepted "
                                  f"windows {np.nonzero(W)[0].tolist()} / peaks {np.nonzero(Pe)[0].tolist()} gives {e!r}",
                          key={**key, "stat": name.split("(")[0]})
        # lognormal reciprocity frequency <-> period
        T = 1.0 / F
        g_med, g_sig = got["mean_fn_frequency(lognormal)"], got["std_fn_frequency(lognormal)"]
        if not isinstance(g_med, tuple) and not isinstance(g_sig, tuple):
            ctx.check(close(ST.mean(T, "lognormal"), 1.0 / g_med, STAT_RTOL) and
                      close(ST.std(T, "lognormal"), g_sig, STAT_RTOL, 1e-12), "period_reciprocity",
                      lambda: f"median(1/f)={ST.mean(T, 'lognormal')!r}, log-std={ST.std(T, 'lognormal')!r} vs "
                              f"1/median(f)={1.0 / g_med!r}, log-std={g_sig!r}", key=key)
            up, dn = got["nth_std_fn_frequency(2.5,lognormal)"], o.nth_std_fn_frequency(-2.5, "lognormal")
            ctx.check(close(np.log(up) - np.log(g_med), np.log(g_med) - np.log(dn), 1e-9, 1e-12),
                      "log_symmetry", f"+n and -n values not symmetric about the median in log space: {up!r}, {g_med!r}, {dn!r}",
                      key=key)
    alias_check(ctx, o, got, key)
    # rejected rows never matter: overwrite them with garbage in a twin
    if (~W & ~P).any():
        tw = copy.deepcopy(o)
        junk = ~W & ~P
        tw.amplitude[junk] = 1e6 * (1 + np.arange(junk.sum()))[:, None] * np.ones(amp.shape[1])
        got2 = _accessors_trad(tw)
        for name in got:
            ctx.check(_same(got[name], got2[name], 0, 0), "rejected_rows_influence",
                      lambda: f"{name} changed from {got[name]!r} to {got2[name]!r} when only rejected rows were overwritten",
                      key={**key, "stat": name.split("(")[0]})
        ctx.probe("c05_garbage_twin")
    # identical to an object built from the accepted windows alone: the resonance statistics always
    # (an accepted window that has a peak contributes it), the curve statistics when every accepted
    # window has a peak (the constructor of the rebuilt object drops peak-less rows from its curves)
    if (W & has_peak).sum() >= 2:
        rb = H.HvsrTraditional(st.f, rows)
        rb.update_peaks_bounded(search_range_in_hz=tuple(st.cur_range),
                                find_peaks_kwargs=copy.deepcopy(st.cur_kwargs))
        got3 = _accessors_trad(rb)
        curves_too = bool(has_peak[W].all())
        for name in got:
            if "curve" in name and not curves_too:
                continue
            ctx.check(stat_same(name, got[name], got3[name], F, A, rows), "differs_from_rebuilt",
                      lambda: f"{name} = {got[name]!r} but an object built from the accepted windows alone gives {got3[name]!r}",
                      key={**key, "stat": name.split("(")[0]})
        ctx.probe("c05_rebuilt")


# ---- C11 ------------------------------------------------------------------
def _accessors_az(o):
    out = _accessors_trad(o)
    return out


def oracle_c11(ctx, st, op, info):
    H = hv()
    o = st.objs["az"]
    A = len(o.hvsrs)
    Ws, Ps, Fs, As = [], [], [], []
    for a, h in enumerate(o.hvsrs):
        W, P, pf, pa = _trad_inputs(st, h, a)
        Ws.append(W), Ps.append(P), Fs.append(pf), As.append(pa)
    has = [~np.isnan(x) for x in Fs]
    if any((P & ~hp).any() for P, hp in zip(Ps, has)):
        ctx.probe("peakless_window_flagged_valid")
    Pe = [P & hp for P, hp in zip(Ps, has)]
    key = {"after": op["op"]}
    fn_ok = all(p.sum() >= 1 for p in Pe) and sum(p.sum() for p in Pe) >= 2
    mc_ok = all(w.sum() >= 1 for w in Ws) and sum(w.sum() for w in Ws) >= 2 and \
        all(w.sum() == p.sum() for w, p in zip(Ws, Ps))
    if not (fn_ok or mc_ok):
        ctx.probe("c11_out_of_domain")
        return
    got = _accessors_az(o)
    equal_counts = False
    with np.errstate(all="ignore"):
        if fn_ok:
            w = ST.cheng_weights([int(p.sum()) for p in Pe])
            F = np.concatenate([x[p] for x, p in zip(Fs, Pe)])
            Aa = np.concatenate([x[p] for x, p in zip(As, Pe)])
            if len(set(int(p.sum()) for p in Pe)) == 1:
                equal_counts = True
            if A > 1 and not equal_counts:
                ctx.probe("c11_unequal_counts")
            for d in DISTS:
                exp = {f"mean_fn_frequency({d})": ST.wmean(F, w, d), f"std_fn_frequency({d})": ST.wstd(F, w, d),
                       f"mean_fn_amplitude({d})": ST.wmean(Aa, w, d), f"std_fn_amplitude({d})": ST.wstd(Aa, w, d),
                       f"cov_fn({d})": ST.wcov(F, Aa, w, d)}
                for n in (1.0, -1.0, 2.5):
                    exp[f"nth_std_fn_frequency({n},{d})"] = ST.nth(n, d, ST.wmean(F, w, d), ST.wstd(F, w, d))
                    exp[f"nth_std_fn_amplitude({n},{d})"] = ST.nth(n, d, ST.wmean(Aa, w, d), ST.wstd(Aa, w, d))
                # mean is the plain average over azimuths of the per-azimuth means
                per = [ST.mean(x[p], d) for x, p in zip(Fs, Pe)]
                avg = np.exp(np.mean(np.log(per))) if d == "lognormal" else np.mean(per)
                ctx.check(close(exp[f"mean_fn_frequency({d})"], avg, 1e-9), "model_selfcheck",
                          "weighted mean != average of per-azimuth means (model error)")
                for name, e in exp.items():
                    g = got[name]
                    ctx.check(stat_same(name, g, e, F, Aa, np.zeros(0)), "weighted_estimator_mismatch",
                              lambda: f"{name} = {g!r} but the Cheng et al. (2020) estimator with w=1/(A*n_a), "
                                      f"n_a={[int(p.sum()) for p in Pe]} gives {e!r}",
                              key={**key, "stat": name.split("(")[0]})
                # variance on the covariance diagonal equals the squared standard deviation
                c = got[f"cov_fn({d})"]
                sf, sa = got[f"std_fn_frequency({d})"], got[f"std_fn_amplitude({d})"]
                if not isinstance(c, tuple) and not isinstance(sf, tuple):
                    ctx.check(close(c[0, 0], sf ** 2, 1e-9, 1e-18) and close(c[1, 1], sa ** 2, 1e-9, 1e-18),
                              "cov_diagonal", lambda: f"cov_fn({d}) diagonal {c[0, 0]!r},{c[1, 1]!r} != std^2 {sf ** 2!r},{sa ** 2!r}",
                              key=key)
                if equal_counts and len(F) >= 2:          # reduces to the pooled unweighted statistic
                    ctx.check(stat_same(f"mean_fn_frequency({d})", got[f"mean_fn_frequency({d})"], ST.mean(F, d), F, Aa, np.zeros(0)) and
                              stat_same(f"std_fn_frequency({d})", got[f"std_fn_frequency({d})"], ST.std(F, d), F, Aa, np.zeros(0)), "pooled_reduction",
                              lambda: f"equal counts per azimuth but fn statistics ({d}) differ from the pooled unweighted ones",
                              key=key)
                    ctx.probe("c11_equal_counts")
        if mc_ok:
            w = ST.cheng_weights([int(x.sum()) for x in Ws])
            rows = np.vstack([amp[W] for amp, W in zip(st.amps, Ws)])
            for d in DISTS:
                exp = {f"mean_curve({d})": ST.wmean(rows, w, d), f"std_curve({d})": ST.wstd(rows, w, d)}
                for n in (1.0, -1.0, 2.5):
                    exp[f"nth_std_curve({n},{d})"] = ST.nth(n, d, exp[f"mean_curve({d})"], exp[f"std_curve({d})"])
                for name, e in exp.items():
                    g = got[name]
                    ctx.check(stat_same(name, g, e, np.zeros(0), np.zeros(0), rows), "weighted_estimator_mismatch",
                              lambda: f"{name} differs from the weighted estimator with n_a={[int(x.sum()) for x in Ws]}: "
                                      f"got {g!r}, expected {e!r}", key={**key, "stat": name.split("(")[0]})
                if len(set(int(x.sum()) for x in Ws)) == 1:
                    ctx.check(stat_same(f"mean_curve({d})", got[f"mean_curve({d})"], ST.mean(rows, d, axis=0), np.zeros(0), np.zeros(0), rows) and
                              stat_same(f"std_curve({d})", got[f"std_curve({d})"], ST.std(rows, d, axis=0), np.zeros(0), np.zeros(0), rows), "pooled_reduction",
                              f"equal counts per azimuth but mean/std curve ({d}) differ from the pooled unweighted ones", key=key)
    if not (fn_ok and mc_ok):
        return
    alias_check(ctx, o, got, key)
    # single azimuth == traditional
    if A == 1:
        t = H.HvsrTraditional(st.f, st.amps[0])
        t.update_peaks_bounded(search_range_in_hz=tuple(st.cur_range), find_peaks_kwargs=copy.deepcopy(st.cur_kwargs))
        t.valid_window_boolean_mask = np.array(Ws[0])
        t.valid_peak_boolean_mask = np.array(Ps[0])
        gt = _accessors_trad(t)
        for name in got:
            ctx.check(stat_same(name, got[name], gt[name], F, Aa, rows), "single_azimuth_reduction",
                      lambda: f"one azimuth: {name} = {got[name]!r} but the traditional object gives {gt[name]!r}",
                      key={**key, "stat": name.split("(")[0]})
        ctx.probe("c11_single_azimuth")
    # order of azimuths is irrelevant
    if A > 1:
        perm = list(range(A))[::-1] if A == 2 else list(range(1, A)) + [0]
        hs = []
        for a in perm:
            t = H.HvsrTraditional(st.f, st.amps[a])
            hs.append(t)
        tw = H.HvsrAzimuthal(hs, [st.azimuths[a] for a in perm])
        tw.update_peaks_bounded(search_range_in_hz=tuple(st.cur_range), find_peaks_kwargs=copy.deepcopy(st.cur_kwargs))
        for t, a in zip(tw.hvsrs, perm):
            t.valid_window_boolean_mask = np.array(Ws[a])
            t.valid_peak_boolean_mask = np.array(Ps[a])
        g2 = _accessors_az(tw)
        for name in got:
            ctx.check(stat_same(name, got[name], g2[name], F, Aa, rows), "azimuth_order_dependence",
                      lambda: f"{name} changes from {got[name]!r} to {g2[name]!r} when the azimuths are reordered",
                      key={**key, "stat": name.split("(")[0]})
    # rejected rows never matter
    if any((~W & ~P).any() for W, P in zip(Ws, Ps)):
        tw = copy.deepcopy(o)
        for h, W, P in zip(tw.hvsrs, Ws, Ps):
            junk = ~W & ~P
            if junk.any():
                h.amplitude[junk] = 1e6
        g3 = _accessors_az(tw)
        for name in got:
            ctx.check(_same(got[name], g3[name], 0, 0), "rejected_rows_influence",
                      lambda: f"{name} changed when only rejected rows were overwritten", key={**key, "stat": name.split("(")[0]})
    # equal to an object rebuilt from the accepted windows alone
    if all(np.array_equal(P, W & hp) and hp[W].all() for P, W, hp in zip(Ps, Ws, has)):
        hs = [H.HvsrTraditional(st.f, amp[W]) for amp, W in zip(st.amps, Ws)]
        rb = H.HvsrAzimuthal(hs, st.azimuths)
        rb.update_peaks_bounded(search_range_in_hz=tuple(st.cur_range), find_peaks_kwargs=copy.deepcopy(st.cur_kwargs))
        g4 = _accessors_az(rb)
        for name in got:
            ctx.check(stat_same(name, got[name], g4[name], F, Aa, rows), "differs_from_rebuilt",
                      lambda: f"{name} = {got[name]!r} but an object built from the accepted windows alone gives {g4[name]!r}",
                      key={**key, "stat": name.split("(")[0]})
        ctx.probe("c11_rebuilt")


# ---- C06 ------------------------------------------------------------------
def prepare_c06(ctx, st, which, op):
    """Before the real call: compute the entry state (through a public-API twin
    that performs the algorithm's own peak search) and run the reference model
    and the metamorphic twins."""
    H = hv()
    obj = st.objs[which]
    pre = {"which": which}
    # entry state: what the object looks like right after the peak search on entry
    entry = copy.deepcopy(obj)
    rng_arg = range_arg(op)
    entry.update_peaks_bounded(search_range_in_hz=rng_arg, find_peaks_kwargs=copy.deepcopy(op["kwargs"]))
    subs = [entry] if which == "trad" else entry.hvsrs
    amps = [st.amps[0]] if which == "trad" else st.amps
    R = tuple(op["range"])
    models = []
    for a, (h, amp) in enumerate(zip(subs, amps)):
        P = np.array(h.valid_peak_boolean_mask, bool)
        W = np.array(h.valid_window_boolean_mask, bool)
        # per-window peaks under the new range, via HvsrCurve (public)
        pf = np.empty(len(amp))
        for j in range(len(amp)):
            c = H.HvsrCurve(st.f, amp[j])
            c.update_peaks_bounded(search_range_in_hz=R, find_peaks_kwargs=copy.deepcopy(op["kwargs"]))
            pf[j] = c.peak_frequency
        m = {"a": a, "P0": P, "W0": W, "pf": pf, "skip": None}
        if not np.array_equal(P, W):
            m["skip"] = "masks_unequal"
        elif (P & np.isnan(pf)).any():
            m["skip"] = "peakless_valid"
        elif not plain_kwargs(op["kwargs"]):
            m["skip"] = "custom_find_peaks_kwargs"
        else:
            with warnings.catch_warnings():
                warnings.simplefilter("ignore")
                with np.errstate(all="ignore"):
                    quant = []
                    mask, it, status, trace = FD.run(st.f, amp, pf, P, op["n"], op["max_iterations"],
                                                     op["dfn"], op["dmc"], R, quantities=quant)
            m.update(mask=mask, it=it, status=status, trace=trace, quant=quant)
        models.append(m)
    pre["models"] = models
    # twins (built before the call, from the pre-call state); large sets are judged by the refinement alone
    pre["twins"] = []
    if max(len(a) for a in amps) > 16:
        return pre
    if which == "az" and getattr(st, "member_at_entry", None):
        # one azimuth was searched on its own before this call: the twins are built with all azimuths in step and would
        # not start from the same state; the refinement against the published algorithm (from the object's real entry
        # state) is the judge here
        ctx.probe("c06_member_out_of_step_at_entry")
        return pre
    r = rng_for(int(sha_array(st.amps[0])[:8], 16) ^ (ctx.ops_done * 7919))
    perms = [np.array(r.sample(range(len(a)), len(a))) for a in amps]
    try:
        tw, _ = make_twin(st, which, perm=perms, scale=1.0)
        pre["twins"].append(("permute_windows", tw, perms))
        sc = r.choice([0.5, 2.0, 4.0, 0.25, 8.0])      # powers of two: exact, so no tie is created or broken
        if plain_kwargs(op["kwargs"]) and plain_kwargs(st.cur_kwargs):
            tw2, ident = make_twin(st, which, perm=None, scale=sc)
            pre["twins"].append((f"scale_amplitudes({sc})", tw2, ident))
    except Exception as e:                     # noqa
        pre["twin_error"] = type(e).__name__
    return pre


def oracle_c06(ctx, st, op, info):
    if op["op"] != "fdwra":
        return
    for which, (ret, exc, trace, pre) in info["fdwra"].items():
        obj = st.objs[which]
        models = pre["models"]
        finals = masks_of(obj)
        statuses = [m.get("status") for m in models]
        key = {"which": which, "max_iterations_1": op["max_iterations"] == 1}
        judged_model = all(m["skip"] is None and m["status"] == "ok" for m in models)
        any_bad_state = any(m["skip"] is not None or m["status"] in ("degenerate", "nopeak") for m in models)
        if any(m.get("status") == "tie" for m in models):
            ctx.probe("fdwra_float_tie")
        if any(m["skip"] for m in models):
            ctx.probe("fdwra_skip_" + next(m["skip"] for m in models if m["skip"]))
        if exc is not None:
            if any_bad_state:
                ctx.probe("fdwra_raised_outside_algorithm")
                continue
            if isinstance(exc, ValueError) and "peak" in str(exc) and not judged_model:
                ctx.probe("fdwra_raised_no_peak_tie")
                continue
            hit_limit = judged_model and any(
                m["it"] == op["max_iterations"] for m in models)
            ctx.check(False, "fdwra_raised",
                      f"frequency_domain_window_rejection raised {type(exc).__name__}: {exc} "
                      f"(n={op['n']}, max_iterations={op['max_iterations']}, model statuses {statuses})",
                      key={**key, "exc": type(exc).__name__, "at_limit": bool(hit_limit)})
            continue
        # --- always-on invariants (no float comparison involved)
        ctx.check(isinstance(ret, (int, np.integer)) and not isinstance(ret, bool) and
                  1 <= int(ret) <= op["max_iterations"], "iteration_count_range",
                  f"returned {ret!r}; expected an int in 1..{op['max_iterations']}", key=key)
        for m, (Wf, Pf) in zip(models, finals):
            ctx.check(not (Pf & ~m["P0"]).any() and not (Wf & ~m["W0"]).any(), "re_accepted_window",
                      lambda: f"azimuth {m['a']}: windows {np.nonzero(Pf & ~m['P0'])[0].tolist()} were rejected on entry "
                              f"but are accepted afterwards", key=key)
        # trace: one record per iteration, accepted set shrinks monotonically
        per_az, cur = [], None
        for rec in trace:
            if rec["it"] == 1:
                cur = []
                per_az.append(cur)
            if cur is not None:
                cur.append(rec)
        if per_az and all(r["peak"] is not None for seq in per_az for r in seq):
            ctx.check(len(per_az) == len(models), "trace_shape",
                      f"{len(per_az)} traced azimuths for {len(models)} azimuths", key=key)
            longest = 0
            for seq, m, (Wf, Pf) in zip(per_az, models, finals):
                longest = max(longest, len(seq))
                prev = np.array(m["P0"])
                ctx.check(np.array_equal(np.array(seq[0]["peak"]), prev), "trace_entry_state",
                          "first traced mask differs from the entry state", key=key)
                for rec in seq:
                    cur_m = np.array(rec["peak"])
                    ctx.check(not (cur_m & ~prev).any(), "trace_not_monotone",
                              f"iteration {rec['it']} re-accepts a window", key=key)
                    prev = cur_m
                ctx.check(not (Pf & ~prev).any(), "trace_not_monotone", "final mask re-accepts a window", key=key)
            ctx.check(longest == int(ret), "iteration_count_vs_trace",
                      f"returned {ret} but {longest} iterations were performed", key=key)
            # the quantities the algorithm looked at in each iteration (when the trace carries them): the mean and standard
            # deviation of fn over the accepted peaks and the peak of the mean curve within the range, before and after
            if judged_model:
                for seq, m in zip(per_az, models):
                    for rec, q in zip(seq, m.get("quant") or []):
                        if q["status"] != "ok":
                            break
                        for name_, tol in (("mc_peak_frq_before", 1e-12), ("mc_peak_frq_after", 1e-12), ("mean_fn_before", 1e-9),
                                           ("mean_fn_after", 1e-9), ("std_fn_before", 1e-7), ("std_fn_after", 1e-7)):
                            if name_ in rec:
                                scale_ = max(abs(q[name_]), abs(q["mean_fn_before"]))
                                ctx.check(abs(rec[name_] - q[name_]) <= tol * scale_ + 1e-300, "iteration_quantity_differs",
                                          lambda: f"azimuth {m['a']}, iteration {rec['it']}: the rejection worked with {name_} = "
                                                  f"{rec[name_]!r}, the published algorithm's value for that accept state and search "
                                                  f"range {op['range']} is {q[name_]!r}", key={**key, "quantity": name_})
                                ctx.probe("fdwra_iteration_quantities_judged")
        # --- refinement against the reference algorithm
        if judged_model:
            exp_it = max(m["it"] for m in models)
            for m, (Wf, Pf) in zip(models, finals):
                ctx.check(np.array_equal(Pf, m["mask"]) and np.array_equal(Wf, m["mask"]), "decisions_differ",
                          lambda: f"azimuth {m['a']}: accepted {np.nonzero(Pf)[0].tolist()} but Cox et al. (2020) accepts "
                                  f"{np.nonzero(m['mask'])[0].tolist()} (entry {np.nonzero(m['P0'])[0].tolist()}, peaks {m['pf'].tolist()}, "
                                  f"n={op['n']}, dfn={op['dfn']}, dmc={op['dmc']}, range={op['range']})", key=key)
            ctx.check(int(ret) == exp_it, "iteration_count_differs",
                      f"returned {ret} iterations, reference algorithm performs {exp_it} (max_iterations={op['max_iterations']})",
                      key=key)
            if exp_it == op["max_iterations"] and op["max_iterations"] > 1:
                ctx.probe("fdwra_stopped_at_limit")
            if exp_it == op["max_iterations"]:
                ctx.probe("fdwra_reached_max_iterations")
            ctx.probe("fdwra_refinement_judged")
            # twins: same decisions up to the permutation / under rescaling
            for name, tw, perms in pre.get("twins", []):
                r2, e2, _ = call_fdwra(tw, op)
                if e2 is not None:
                    ctx.check(False, "twin_raised", f"{name}: twin raised {type(e2).__name__}: {e2}", key=key)
                    continue
                tf = masks_of(tw)
                for (Wf, Pf), (Wt, Pt), p in zip(finals, tf, perms):
                    ctx.check(np.array_equal(Pf[p], Pt) and np.array_equal(Wf[p], Wt), "twin_decisions_differ",
                              lambda: f"{name}: decisions differ ({np.nonzero(Pf[p])[0].tolist()} vs {np.nonzero(Pt)[0].tolist()})",
                              key={**key, "twin": name.split("(")[0]})
                ctx.check(int(r2) == int(ret), "twin_iterations_differ", f"{name}: {r2} vs {ret} iterations",
                          key={**key, "twin": name.split("(")[0]})
                ctx.probe("fdwra_twin_" + name.split("(")[0])


# ===================================================================== execute
def run_oracles(ctx, st, op, info, prop):
    if prop == "C08":
        oracle_c08(ctx, st, op, info)
    elif prop == "C05":
        oracle_c05(ctx, st, op, info)
    elif prop == "C11":
        oracle_c11(ctx, st, op, info)
    elif prop == "C06":
        oracle_c06(ctx, st, op, info)
    elif prop == "C12":
        from .hvsrobj_io import oracle_c12_shadow
        oracle_c12_shadow(ctx, st, op, info)
    # C20 oracles live inside the plot operation itself


def execute(triple, prop):
    ctx = Ctx(prop)
    violation = None
    try:
        with warnings.catch_warnings():
            warnings.simplefilter("ignore")
            st = build_world(triple["world"])
        ctx.event(op="build", kind=st.kind, f=sha_array(st.f), amps=[sha_array(a) for a in st.amps])
        for i, op in enumerate(triple["ops"]):
            gc_point()
            lockstep = st.shadow is not None and st.shadow.objs and op["op"] not in ("write_read", "plot")
            try:
                info = apply_op(ctx, st, op, prop)
            except (Violation, HarnessError):
                raise
            except Exception as e:                      # noqa
                if not (prop == "C12" and lockstep):
                    raise
                # the operation raised on the READ-BACK objects: does it on the objects that were written?
                try:
                    apply_op(Ctx(prop), st.shadow, op, None)
                    other = None
                except Exception as e2:                 # noqa
                    other = e2
                ctx.check(other is not None and type(other) is type(e), "history_diverges_after_readback",
                          f"{op['op']} raised {type(e).__name__}: {e} on the read-back object but "
                          + ("succeeded" if other is None else f"raised {type(other).__name__}") + " on the object that was written",
                          key={"after": op["op"], "raised": type(e).__name__})
                ctx.probe("operation_raised_on_both_objects")
                break
            ctx.ops_done += 1
            if lockstep:
                apply_op(Ctx(prop), st.shadow, op, None)
            run_oracles(ctx, st, op, info, prop)
            signature(ctx, st, op)
            ctx.event(op=op["op"], i=i, exc=info.get("exc"),
                      masks=[[sha_array(w), sha_array(p)] for _, h, _ in trads_of(st)
                             for w, p in [(np.asarray(h.valid_window_boolean_mask), np.asarray(h.valid_peak_boolean_mask))]],
                      range=list(st.cur_range), extra=info.get("log"))
    except Violation as v:
        violation = v.as_dict()
        ctx.event(violation=violation["oracle"])
    nontrivial = sum(ctx.judged.values()) > 0 and ctx.state_changes > 0
    return {"violation": violation, "digest": ctx.digest(), "probes": dict(ctx.probes),
            "faults": dict(ctx.faults), "ops": ctx.ops_done, "judged": dict(ctx.judged),
            "sigs": list(ctx.sig) if nontrivial else [], "nontrivial": bool(nontrivial),
            "known": ctx.known, "sim_seconds": ctx.sim_seconds}


# ===================================================================== shrinking
def shrinks(t, prop):
    """Structural simplifications tried by the minimiser (each is a candidate)."""
    w = t["world"]
    # fewer azimuths
    if len(w["curves"]) > 1 and w["kind"] in ("azimuthal", "multi"):
        for a in range(len(w["curves"])):
            c = copy.deepcopy(t)
            del c["world"]["curves"][a]
            del c["world"]["azimuths"][a]
            c["ops"] = [o for o in c["ops"] if not (o["op"] == "set_masks" and o["az"] >= len(c["world"]["curves"]))]
            yield c
    # fewer windows
    if prop == "C13":
        nwin = len(w["curves"][0])
        if nwin > 2:
            for j in range(nwin):
                c = copy.deepcopy(t)
                for cs in c["world"]["curves"]:
                    del cs[j]
                del c["world"]["records"]["envs"][j]
                for o in c["ops"]:
                    if o["op"] == "set_masks":
                        o["idx"] = [i - (i > j) for i in o["idx"] if i != j]
                yield c
        for i, o in enumerate(t["ops"]):
            if o["op"] in ("sta_lta", "max_value"):
                for k, v in (("twins", []), ("dup", False), ("container", "list"), ("components", ["vt"])):
                    if o.get(k) != v:
                        c = copy.deepcopy(t)
                        c["ops"][i][k] = v
                        yield c
    for a, cs in enumerate(w["curves"] if prop != "C13" else []):
        if len(cs) > 2:
            for j in range(len(cs)):
                c = copy.deepcopy(t)
                del c["world"]["curves"][a][j]
                for o in c["ops"]:
                    if o["op"] == "set_masks" and o["az"] == a:
                        o["idx"] = [i - (i > j) for i in o["idx"] if i != j]
                if w["kind"] != "azimuthal" or prop in ("C08", "C11", "C06", "C12", "C05"):
                    yield c
    # coarser grid
    g = w["grid"]
    if g["n"] > 8:
        c = copy.deepcopy(t)
        c["world"]["grid"]["n"] = max(8, g["n"] // 2)
        yield c
    # simpler op arguments
    for i, o in enumerate(t["ops"]):
        if o.get("fault"):
            c = copy.deepcopy(t)
            del c["ops"][i]["fault"]
            yield c
        if "range" in o and o["range"] != [None, None]:
            for r in ([None, None], [o["range"][0], None], [None, o["range"][1]]):
                if r != o["range"]:
                    c = copy.deepcopy(t)
                    c["ops"][i]["range"] = r
                    yield c
        if o.get("kwargs") not in (None,) and "kwargs" in o:
            c = copy.deepcopy(t)
            c["ops"][i]["kwargs"] = None
            yield c
        if o.get("rtype") == "list":
            c = copy.deepcopy(t)
            c["ops"][i]["rtype"] = "tuple"
            yield c
        if o["op"] == "fdwra" and o["max_iterations"] > 1:
            c = copy.deepcopy(t)
            c["ops"][i]["max_iterations"] = 1
            yield c
        if o["op"] == "plot":
            for k, v in o.get("opts", {}).items():
                if v:
                    c = copy.deepcopy(t)
                    c["ops"][i]["opts"][k] = False
                    yield c
    # plainer curves
    for a, cs in enumerate(w["curves"]):
        for j, s in enumerate(cs):
            if s["r"] != "bump" or s.get("noise"):
                c = copy.deepcopy(t)
                c["world"]["curves"][a][j] = {"r": "bump", "k": 0, "i0": s.get("i0", 3), "a": 2.0, "w": 0.3, "base": 1.0}
                yield c


_COMPONENTS = {
    "real": ["HvsrCurve / HvsrTraditional / HvsrAzimuthal / HvsrDiffuseField and hvsrpy.statistics",
             "frequency_domain_window_rejection, sta_lta_window_rejection, maximum_value_window_rejection, manual_window_rejection",
             "write_hvsr_object_to_file / read_hvsr_object_from_file with numpy savetxt/loadtxt and the stdlib I/O stack (C12)",
             "hvsrpy.postprocessing on the matplotlib Agg back end, pandas Styler (C20)"],
    "stub": ["the human in manual_window_rejection (SimUser replaces ginput_session)",
             "the raw storage device (SimFS, fault-injecting) (C12)",
             "IPython.display.display (captured) and injected exceptions inside Axes.plot/fill/legend (C20)"],
}
EVIDENCE = {
    "C05": {"components": _COMPONENTS, "assumptions": [
        "excluded: masks assigned as integer arrays (fancy indexing instead of boolean selection), mixed-case distribution names",
        "per-window peaks are taken from the public HvsrCurve API under the object's current range (peak finding is C08's business)",
        "states with fewer than two accepted windows or peaks are outside the property's domain and counted as trivial",
        "the rebuilt-from-accepted comparison is made only when every accepted window has a peak and both masks agree",
        "no storage, clock or scheduling fault applies to this property; the simulator owns the operation history"]},
    "C06": {"components": _COMPONENTS, "assumptions": [
        "excluded: n / max_iterations given as small numpy integer types that overflow (np.uint8(2), np.int8(127)), states in which the "
        "accepted set shrinks below two peaks (the published algorithm does not define them; counted as degenerate)",
        "entry state = deep copy of the object after its own public update_peaks_bounded call with the operation's arguments",
        "float ties (peak within 1e-9 of a bound, convergence quantity within 1e-9 of 0.01, a zero-tested quantity below 1e-12, "
        "near-equal maxima of the mean curve) are counted (probe fdwra_float_tie) but the refinement is not judged there",
        "custom find_peaks kwargs and entry states with unequal masks are not refined (always-on invariants still apply)",
        "no fault kind applies to this property"]},
    "C08": {"components": _COMPONENTS, "assumptions": [
        "excluded: descending frequency grids, a search range given as an ndarray, invalid find_peaks kwargs (an update that raises)",
        "'strictly inside the range' is judged so that both the snapped-to-grid and the in-hertz reading accept the verdict "
        "(models/peaks.py: required = inside under both readings, allowed = inside under either)",
        "with custom find_peaks kwargs only 'is an interior local maximum with the curve's amplitude' is judged",
        "no fault kind applies to this property"]},
    "C11": {"components": _COMPONENTS, "assumptions": [
        "statistics of the resonance are judged when every azimuth has an accepted peak (>= 2 in total); curve statistics when "
        "every azimuth has an accepted window and both masks have equal counts",
        "no fault kind applies to this property"]},
    "C12": {"components": _COMPONENTS, "assumptions": [
        "excluded: duplicated adjacent azimuth values (the file keys curves by the printed azimuth), members whose frequency vectors "
        "differ within np.allclose, members updated on their own right before a write (probe members_out_of_step_at_write), "
        "file names with a compression suffix; the entry 'processing_method' (which tells the reader the class to build) is the writer's and is not compared",
        "azimuth values are distinct and have a plain decimal representation (the file format keys curves by the printed azimuth)",
        "a torn file left by a failed or crashed write is probe-counted, not judged (the property speaks of completed writes)",
        "under an injected write/read fault the call must raise, leave the object unchanged, and one retry must succeed"]},
    "C13": {"components": _COMPONENTS, "assumptions": [
        "excluded: sta_seconds shorter than one sample, all-zero components (NaN ratios), an attached object whose window count differs "
        "from the number of windows, generators as the window list of maximum_value_window_rejection (it needs len())",
        "what the simulator owns here is the history of the attached result object (range updates, frequency-domain / manual "
        "rejections, mask edits, earlier time-domain rejections) and the identity/order/container of the window list; the "
        "per-window verdict is judged only where the property speaks ('clearly' inside/outside: farther than 1e-6 relative "
        "from a limit under every reasonable conversion of seconds to samples), all else is counted as c13_verdict_not_clear",
        "STA = mean |x| over consecutive blocks of sta_seconds, LTA = mean |x| over the first lta_seconds of the window, "
        "as the function documents; STA/LTA lengths never exceed the window; one time window per curve on every azimuth",
        "no storage, clock or scheduling fault applies to this property"]},
    "C20": {"components": _COMPONENTS, "assumptions": [
        "artists are judged, not pixels; Agg back end only",
        "plot_azimuthal_summary draws the mean-curve peak marker up to twice by design; every such marker must equal the object's",
        "the period row is judged for distribution_fn='lognormal' (the table shows NaN for 'normal')"]},
}
REQUIRED_PROBES = {
    "C05": ["c05_rebuilt", "c05_garbage_twin", "history_continues_on_a_copy"],
    "C08": ["caller_edits_returned_array", "caller_reuses_range_list", "caller_reuses_kwargs_dict", "same_range_update"],
    "C06": ["fdwra_refinement_judged", "fdwra_reached_max_iterations", "fdwra_twin_permute_windows"],
    "C11": ["c11_unequal_counts", "c11_single_azimuth", "c11_rebuilt"],
    "C12": ["roundtrip_judged_trad", "roundtrip_judged_az", "roundtrip_judged_diff", "shadow_compared",
            "caller_edits_nested_option_in_place", "members_out_of_step_at_write"],
    "C13": ["c13_attached_trad_history", "c13_attached_az_history", "c13_kept_some", "c13_twin_conj", "c13_twin_alone"],
    "C20": ["plot_judged_single_panel", "plot_judged_pre_post", "plot_judged_summary_table",
            "one_array_assigned_to_both_masks"],
}
