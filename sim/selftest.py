"""Self-tests of the simulator itself (DESIGN 2.10).

  python -m sim.selftest determinism [PROPS…] [--runs N]
      every run index executed (a) twice in one process, (b) in fresh
      interpreters under two PYTHONHASHSEED values and two driver worker counts
      (1 and 16); all event-log digests must agree.
  python -m sim.selftest sensitivity [PROPS…]
      every patch /verif/mutants/<ID>-*.patch is applied to a scratch copy of the
      repository's package (outside /repo and /verif), the quick check is pointed
      at the copy (HVSRPY_REPO) and must exit 1; the copy is removed immediately.
  python -m sim.selftest seeded [IDS…]
      same, for the independently written changes under /verif/seeded/<id>/patch.diff.
  python -m sim.selftest controls [IDS…]
      negative controls: behaviour-preserving refactorings under /verif/controls/<id>/patch.diff;
      every check must exit 0 on every one of them.
"""
import argparse
import copy
import glob
import json
import os
import shutil
import subprocess
import sys
import tempfile

from . import env

env.bootstrap()

from . import core  # noqa: E402
from .check import MACHINE_OF, machine_for  # noqa: E402

VERIF = core.VERIF_DIR
RUNS = {"C19": 24, "C20": 60, "C03": 80, "C09": 80, "C12": 150, "C11": 150, "C15": 150}


def in_process_twice(prop, n):
    m = machine_for(prop)
    w = getattr(m, "warm", None)
    if w:
        w(prop)
    bad = []
    for i in range(n):
        seed = core.run_seed(prop, 0, i)
        t1 = m.generate(seed, prop)
        t2 = m.generate(seed, prop)
        if core.canon(t1) != core.canon(t2):
            bad.append((i, "generate"))
            continue
        d1 = m.execute(copy.deepcopy(t1), prop)["digest"]
        d2 = m.execute(copy.deepcopy(t1), prop)["digest"]
        if d1 != d2:
            bad.append((i, "execute"))
    return bad


def fresh(prop, n, workers, hashseed, out):
    e = dict(os.environ)
    e["PYTHONHASHSEED"] = str(hashseed)
    e["VERIF_SEED"] = "0"
    p = subprocess.run([sys.executable, "-m", "sim.check", prop, "--runs", str(n), "--workers", str(workers),
                        "--digests", out, "--no-minimise"], cwd=VERIF, env=e, capture_output=True, text=True, timeout=3600)
    if p.returncode not in (0, 1):
        raise RuntimeError(f"{prop}: check exited {p.returncode}\n{p.stdout[-2000:]}\n{p.stderr[-2000:]}")
    with open(out) as f:
        return {int(i): d for i, d in json.load(f)}


def determinism(props, runs):
    ok = True
    scratch = tempfile.mkdtemp(prefix="hvsrpy-verif-det-")
    try:
        for prop in props:
            n = runs or RUNS.get(prop, 200)
            bad = in_process_twice(prop, min(n, 60))
            a = fresh(prop, n, 1, 0, os.path.join(scratch, "a.json"))
            b = fresh(prop, n, 16, 4242, os.path.join(scratch, "b.json"))
            common = sorted(set(a) & set(b))
            diff = [i for i in common if a[i] != b[i]]
            status = "OK" if not bad and not diff and len(common) >= min(n, len(a)) else "FAIL"
            if status != "OK":
                ok = False
            print(f"determinism {prop}: {status}  in-process twice: {len(bad)} mismatches; fresh interpreters "
                  f"(workers 1 vs 16, PYTHONHASHSEED 0 vs 4242): {len(diff)} of {len(common)} digests differ {diff[:5]}")
    finally:
        shutil.rmtree(scratch, ignore_errors=True)
    return 0 if ok else 2


def run_against_patch(prop, patch, budget=None, runs=None):
    """Apply `patch` to a scratch copy of the package, run the quick check there."""
    scratch = tempfile.mkdtemp(prefix="hvsrpy-verif-mut-")
    try:
        shutil.copytree(os.path.join(env.repo_path(), "hvsrpy"), os.path.join(scratch, "hvsrpy"))
        p = subprocess.run(["patch", "-p1", "-s", "-d", scratch, "-i", patch], capture_output=True, text=True)
        if p.returncode != 0:
            return None, "patch does not apply: " + (p.stdout + p.stderr)[-300:]
        e = dict(os.environ)
        e["HVSRPY_REPO"] = scratch
        if budget:
            e["VERIF_BUDGET_S"] = str(budget)
        cmd = [sys.executable, "-m", "sim.check", prop, "--tier", "quick"]
        if runs:
            cmd += ["--runs", str(runs)]
        q = subprocess.run(cmd, cwd=VERIF, env=e, capture_output=True, text=True, timeout=3600)
        tail = "\n".join((q.stdout + q.stderr).strip().splitlines()[-4:])
        return q.returncode, tail
    finally:
        shutil.rmtree(scratch, ignore_errors=True)


def sensitivity(props):
    ok = True
    for patch in sorted(glob.glob(os.path.join(VERIF, "mutants", "*.patch"))):
        name = os.path.basename(patch)
        prop = name.split("-")[0]
        if props and prop not in props:
            continue
        code, tail = run_against_patch(prop, patch)
        good = code == 1
        ok &= good
        print(f"sensitivity {name}: {'DETECTED' if good else 'MISSED (exit %s)' % code}")
        if not good:
            print("   " + tail.replace("\n", "\n   "))
        else:
            line = [l for l in tail.splitlines() if "oracle=" in l]
            print("   " + (line[0].strip() if line else ""))
    return 0 if ok else 2


def seeded(ids, all_checks=False):
    ok = True
    for d in sorted(glob.glob(os.path.join(VERIF, "seeded", "*"))):
        sid = os.path.basename(d)
        if ids and sid not in ids:
            continue
        meta = json.load(open(os.path.join(d, "meta.json")))
        prop = meta["property"]
        code, tail = run_against_patch(prop, os.path.join(d, "patch.diff"))
        good = code == 1
        ok &= good
        print(f"seeded {sid} ({prop}): {'DETECTED' if good else 'MISSED (exit %s)' % code}")
        line = [l for l in tail.splitlines() if "oracle=" in l or "HARNESS" in l or l.startswith("OK")]
        print("   " + (line[0].strip() if line else tail[-200:]))
    return 0 if ok else 2


def controls(ids, budget=None):
    """Negative controls: behaviour-preserving refactorings under /verif/controls/<id>/patch.diff.
    EVERY check must stay silent (exit 0) on every one of them."""
    ok = True
    for d in sorted(glob.glob(os.path.join(VERIF, "controls", "*"))):
        cid = os.path.basename(d)
        if ids and cid not in ids:
            continue
        for prop in sorted(MACHINE_OF):
            code, tail = run_against_patch(prop, os.path.join(d, "patch.diff"), budget=budget)
            good = code == 0
            ok &= good
            print(f"control {cid} {prop}: {'SILENT' if good else 'ALARM (exit %s)' % code}", flush=True)
            if not good:
                print("   " + tail.replace("\n", "\n   "))
    return 0 if ok else 2


def main():
    ap = argparse.ArgumentParser()
    ap.add_argument("what", choices=["determinism", "sensitivity", "seeded", "controls"])
    ap.add_argument("ids", nargs="*")
    ap.add_argument("--runs", type=int, default=0)
    a = ap.parse_args()
    if a.what == "determinism":
        return determinism(a.ids or sorted(MACHINE_OF), a.runs)
    if a.what == "sensitivity":
        return sensitivity(a.ids)
    if a.what == "controls":
        return controls(a.ids, budget=os.environ.get("VERIF_BUDGET_S"))
    return seeded(a.ids)


if __name__ == "__main__":
    sys.exit(main())
