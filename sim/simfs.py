"""SimFS: a simulated disk under the *real* Python I/O stack.

``SimDisk`` maps path -> bytearray.  ``SimFS.open`` builds
``TextIOWrapper(BufferedWriter|BufferedReader(SimRaw))`` so that buffering,
encoding, newline translation and close/flush semantics are the stdlib's; only
the raw device is simulated.  ``SimRaw`` consults one *armed fault* (a dict)
at every raw call.  Paths handled here start with ``/simfs/``; anything else
falls through to the builtin ``open`` (never used by the machines).

Fault kinds at this layer (DESIGN 2.3):
  short_write     raw write accepts only part of the buffer (stdlib must retry)
  enospc/eio_write  raw write raises OSError once ``at`` bytes of this file were taken
  crash_in_write  raises SimCrash after ``at`` bytes (caller performs a restart)
  eio_read        raw readinto raises OSError at the ``at``-th call
"""
import builtins
import errno
import io
import os

from .core import SimCrash

PREFIX = "/simfs/"          # an absolute, normal, non-URL-looking path: survives abspath/realpath/urlparse untouched
FAKE_FD = [1 << 24]
_REAL_OPEN = builtins.open
_REAL_FILEIO = io.FileIO
_OS_NAMES = ("read", "fstat", "lseek", "sendfile", "open", "stat", "lstat", "replace", "rename", "remove", "unlink", "fsync", "close", "write", "makedirs", "mkdir",
             "access", "listdir", "scandir", "truncate", "ftruncate")
_PATH_NAMES = ("exists", "isfile", "isdir", "getsize", "getmtime", "lexists", "samefile")
_REAL_OS = {n: getattr(os, n) for n in _OS_NAMES}
_REAL_PATH = {n: getattr(os.path, n) for n in _PATH_NAMES}


class _RealOs:
    """The os module as it was before any seam was installed (the shims fall back to it, never to themselves)."""
    path = None

    def __getattr__(self, name):
        return _REAL_OS[name] if name in _REAL_OS else getattr(os, name)


class _RealPath:
    def __getattr__(self, name):
        return _REAL_PATH[name] if name in _REAL_PATH else getattr(os.path, name)


REAL_OS = _RealOs()
REAL_OS.path = _RealPath()


def is_sim(path):
    if isinstance(path, os.PathLike):
        path = os.fspath(path)
    return isinstance(path, str) and path.startswith(PREFIX)


def as_key(path):
    return os.fspath(path) if isinstance(path, os.PathLike) else path


class SimDisk:
    def __init__(self):
        self.files = {}
        self._seen = {}            # path -> (content hash, mtime_ns) as last reported by stat()
        self._clock = 1_700_000_000_000_000_000

    def stat(self, path):
        """Size and modification time of a simulated file.  The time stamp moves (strictly forward) whenever the content
        differs from what the previous stat of this path saw - machines may assign ``files[path]`` directly, so the
        stamp is derived at observation time instead of being tracked at every mutation site."""
        import hashlib
        import types
        if path not in self.files:
            k = path.rstrip("/")
            if "." not in k.rsplit("/", 1)[-1] or any(f.startswith(k + "/") for f in self.files):
                return types.SimpleNamespace(st_size=4096, st_mtime_ns=self._clock, st_mtime=self._clock / 1e9, st_mode=0o040755,
                                             st_ctime_ns=self._clock, st_ctime=self._clock / 1e9, st_atime_ns=self._clock,
                                             st_atime=self._clock / 1e9, st_ino=1, st_dev=1, st_nlink=2, st_uid=0, st_gid=0)
            raise FileNotFoundError(errno.ENOENT, "No such file or directory", path)
        data = bytes(self.files[path])
        h = hashlib.sha256(data).digest()
        old = self._seen.get(path)
        if old is None or old[0] != h:
            self._clock += 1_000_003
            self._seen[path] = (h, self._clock)
        ns = self._seen[path][1]
        return types.SimpleNamespace(st_size=len(data), st_mtime_ns=ns, st_mtime=ns / 1e9, st_ctime_ns=ns, st_ctime=ns / 1e9,
                                     st_atime_ns=ns, st_atime=ns / 1e9, st_mode=0o100644, st_ino=abs(hash(path)) % (1 << 31),
                                     st_dev=1, st_nlink=1, st_uid=0, st_gid=0)

    def snapshot(self):
        return {k: bytes(v) for k, v in self.files.items()}


class SimRaw(io.RawIOBase):
    def __init__(self, fs, path, mode):
        super().__init__()
        self.fs, self.path, self.mode = fs, path, mode
        self.name = path
        self.pos = 0
        self.calls = 0
        self.dead = False
        self.fault = fs.take_fault(path, mode)
        if "w" in mode and "n" in mode:
            fs.disk.files.setdefault(path, bytearray())     # os.open(O_WRONLY|O_CREAT) without O_TRUNC
        elif "w" in mode:
            fs.disk.files[path] = bytearray()      # truncate at open, like the real thing
        elif "a" in mode:
            fs.disk.files.setdefault(path, bytearray())
            self.pos = len(fs.disk.files[path])
        else:
            if path not in fs.disk.files:
                raise FileNotFoundError(errno.ENOENT, "No such file or directory", path)

    # capabilities ------------------------------------------------------
    def fileno(self):
        """A fake descriptor (>= 2**20): enough for advisory locking (fcntl.flock / lockf are no-ops on it while the seams
        are installed) and os.fsync through the OsProxy."""
        if not hasattr(self, "_fd"):
            self._fd = FAKE_FD[0]
            FAKE_FD[0] += 1
            self.fs.raw_fds[self._fd] = self.path
        return self._fd

    def readable(self):
        return "r" in self.mode or "+" in self.mode

    def writable(self):
        return any(c in self.mode for c in "wa+")

    def truncate(self, size=None):
        data = self.fs.disk.files[self.path]
        size = self.pos if size is None else size
        del data[size:]
        return size

    def seekable(self):
        return True

    def seek(self, off, whence=0):
        size = len(self.fs.disk.files.get(self.path, b""))
        if whence == 0:
            self.pos = off
        elif whence == 1:
            self.pos += off
        else:
            self.pos = size + off
        return self.pos

    def tell(self):
        return self.pos

    # I/O ------------------------------------------------------------------
    def readinto(self, b):
        self.calls += 1
        f = self.fault
        if f and f["kind"] == "eio_read" and self.calls - 1 >= f.get("at", 0) and not f.get("fired"):
            f["fired"] = True
            self.fs.fired(f)
            raise OSError(errno.EIO, "Input/output error (injected)", self.path)
        data = self.fs.disk.files[self.path]
        chunk = bytes(data[self.pos:self.pos + len(b)])
        b[:len(chunk)] = chunk
        self.pos += len(chunk)
        return len(chunk)

    def write(self, b):
        if self.dead:
            return len(b)
        b = bytes(b)
        self.calls += 1
        f = self.fault
        data = self.fs.disk.files[self.path]
        take = len(b)
        if f and f["kind"] in ("enospc", "eio_write", "crash_in_write"):
            room = f["at"] - self.fs.written.get(self.path, 0)
            if room <= 0:
                if not f.get("fired"):
                    f["fired"] = True
                    self.fs.fired(f)
                if f["kind"] == "crash_in_write":
                    self.dead = True
                    raise SimCrash(self.path)
                code = errno.ENOSPC if f["kind"] == "enospc" else errno.EIO
                raise OSError(code, "injected write failure", self.path)
            take = min(take, room)
        elif f and f["kind"] == "short_write" and not f.get("fired") and len(b) > 1:
            f["fired"] = True
            self.fs.fired(f)
            take = max(1, len(b) // 2)
        data[self.pos:self.pos + take] = b[:take]
        self.pos += take
        self.fs.written[self.path] = self.fs.written.get(self.path, 0) + take
        return take


class SimFS:
    def __init__(self, disk=None, ctx=None):
        self.disk = disk if disk is not None else SimDisk()
        self.ctx = ctx
        self.armed = None          # one fault for the next matching open
        self.written = {}          # path -> bytes taken since last arm()/reset
        self.opens = []            # (path, mode) history, for oracles
        self.fds = {}              # fake descriptors handed out by OsProxy.open
        self.fd_pos = {}           # write position of descriptors used with os.write
        self.raw_fds = {}          # fileno() of open simulated files -> path (for os.fstat and the like)

    # fault plan ---------------------------------------------------------
    def arm(self, fault):
        """Arm one fault (dict with kind, at, optional path) for the next open
        in the matching direction; returns the live dict (``fired`` is set)."""
        self.armed = dict(fault) if fault else None
        self.written = {}
        return self.armed

    def disarm(self):
        self.armed = None

    def take_fault(self, path, mode):
        f = self.armed
        if not f:
            return None
        wants_write = f["kind"] in ("short_write", "enospc", "eio_write", "crash_in_write")
        is_write = any(c in mode for c in "wa+")
        if wants_write != is_write:
            return None
        if f.get("path") not in (None, path):
            return None
        self.written[path] = 0
        return f

    def fired(self, f):
        if self.ctx is not None:
            self.ctx.fault(f["kind"])

    # open ------------------------------------------------------------------
    def open(self, file, mode="r", buffering=-1, encoding=None, errors=None,
             newline=None, closefd=True, opener=None):
        if isinstance(file, int) and file in self.fds:       # a fake descriptor from OsProxy.open
            path, flags = self.fds.pop(file)
            return self._open_path(path, mode, encoding, errors, newline, no_truncate=True)
        if not is_sim(file):
            return _REAL_OPEN(file, mode, buffering, encoding, errors, newline, closefd, opener)
        return self._open_path(as_key(file), mode, encoding, errors, newline)

    def _open_path(self, file, mode, encoding=None, errors=None, newline=None, no_truncate=False):
        self.opens.append((file, mode))
        binary = "b" in mode
        core = mode.replace("b", "").replace("t", "")
        if no_truncate and "w" in core:
            core += "n"
        raw = SimRaw(self, file, core)
        if "+" in core:
            buf = io.BufferedRandom(raw)
        elif any(c in core for c in "wa"):
            buf = io.BufferedWriter(raw)
        else:
            buf = io.BufferedReader(raw)
        if binary:
            return buf
        return io.TextIOWrapper(buf, encoding=encoding or "utf-8", errors=errors, newline=newline)

    # helpers for machines --------------------------------------------------
    def read_bytes(self, path):
        return bytes(self.disk.files[path])

    def write_bytes(self, path, data):
        self.disk.files[path] = bytearray(data)

    def exists(self, path):
        return path in self.disk.files


class OsPathProxy:
    def __init__(self, real, fs):
        self._real, self._fs = real, fs

    def __getattr__(self, name):
        return getattr(self._real, name)

    def isfile(self, p):
        return as_key(p) in self._fs.disk.files if is_sim(p) else self._real.isfile(p)

    def isdir(self, p):
        # directories of the simulated disk exist implicitly (a name without a suffix that is not a file)
        if not is_sim(p):
            return self._real.isdir(p)
        k = as_key(p).rstrip("/")
        return k not in self._fs.disk.files and ("." not in k.rsplit("/", 1)[-1] or
                                                   any(f.startswith(k + "/") for f in self._fs.disk.files))

    def exists(self, p):
        return (self.isfile(p) or self.isdir(p)) if is_sim(p) else self._real.exists(p)

    lexists = exists

    def getsize(self, p):
        return self._fs.disk.stat(as_key(p)).st_size if is_sim(p) else self._real.getsize(p)

    def getmtime(self, p):
        return self._fs.disk.stat(as_key(p)).st_mtime if is_sim(p) else self._real.getmtime(p)

    def _same(self, p):                       # /simfs/ paths are already absolute, normal and real
        return as_key(p)

    def abspath(self, p):
        return self._same(p) if is_sim(p) else self._real.abspath(p)

    def realpath(self, p, *a, **k):
        return self._same(p) if is_sim(p) else self._real.realpath(p, *a, **k)

    def normpath(self, p):
        return self._same(p) if is_sim(p) else self._real.normpath(p)

    def expanduser(self, p):
        return self._same(p) if is_sim(p) else self._real.expanduser(p)


class OsProxy:
    """Stands in for the ``os`` global of a patched module so that the usual 'durable save' idioms
    (os.open + os.fdopen, write to a temporary name + os.replace, os.fsync, os.remove) act on the
    simulated disk for /simfs/ paths.  Everything else passes through to the real os module."""

    def __init__(self, real_os, fs):
        object.__setattr__(self, "_os", REAL_OS)
        object.__setattr__(self, "_fs", fs)
        object.__setattr__(self, "path", OsPathProxy(REAL_OS.path, fs))
        object.__setattr__(self, "_next", [1 << 20])

    def __getattr__(self, name):
        return getattr(self._os, name)

    def open(self, path, flags, mode=0o777, *a, **k):
        if not is_sim(path):
            return self._os.open(path, flags, mode, *a, **k)
        path = as_key(path)
        files = self._fs.disk.files
        if path not in files:
            if not flags & self._os.O_CREAT:
                raise FileNotFoundError(errno.ENOENT, "No such file or directory", path)
            files[path] = bytearray()
        elif flags & self._os.O_EXCL and flags & self._os.O_CREAT:
            raise FileExistsError(errno.EEXIST, "File exists", path)
        if flags & self._os.O_TRUNC:
            files[path] = bytearray()
        fd = self._next[0]
        self._next[0] += 1
        self._fs.fds[fd] = (path, flags)
        return fd

    def stat(self, path, *a, **k):
        if is_sim(path):
            return self._fs.disk.stat(as_key(path))
        return self._os.stat(path, *a, **k)

    lstat = stat

    def fdopen(self, fd, *args, **kwargs):
        if fd in self._fs.fds:
            return self._fs.open(fd, *args, **kwargs)
        return self._os.fdopen(fd, *args, **kwargs)

    def fsync(self, fd):
        if isinstance(fd, int) and fd >= (1 << 20):
            return None
        return self._os.fsync(fd)

    def close(self, fd):
        if fd in self._fs.fds:
            self._fs.fds.pop(fd)
            self._fs.fd_pos.pop(fd, None)
            return None
        return self._os.close(fd)

    def replace(self, src, dst, *a, **k):
        if is_sim(src) and is_sim(dst):
            src, dst = as_key(src), as_key(dst)
            files = self._fs.disk.files
            if src not in files:
                raise FileNotFoundError(errno.ENOENT, "No such file or directory", src)
            files[dst] = files.pop(src)
            return None
        return self._os.replace(src, dst, *a, **k)

    rename = replace

    def remove(self, path, *a, **k):
        if is_sim(path):
            path = as_key(path)
            if path not in self._fs.disk.files:
                raise FileNotFoundError(errno.ENOENT, "No such file or directory", path)
            del self._fs.disk.files[path]
            return None
        return self._os.remove(path, *a, **k)

    unlink = remove

    def write(self, fd, data):
        if fd in self._fs.fds:                          # os.open + os.write + os.close on a simulated file
            path, flags = self._fs.fds[fd]
            buf = self._fs.disk.files[path]
            pos = self._fs.fd_pos.get(fd, len(buf) if flags & self._os.O_APPEND else 0)
            buf[pos:pos + len(data)] = bytes(data)
            self._fs.fd_pos[fd] = pos + len(data)
            return len(data)
        return self._os.write(fd, data)

    def fstat(self, fd):
        if fd in self._fs.fds:
            return self._fs.disk.stat(self._fs.fds[fd][0])
        if fd in self._fs.raw_fds:
            return self._fs.disk.stat(self._fs.raw_fds[fd])
        return self._os.fstat(fd)

    def read(self, fd, n):
        if fd in self._fs.fds:
            path, _flags = self._fs.fds[fd]
            pos = self._fs.fd_pos.get(fd, 0)
            data = bytes(self._fs.disk.files[path][pos:pos + n])
            self._fs.fd_pos[fd] = pos + len(data)
            return data
        return self._os.read(fd, n)

    def lseek(self, fd, pos, how):
        if fd in self._fs.fds:
            size = len(self._fs.disk.files[self._fs.fds[fd][0]])
            cur = self._fs.fd_pos.get(fd, 0)
            new = pos if how == 0 else cur + pos if how == 1 else size + pos
            self._fs.fd_pos[fd] = new
            return new
        return self._os.lseek(fd, pos, how)

    def sendfile(self, out_fd, in_fd, *a, **k):
        if max(out_fd, in_fd) >= (1 << 20):             # no zero-copy between simulated files: callers fall back to read/write
            raise OSError(errno.ENOTSOCK, "sendfile on a simulated file")
        return self._os.sendfile(out_fd, in_fd, *a, **k)

    def makedirs(self, path, *a, **k):
        return None if is_sim(path) else self._os.makedirs(path, *a, **k)

    def mkdir(self, path, *a, **k):
        return None if is_sim(path) else self._os.mkdir(path, *a, **k)

    def access(self, path, mode, *a, **k):
        if is_sim(path):
            return as_key(path) in self._fs.disk.files or not as_key(path).rsplit("/", 1)[-1].count(".")
        return self._os.access(path, mode, *a, **k)

    def listdir(self, path="."):
        if is_sim(path):
            d = as_key(path).rstrip("/") + "/"
            return sorted({k[len(d):].split("/", 1)[0] for k in self._fs.disk.files if k.startswith(d)})
        return self._os.listdir(path)

    def truncate(self, path, length):
        if isinstance(path, int) and path in self._fs.fds:
            path = self._fs.fds[path][0]
        if is_sim(path):
            del self._fs.disk.files[as_key(path)][length:]
            return None
        return self._os.truncate(path, length)

    ftruncate = truncate


class NpProxy:
    """Stands in for the ``np`` global of hvsrpy.object_io: everything passes
    through, except that savetxt/loadtxt on a /simfs/ path are handed an open
    SimFS file object (the real numpy formatter/parser does the work)."""

    def __init__(self, real_np, fs):
        object.__setattr__(self, "_np", real_np)
        object.__setattr__(self, "_fs", fs)

    def __getattr__(self, name):
        return getattr(self._np, name)

    def savetxt(self, fname, X, *args, **kwargs):
        if not is_sim(fname):
            return self._np.savetxt(fname, X, *args, **kwargs)
        enc = kwargs.get("encoding", None)
        with self._fs.open(fname, "w", encoding=enc) as fh:
            return self._np.savetxt(fh, X, *args, **kwargs)

    def loadtxt(self, fname, *args, **kwargs):
        if not is_sim(fname):
            return self._np.loadtxt(fname, *args, **kwargs)
        with self._fs.open(fname, "r") as fh:
            return self._np.loadtxt(fh, *args, **kwargs)


class Patched:
    """Context manager: install SimFS seams into hvsrpy modules, restore after."""

    def __init__(self, fs, modules=(), np_proxy_modules=()):
        self.fs, self.modules, self.npm = fs, modules, np_proxy_modules
        self.saved = []

    def __enter__(self):
        for m in self.modules:
            self.saved.append((m, "open", m.__dict__.get("open", _MISSING)))
            m.open = self.fs.open
        for m in self.modules:
            # `os` as the module sees it (if it imports os at all) acts on the simulated disk too
            import os as _real_os
            self.saved.append((m, "os", m.__dict__.get("os", _MISSING)))
            m.os = OsProxy(_real_os, self.fs)
        for m in self.npm:
            self.saved.append((m, "np", m.__dict__.get("np", _MISSING)))
            m.np = NpProxy(m.__dict__["np"], self.fs)
        # ... and the same seams process-wide, for code that reaches the disk through another module (pathlib, json,
        # tempfile, shutil, numpy's DataSource, pandas ...): builtins.open / io.open and the os functions act on the
        # simulated disk for /simfs/ paths and fall through to the captured real functions for everything else
        import io as _io
        import os as _os_mod
        proxy = OsProxy(_os_mod, self.fs)
        for mod, name, val in [(builtins, "open", self.fs.open), (_io, "open", self.fs.open),
                               (_io, "FileIO", _fileio_shim(self.fs))] + \
                [(_os_mod, n, getattr(proxy, n)) for n in _OS_NAMES if n != "scandir"] + \
                [(_os_mod.path, n, getattr(proxy.path, n)) for n in _PATH_NAMES if hasattr(OsPathProxy, n)]:
            self.saved.append((mod, name, getattr(mod, name)))
            setattr(mod, name, val)
        try:
            fo = __import__("numpy").lib._datasource._file_openers
            fo._load()
            self.saved.append((_DictItem(fo._file_openers, None), "value", fo._file_openers[None]))
            fo._file_openers[None] = self.fs.open
        except Exception:                       # noqa  (numpy internals moved: the NpProxy seam still serves object_io)
            pass
        try:                                    # advisory locks on simulated files always succeed at once (one process)
            import fcntl as _fcntl
            for name in ("flock", "lockf"):
                real = getattr(_fcntl, name)
                self.saved.append((_fcntl, name, real))
                setattr(_fcntl, name, _lock_shim(real))
        except ImportError:                     # pragma: no cover
            pass
        return self.fs

    def __exit__(self, *exc):
        for m, name, old in reversed(self.saved):
            if old is _MISSING:
                try:
                    delattr(m, name)
                except AttributeError:
                    pass
            else:
                setattr(m, name, old)
        self.saved = []
        return False


_MISSING = object()


class _DictItem:
    """setattr(obj, 'value', v) stores into a dict entry (so that Patched.__exit__ can restore it like an attribute)."""

    def __init__(self, d, k):
        object.__setattr__(self, "_d", d)
        object.__setattr__(self, "_k", k)

    def __setattr__(self, name, v):
        self._d[self._k] = v


def _fileio_shim(fs):
    """io.FileIO for simulated paths / fake descriptors (the raw layer of hand-built I/O stacks)."""
    class _Meta(type):
        def __instancecheck__(cls, obj):
            return isinstance(obj, (_REAL_FILEIO, SimRaw))

    class FileIO(metaclass=_Meta):
        def __new__(cls, file, mode="r", closefd=True, opener=None):
            core = mode.replace("b", "")
            if isinstance(file, int) and file in fs.fds:
                path, flags = fs.fds[file] if not closefd else fs.fds.pop(file)
                fs.opens.append((path, mode))
                return SimRaw(fs, path, core + ("n" if "w" in core and not flags & os.O_TRUNC else ""))
            if is_sim(file):
                fs.opens.append((as_key(file), mode))
                return SimRaw(fs, as_key(file), core)
            return _REAL_FILEIO(file, mode, closefd, opener)
    return FileIO


def _lock_shim(real):
    def shim(fd, *a, **k):
        n = fd if isinstance(fd, int) else fd.fileno()
        if n >= (1 << 20):
            return None
        return real(fd, *a, **k)
    return shim
