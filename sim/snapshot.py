"""Deep, order-stable snapshots of arbitrary objects, for frame conditions
("X did not change").  No id(), no repr() of hvsrpy objects."""
import math

import numpy as np

from .core import sha_array


def snap(o, _depth=0):
    if _depth > 12:
        return ("deep",)
    if o is None or isinstance(o, (bool, str, int)):
        return o
    if isinstance(o, float):
        return "nan" if math.isnan(o) else o
    if isinstance(o, np.generic):
        return snap(o.item(), _depth)
    if isinstance(o, np.ndarray):
        return ("nd", str(o.dtype), tuple(o.shape), sha_array(o))
    if isinstance(o, tuple):
        return ("tuple", [snap(x, _depth + 1) for x in o])
    if isinstance(o, list):
        return ("list", [snap(x, _depth + 1) for x in o])
    if isinstance(o, dict):
        return ("dict", sorted(((str(k), snap(v, _depth + 1)) for k, v in o.items()),
                               key=lambda kv: kv[0]))
    if hasattr(o, "__dict__"):
        return ("obj", type(o).__name__, snap(vars(o), _depth + 1))
    return ("other", type(o).__name__)


def diff(a, b, path=""):
    """First difference between two snapshots as a readable path, or None."""
    if a == b:
        return None
    if isinstance(a, tuple) and isinstance(b, tuple) and len(a) == len(b) and a and a[0] == b[0]:
        tag = a[0]
        if tag in ("tuple", "list") and len(a[1]) == len(b[1]):
            for i, (x, y) in enumerate(zip(a[1], b[1])):
                d = diff(x, y, f"{path}[{i}]")
                if d:
                    return d
        if tag == "dict":
            ka, kb = [k for k, _ in a[1]], [k for k, _ in b[1]]
            if ka != kb:
                return f"{path}: keys {sorted(set(ka) ^ set(kb))} differ"
            for (k, x), (_, y) in zip(a[1], b[1]):
                d = diff(x, y, f"{path}.{k}")
                if d:
                    return d
        if tag == "obj" and a[1] == b[1]:
            return diff(a[2], b[2], path)
    return f"{path or '<root>'}: {str(a)[:80]} -> {str(b)[:80]}"


def arrays_of(o, _depth=0, _out=None):
    """Every ndarray reachable from o (for np.shares_memory checks)."""
    out = [] if _out is None else _out
    if _depth > 12:
        return out
    if isinstance(o, np.ndarray):
        out.append(o)
    elif isinstance(o, (list, tuple)):
        for x in o:
            arrays_of(x, _depth + 1, out)
    elif isinstance(o, dict):
        for x in o.values():
            arrays_of(x, _depth + 1, out)
    elif hasattr(o, "__dict__"):
        arrays_of(vars(o), _depth + 1, out)
    return out


# ------------------------------------------------------------------ semantic snapshots ----
def _pub(o, name, default=None):
    try:
        return getattr(o, name)
    except Exception:                                      # noqa
        return default


def semantic_snap(o, _depth=0):
    """Snapshot of the OBSERVABLE state of hvsrpy objects (what the public API exposes), so that a
    refactoring which keeps private caches or renames private attributes does not look like a change.
    Unknown objects fall back to the generic deep snapshot."""
    if _depth > 6:
        return ("deep",)
    cls = type(o).__name__
    if cls == "TimeSeries":
        return ("TimeSeries", snap(np.asarray(o.amplitude)), snap(float(o.dt_in_seconds)))
    if cls == "SeismicRecording3C":
        return ("SeismicRecording3C", semantic_snap(o.ns), semantic_snap(o.ew), semantic_snap(o.vt),
                snap(float(o.degrees_from_north)), snap(o.meta))
    if cls in ("HvsrCurve", "HvsrDiffuseField", "Psd"):
        return (cls, snap(np.asarray(o.frequency)), snap(np.asarray(o.amplitude)),
                snap(_pub(o, "peak_frequency")), snap(_pub(o, "peak_amplitude")), snap(_pub(o, "meta")))
    if cls == "HvsrTraditional":
        vp = np.asarray(o.valid_peak_boolean_mask)
        try:                                               # per-window peaks of ALL windows through the public API
            o.valid_peak_boolean_mask = np.ones_like(vp, dtype=bool)
            pf, pa = np.array(o.peak_frequencies), np.array(o.peak_amplitudes)
        finally:
            o.valid_peak_boolean_mask = vp
        return (cls, snap(np.asarray(o.frequency)), snap(np.asarray(o.amplitude)),
                snap(np.asarray(o.valid_window_boolean_mask)), snap(vp), snap(pf), snap(pa), snap(o.meta))
    if cls == "HvsrAzimuthal":
        return (cls, [semantic_snap(h, _depth + 1) for h in o.hvsrs], snap([float(a) for a in o.azimuths]), snap(o.meta))
    if isinstance(o, dict):
        return ("dict", sorted(((str(k), semantic_snap(v, _depth + 1)) for k, v in o.items()), key=lambda kv: kv[0]))
    if isinstance(o, (list, tuple)):
        return ("list" if isinstance(o, list) else "tuple", [semantic_snap(x, _depth + 1) for x in o])
    return snap(o)
