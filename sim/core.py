"""Simulator core: one integer -> one run; event log; oracles; minimiser.

A run is a plain-JSON *triple* {"world":…, "ops":[…], "faults":[…]} (plus a
"config" block for the swarm switches).  ``generate(seed)`` draws a triple from
one ``random.Random(seed)``; ``execute(triple)`` is a pure function of the
triple and the code under test.  Nothing here reads a clock or draws from a
PRNG while logging.
"""
import hashlib
import json
import math
import os
import random
from collections import Counter

import numpy as np

VERIF_DIR = os.path.dirname(os.path.dirname(os.path.abspath(__file__)))


def deep():
    """Thorough tier explores deeper bounds: longer histories and larger worlds (the tier is part of the
    run's identity: it is recorded in the replay's triple via its generated content)."""
    return os.environ.get("VERIF_TIER") == "thorough"


# ---------------------------------------------------------------- seeds ----
def run_seed(prop, batch_seed, index):
    h = hashlib.sha256(f"{prop}:{batch_seed}:{index}".encode()).hexdigest()
    return int(h[:8], 16)


def rng_for(seed):
    return random.Random(int(seed))


def np_rng(k):
    return np.random.Generator(np.random.PCG64(int(k)))


# ------------------------------------------------------------- hashing ----
def _default(o):
    if isinstance(o, np.ndarray):
        return {"__nd__": sha_array(o), "shape": list(o.shape)}
    if isinstance(o, (np.floating,)):
        return float(o)
    if isinstance(o, (np.integer,)):
        return int(o)
    if isinstance(o, (np.bool_,)):
        return bool(o)
    if isinstance(o, (set, frozenset)):
        return sorted(o)
    if isinstance(o, tuple):
        return list(o)
    if isinstance(o, bytes):
        return {"__bytes__": hashlib.sha256(o).hexdigest()[:16], "n": len(o)}
    raise TypeError(f"not serialisable: {type(o)}")


def canon(obj):
    """Canonical JSON text (sorted keys, no whitespace, NaN allowed)."""
    return json.dumps(obj, sort_keys=True, separators=(",", ":"),
                      default=_default, allow_nan=True)


def sha_array(a):
    a = np.ascontiguousarray(a)
    h = hashlib.sha256()
    h.update(str(a.dtype).encode())
    h.update(str(a.shape).encode())
    h.update(a.tobytes())
    return h.hexdigest()[:16]


def sha_text(s):
    return hashlib.sha256(s.encode()).hexdigest()


# ------------------------------------------------------------ findings ----
_KNOWN = None


def known_findings():
    global _KNOWN
    if _KNOWN is None:
        path = os.environ.get("VERIF_KNOWN_FINDINGS") or os.path.join(VERIF_DIR, "known_findings.json")
        try:
            with open(path) as f:
                _KNOWN = json.load(f).get("entries", [])
        except FileNotFoundError:
            _KNOWN = []
    return _KNOWN


def match_known(prop, oracle, key):
    """Return the `finding` entry this violation is an instance of, or None.

    `fixed` entries never match.  An entry matches when the property and the
    oracle name are equal and every item of its match["key"] equals the same
    item of the violation's key."""
    for e in known_findings():
        if e.get("status") != "finding" or e.get("property") != prop:
            continue
        m = e.get("match", {})
        if m.get("oracle") != oracle:
            continue
        want = m.get("key", {})
        if all((key or {}).get(k) == v for k, v in want.items()):
            return e
    return None


# ---------------------------------------------------------- violations ----
class Violation(Exception):
    def __init__(self, prop, oracle, detail, key=None):
        super().__init__(f"{prop}/{oracle}: {detail}")
        self.prop, self.oracle, self.detail, self.key = prop, oracle, detail, key or {}

    def as_dict(self):
        return {"property": self.prop, "oracle": self.oracle,
                "detail": self.detail, "key": self.key}


class SimCrash(BaseException):
    """A simulated process crash: only the simulated disk survives."""


class HarnessError(Exception):
    """The simulator itself is wrong / could not proceed (exit code 2)."""


class Ctx:
    """Per-run context: event log, probes, fault counters, oracle gate."""

    def __init__(self, prop, judge=None):
        self.prop = prop
        self.judge = set(judge) if judge is not None else {prop}
        self.log = []
        self.probes = Counter()
        self.faults = Counter()
        self.judged = Counter()      # oracle name -> times evaluated in-domain
        self.known = []              # known findings met in this run
        self.sig = []                # state signatures (tuples rendered as str)
        self.ops_done = 0
        self.state_changes = 0
        self.sim_seconds = 0.0

    # logging -----------------------------------------------------------
    def event(self, **kw):
        kw["step"] = len(self.log)
        self.log.append(kw)

    def probe(self, name, n=1):
        self.probes[name] += n

    def fault(self, kind):
        self.faults[kind] += 1

    def signature(self, *parts):
        self.sig.append("|".join(str(p) for p in parts))

    def digest(self):
        return sha_text(canon(self.log))

    # oracle ------------------------------------------------------------
    def wants(self, prop):
        return prop in self.judge

    def check(self, cond, oracle, detail, key=None, prop=None):
        """Record an in-domain oracle evaluation; raise unless it held or is a
        listed known finding.  Returns True iff the oracle held."""
        prop = prop or self.prop
        self.judged[oracle] += 1
        if cond:
            return True
        if callable(detail):
            detail = detail()
        e = match_known(prop, oracle, key)
        if e is not None:
            rec = {"property": prop, "oracle": oracle, "what": e.get("what", ""),
                   "id": e.get("id", "")}
            if rec not in self.known:
                self.known.append(rec)
            self.event(known_finding=e.get("id", oracle))
            return False
        raise Violation(prop, oracle, detail, key)


# ------------------------------------------------------------- numerics ----
def close(a, b, rtol=1e-9, atol=0.0):
    """NaN-aware closeness for scalars/arrays (NaN == NaN, inf == inf)."""
    a = np.asarray(a, dtype=float)
    b = np.asarray(b, dtype=float)
    if a.shape != b.shape:
        return False
    na, nb = np.isnan(a), np.isnan(b)
    if (na != nb).any():
        return False
    m = ~na
    if not m.any():
        return True
    x, y = a[m], b[m]
    inf = np.isinf(x) | np.isinf(y)
    if inf.any():
        if not np.array_equal(x[inf], y[inf]):
            return False
        x, y = x[~inf], y[~inf]
    return bool(np.all(np.abs(x - y) <= atol + rtol * np.maximum(np.abs(x), np.abs(y))))


def bits_equal(a, b):
    a = np.ascontiguousarray(np.asarray(a, dtype=np.float64))
    b = np.ascontiguousarray(np.asarray(b, dtype=np.float64))
    if a.shape != b.shape:
        return False
    na, nb = np.isnan(a), np.isnan(b)                      # a NaN is a NaN (sign and payload bits carry no meaning)
    if not np.array_equal(na, nb):
        return False
    return bool(np.array_equal(a.view(np.uint64)[~na], b.view(np.uint64)[~nb]))


def fmt(x):
    if isinstance(x, float):
        return repr(x)
    if isinstance(x, np.ndarray):
        return np.array2string(x, precision=17, threshold=12)
    return str(x)


# ------------------------------------------------------------ isolation ----
def run_isolated(fn, *args, timeout=600):
    """Run fn(*args) in a forked child and return its (picklable) result.  Used for machines whose
    subject may keep process-global state (module-level caches, function defaults): every run then
    starts from the same pristine state, so one run cannot influence the next and a violation
    found in a worker replays in a fresh interpreter."""
    import pickle
    import select
    r, w = os.pipe()
    pid = os.fork()
    if pid == 0:
        code = 0
        try:
            os.close(r)
            try:
                out = ("ok", fn(*args))
            except BaseException as e:                      # noqa
                import traceback
                out = ("exc", type(e).__name__, str(e), traceback.format_exc())
            data = pickle.dumps(out)
            with os.fdopen(w, "wb") as f:
                f.write(data)
        except BaseException:                               # noqa
            code = 1
        finally:
            os._exit(code)
    os.close(w)
    chunks = []
    with os.fdopen(r, "rb") as f:
        while True:
            ready, _, _ = select.select([f], [], [], timeout)
            if not ready:
                os.kill(pid, 9)
                os.waitpid(pid, 0)
                raise HarnessError("isolated run timed out")
            b = f.read(1 << 20)
            if not b:
                break
            chunks.append(b)
    os.waitpid(pid, 0)
    if not chunks:
        raise HarnessError("isolated run died without a result")
    out = pickle.loads(b"".join(chunks))
    if out[0] == "exc":
        if out[1] == "HarnessError":
            raise HarnessError(out[2])
        raise HarnessError(f"exception in simulator code ({out[1]}: {out[2]})\n{out[3]}")
    return out[1]


def gc_point():
    """The cyclic garbage collector is a scheduler of object deaths (and of the recycling of their identities): it runs
    only here, at points fixed by the run itself, never on allocation counts that depend on what the process did
    before.  (The driver freezes the heap it built while warming up, so a collection costs microseconds.)"""
    import gc
    if gc.isenabled():
        gc.disable()
    gc.collect()


def _execute_one(machine, triple, prop):
    gc_point()
    return machine.execute(triple, prop)


def _execute_after(machine, history, triple, prop):
    import copy
    for t in history:                                       # earlier runs of the same process, in order
        try:
            _execute_one(machine, copy.deepcopy(t), prop)
        except Exception:                                   # noqa  (a shrunk history may contain an ill-formed run)
            pass
    return _execute_one(machine, copy.deepcopy(triple), prop)


def execute_machine(machine, triple, prop, history=None):
    """One run from a pristine process state.  Machines that declare ISOLATE (True: the search forks per run;
    "chunk": the search forks per chunk of consecutive runs) execute in a forked child of the caller; with `history`
    (the earlier runs of the chunk in which a violation showed) those runs are executed first in the same child."""
    import copy
    if history:
        return run_isolated(_execute_after, machine, copy.deepcopy(history), copy.deepcopy(triple), prop)
    if getattr(machine, "ISOLATE", False):
        return run_isolated(_execute_one, machine, copy.deepcopy(triple), prop)
    return _execute_one(machine, copy.deepcopy(triple), prop)


# ------------------------------------------------------------ minimiser ----
def ddmin(items, test):
    """Classic delta debugging over a list; `test(sub)` is True when the
    failure persists.  Returns a 1-minimal sub-list."""
    items = list(items)
    n = 2
    while len(items) >= 2:
        chunk = max(1, math.ceil(len(items) / n))
        subsets = [items[i:i + chunk] for i in range(0, len(items), chunk)]
        reduced = False
        for s in subsets:                          # try each subset alone
            if len(s) < len(items) and test(s):
                items, n, reduced = s, 2, True
                break
        if not reduced:
            for i in range(len(subsets)):          # try complements
                comp = [x for j, s in enumerate(subsets) if j != i for x in s]
                if len(comp) < len(items) and test(comp):
                    items, n, reduced = comp, max(n - 1, 2), True
                    break
        if not reduced:
            if n >= len(items):
                break
            n = min(len(items), n * 2)
    if len(items) == 1 and test([]):
        return []
    return items


def minimise(machine, prop, triple, violation, budget_execs=400, history=None):
    """Shrink a failing triple (after a fixed `history` of earlier runs, if any) while the same violation class persists."""
    import copy
    target = (violation["property"], violation["oracle"])
    count = [0]

    def fails(t):
        if count[0] >= budget_execs:
            return False
        count[0] += 1
        try:
            r = execute_machine(machine, t, prop, history=history)
        except Exception:                                   # noqa  (a shrink candidate may be an ill-formed world)
            return False
        v = r.get("violation")
        return bool(v) and (v["property"], v["oracle"]) == target

    best = copy.deepcopy(triple)
    if history:                                             # first: which of the earlier runs are needed at all
        def fails_after(sub):
            if count[0] >= budget_execs:
                return False
            count[0] += 1
            try:
                r = execute_machine(machine, best, prop, history=sub) if sub else execute_machine(machine, best, prop)
            except Exception:                               # noqa
                return False
            v = r.get("violation")
            return bool(v) and (v["property"], v["oracle"]) == target
        history[:] = ddmin(history, fails_after)

    def with_(key, val):
        t = copy.deepcopy(best)
        t[key] = val
        return t

    for key in ("ops", "faults"):
        if best.get(key):
            best[key] = ddmin(best[key], lambda sub, key=key: fails(with_(key, sub)))
    # machine-specific structural shrinks (fewer windows, simpler args, …)
    shrinks = getattr(machine, "shrinks", None)
    if shrinks is not None:
        progress = True
        while progress and count[0] < budget_execs:
            progress = False
            for cand in shrinks(copy.deepcopy(best), prop):
                if fails(cand):
                    best = cand
                    progress = True
                    break
    for key in ("ops", "faults"):
        if best.get(key):
            best[key] = ddmin(best[key], lambda sub, key=key: fails(with_(key, sub)))
    return best, count[0]
