"""Equivalence harness for the data_wrangler / regex refactoring.

Imports hvsrpy from the tree this file lives in, exercises the readers on
legal, unusual and damaged inputs and prints a deterministic digest of
everything observable (results, meta, mutations, stream positions,
exception types, warnings, log records).

Usage: /venv/bin/python _refactor/equivalence.py [-v]
"""

import sys
import os
import io
import re
import shutil
import hashlib
import logging
import pathlib
import warnings
import itertools

HERE = pathlib.Path(__file__).resolve().parent
ROOT = HERE.parent
sys.path.insert(0, str(ROOT))
os.environ.setdefault("MPLBACKEND", "Agg")

with warnings.catch_warnings():
    warnings.simplefilter("ignore")
    import numpy as np
    import hvsrpy
    from hvsrpy import data_wrangler as dw
    from hvsrpy import regex as hregex

assert pathlib.Path(hvsrpy.__file__).resolve().parent.parent == ROOT, hvsrpy.__file__

VERBOSE = "-v" in sys.argv
DATA = ROOT / "test" / "data" / "input"
TMP = HERE / "_tmp"
if TMP.exists():
    shutil.rmtree(TMP)
TMP.mkdir()

TOTAL = hashlib.sha256()
SECTION_DIGESTS = []

_ADDR = re.compile(r"0x[0-9a-fA-F]+")
_ID = re.compile(r"samples at \d+")


def scrub(text):
    return _ID.sub("samples at ID", _ADDR.sub("0xADDR", text))


class ListHandler(logging.Handler):
    def __init__(self):
        super().__init__(level=logging.DEBUG)
        self.records = []

    def emit(self, record):
        self.records.append(f"{record.name}|{record.levelname}|{scrub(record.getMessage())}")


HANDLER = ListHandler()
_logger = logging.getLogger("hvsrpy")
_logger.setLevel(logging.DEBUG)
_logger.addHandler(HANDLER)


def describe(obj, depth=0):
    """Deterministic, detailed description of a result."""
    if isinstance(obj, hvsrpy.SeismicRecording3C):
        parts = ["SR3C"]
        for name in ("ns", "ew", "vt"):
            ts = getattr(obj, name)
            amp = ts.amplitude
            parts.append(f"{name}:{type(ts).__name__}:{amp.dtype}:{amp.shape}:"
                         f"{amp.flags['C_CONTIGUOUS']}:{amp.flags['OWNDATA']}:{amp.flags['WRITEABLE']}:"
                         f"{hashlib.sha256(np.ascontiguousarray(amp).tobytes()).hexdigest()}:"
                         f"{type(ts.dt_in_seconds).__name__}:{ts.dt_in_seconds!r}")
        parts.append(f"dfn:{type(obj.degrees_from_north).__name__}:{obj.degrees_from_north!r}")
        parts.append("meta:" + describe(obj.meta))
        shared = [np.shares_memory(a.amplitude, b.amplitude) for a, b in
                  itertools.combinations([obj.ns, obj.ew, obj.vt], 2)]
        parts.append(f"shared:{shared}")
        return "|".join(parts)
    if isinstance(obj, dict):
        return "{" + ",".join(f"{describe(k)}=>{describe(v)}" for k, v in obj.items()) + "}"
    if isinstance(obj, (list, tuple)):
        return type(obj).__name__ + "[" + ",".join(describe(v) for v in obj) + "]"
    if isinstance(obj, np.ndarray):
        return f"nd:{obj.dtype}:{obj.shape}:{hashlib.sha256(np.ascontiguousarray(obj).tobytes()).hexdigest()}"
    return f"{type(obj).__name__}:{scrub(repr(obj))}"


def record(section, label, text):
    line = f"{section}::{label}::{text}"
    if VERBOSE:
        print(line)
    section_hash.update(line.encode() + b"\n")
    TOTAL.update(line.encode() + b"\n")


def run(section, label, func, *args, after=None, **kwargs):
    """Call func, record outcome, warnings, logs and optional post state."""
    HANDLER.records.clear()
    with warnings.catch_warnings(record=True) as caught:
        warnings.simplefilter("always")
        try:
            result = func(*args, **kwargs)
        except BaseException as e:  # noqa
            outcome = f"EXC:{type(e).__module__}.{type(e).__name__}:mro={[c.__name__ for c in type(e).__mro__]}"
            result = None
        else:
            outcome = "OK:" + describe(result)
    record(section, label, outcome)
    record(section, label + "/warnings",
           repr([(w.category.__name__, scrub(str(w.message))) for w in caught]))
    record(section, label + "/logs", repr(HANDLER.records))
    if after is not None:
        record(section, label + "/after", describe(after()))
    return result


def start(section):
    global section_hash
    section_hash = hashlib.sha256()
    return section


def finish(section):
    SECTION_DIGESTS.append((section, section_hash.hexdigest()))


# --------------------------------------------------------------------------
# file helpers
# --------------------------------------------------------------------------
MSEED_C = DATA / "mseed_combined" / "ut.stn11.a2_c50.mseed"
MSEED_I = [DATA / "mseed_individual" / f"ut.stn11.a2_c50_bh{c}.mseed" for c in "nez"]
SAC_L = [DATA / "sac_little_endian" / f"ut.stn11.a2_c50_{c}.sac" for c in "nez"]
SAC_B = [DATA / "sac_big_endian" / f"ut.stn11.a2_c50_{c}.sac" for c in "nez"]
GCF = DATA / "gcf" / "sample.gcf"
SAF = DATA / "saf" / "mt_20211122_133110.saf"
PEER = [DATA / "peer" / f"rsn942_northr_alh{c}.vt2" for c in ("360", "090", "-up")]

SAF_TEXT = SAF.read_text()
PEER_TEXT = [p.read_text() for p in PEER]


def write(name, content, mode="w"):
    path = TMP / name
    if "b" in mode:
        path.write_bytes(content)
    else:
        with open(path, "w", newline="") as f:
            f.write(content)
    return path


def saf_text(npts=6, fs="50", nrows=None, ch=("V", "N", "E"), north_rot="NORTH_ROT = 20\n",
             version=True, rows=None, eol="\n", sep=" "):
    nrows = npts if nrows is None else nrows
    rng = np.random.default_rng(7)
    if rows is None:
        rows = [tuple(int(x) for x in rng.integers(-30000, 30000, 3)) for _ in range(nrows)]
    lines = []
    if version:
        lines.append("SESAME ASCII data format (saf) v. 1    (this line must not be modified)")
    lines += [f"SAMP_FREQ = {fs}", f"NDAT = {npts}", "START_TIME = 2021 11 22 13 31 10.000"]
    if north_rot:
        lines.append(north_rot.rstrip("\n"))
    lines += [f"CH{i}_ID = {c}" for i, c in enumerate(ch)]
    lines.append("####--------------------------------")
    lines += [sep.join(str(v) for v in row) for row in rows]
    return eol.join(lines) + eol


def mshark_text(npts=5, fs="100", gain="2", conv="3", nrows=None, rows=None, eol="\n",
                drop=()):
    nrows = npts if nrows is None else nrows
    rng = np.random.default_rng(11)
    if rows is None:
        rows = [tuple(int(x) for x in rng.integers(-2**23, 2**23, 3)) for _ in range(nrows)]
    header = {"npts": f"#Sample number:\t{npts}", "fs": f"#Sample rate (sps):\t{fs}",
              "gain": f"#Gain:\t{gain}", "conv": f"#Conversion factor:\t{conv}"}
    lines = ["#Minishark file", "#Device:\tX"]
    lines += [v for k, v in header.items() if k not in drop]
    lines += ["\t".join(str(v) for v in row) for row in rows]
    return eol.join(lines) + eol


def peer_text(direction="90", npts=7, dt=".0200", nsamples=None, samples=None, eol="\n", seed=3):
    nsamples = npts if nsamples is None else nsamples
    rng = np.random.default_rng(seed)
    if samples is None:
        vals = rng.normal(size=nsamples) * 1e-2
        samples = []
        for v in vals:
            s = f"{v:.7E}"
            s = s.replace("0.", ".", 1) if s.startswith(("0.", "-0.")) else s
            samples.append(s)
    lines = ["PEER NGA STRONG MOTION DATABASE RECORD",
             f"Northridge-01, 1/17/1994, Alhambra - Fremont School, {direction}",
             "VELOCITY TIME SERIES IN UNITS OF CM/S",
             f"NPTS=   {npts}, DT=   {dt} SEC"]
    for i in range(0, len(samples), 5):
        lines.append("  " + "  ".join(samples[i:i + 5]))
    return eol.join(lines) + eol


def peer_trio(dirs, **kw):
    return [io.StringIO(peer_text(direction=d, seed=i, **kw)) for i, d in enumerate(dirs)]


# --------------------------------------------------------------------------
# 1. regex module
# --------------------------------------------------------------------------
S = start("regex")
for name in sorted(dir(hregex)):
    if name.startswith("_") or name == "re":
        continue
    value = getattr(hregex, name)
    if isinstance(value, re.Pattern):
        record(S, name, f"pattern:{value.pattern!r}:{value.flags}:{value.groups}")
    else:
        record(S, name, f"{type(value).__name__}:{value!r}")
record(S, "READ_FUNCTION_DICT", repr(list(dw.READ_FUNCTION_DICT.keys())))
record(S, "READ_FUNCTION_DICT/names", repr([f.__name__ for f in dw.READ_FUNCTION_DICT.values()]))
record(S, "public", repr([hvsrpy.read is dw.read, hvsrpy.read_single is dw.read_single]))
for fn in (dw.read, dw.read_single, *dw.READ_FUNCTION_DICT.values()):
    import inspect
    record(S, fn.__name__ + "/sig", str(inspect.signature(fn)))
    record(S, fn.__name__ + "/doc", hashlib.sha256((fn.__doc__ or "").encode()).hexdigest())
finish(S)

# --------------------------------------------------------------------------
# 2. read_single on the shipped files, various argument types
# --------------------------------------------------------------------------
S = start("read_single_files")
for dfn in (None, 0, 20, 20.5, -30., 400., 720, True, np.float64(33.3)):
    run(S, f"mseed_c/str/{dfn!r}", hvsrpy.read_single, str(MSEED_C), degrees_from_north=dfn)
run(S, "mseed_c/path", hvsrpy.read_single, MSEED_C)
run(S, "mseed_i/list_str", hvsrpy.read_single, [str(p) for p in MSEED_I])
run(S, "mseed_i/tuple_path", hvsrpy.read_single, tuple(MSEED_I), degrees_from_north=12)
run(S, "mseed_i/permuted", hvsrpy.read_single, [str(MSEED_I[2]), str(MSEED_I[0]), str(MSEED_I[1])])
run(S, "mseed_i/dup", hvsrpy.read_single, [str(MSEED_I[0]), str(MSEED_I[0]), str(MSEED_I[1])])
run(S, "mseed_i/two", hvsrpy.read_single, [str(MSEED_I[0]), str(MSEED_I[1])])
run(S, "mseed_i/four", hvsrpy.read_single, [str(p) for p in MSEED_I] + [str(MSEED_I[0])])
run(S, "mseed/combined_in_list3", hvsrpy.read_single, [str(MSEED_C)] * 3)
bio = io.BytesIO(MSEED_C.read_bytes())
run(S, "mseed_c/bytesio", hvsrpy.read_single, bio, after=lambda: bio.tell())
run(S, "mseed_c/bytesio_again", hvsrpy.read_single, bio, after=lambda: bio.tell())
bios = [io.BytesIO(p.read_bytes()) for p in MSEED_I]
run(S, "mseed_i/bytesio", hvsrpy.read_single, bios, after=lambda: [b.tell() for b in bios])
run(S, "mseed_i/bytesio_again", hvsrpy.read_single, bios, after=lambda: [b.tell() for b in bios])

for tag, files in (("little", SAC_L), ("big", SAC_B)):
    run(S, f"sac_{tag}/str", hvsrpy.read_single, [str(p) for p in files])
    run(S, f"sac_{tag}/path_tuple", hvsrpy.read_single, tuple(files), degrees_from_north=-15)
    bios = [io.BytesIO(p.read_bytes()) for p in files]
    run(S, f"sac_{tag}/bytesio", hvsrpy.read_single, bios, after=lambda: [b.tell() for b in bios])
    run(S, f"sac_{tag}/bytesio_again", hvsrpy.read_single, bios, after=lambda: [b.tell() for b in bios])
    kw = {"format": "SAC"}
    run(S, f"sac_{tag}/kwargs", hvsrpy.read_single, [str(p) for p in files], obspy_read_kwargs=kw,
        after=lambda: kw)
    run(S, f"sac_{tag}/kwargs_again", hvsrpy.read_single, [str(p) for p in files], obspy_read_kwargs=kw,
        after=lambda: kw)
    kw2 = {"byteorder": "big", "format": "SAC", "headonly": False}
    run(S, f"sac_{tag}/kwargs2", hvsrpy.read_single, [str(p) for p in files], obspy_read_kwargs=kw2,
        after=lambda: kw2)
mixed = [str(SAC_L[0]), str(SAC_B[1]), str(SAC_L[2])]
kw = {"format": "SAC"}
run(S, "sac_mixed", hvsrpy.read_single, mixed, obspy_read_kwargs=kw, after=lambda: kw)
mixed = [str(SAC_B[0]), str(SAC_L[1]), str(SAC_B[2])]
kw = {"format": "SAC"}
run(S, "sac_mixed2", dw._read_sac, mixed, obspy_read_kwargs=kw, after=lambda: kw)
run(S, "sac/single_str", hvsrpy.read_single, str(SAC_L[0]))
run(S, "sac/two", hvsrpy.read_single, [str(SAC_L[0]), str(SAC_L[1])])
run(S, "sac/dup", hvsrpy.read_single, [str(SAC_L[0]), str(SAC_L[0]), str(SAC_L[1])])

run(S, "gcf/str", hvsrpy.read_single, str(GCF))
run(S, "gcf/path", hvsrpy.read_single, GCF, degrees_from_north=5)
bio = io.BytesIO(GCF.read_bytes())
run(S, "gcf/bytesio", hvsrpy.read_single, bio, after=lambda: bio.tell())
bio = io.BytesIO(GCF.read_bytes())
run(S, "gcf/bytesio_direct", dw._read_gcf, bio, after=lambda: bio.tell())
kw = {"format": "GCF"}
run(S, "gcf/kwargs", hvsrpy.read_single, str(GCF), obspy_read_kwargs=kw, after=lambda: kw)

run(S, "saf/str", hvsrpy.read_single, str(SAF))
run(S, "saf/path", hvsrpy.read_single, SAF, degrees_from_north=77)
sio = io.StringIO(SAF_TEXT)
sio.seek(100)
run(S, "saf/stringio", hvsrpy.read_single, sio, after=lambda: sio.tell())
run(S, "saf/stringio_again", hvsrpy.read_single, sio, after=lambda: sio.tell())
run(S, "saf/bytesio", hvsrpy.read_single, io.BytesIO(SAF.read_bytes()))
run(S, "saf/list1", hvsrpy.read_single, [str(SAF)])
run(S, "saf/list3", hvsrpy.read_single, [str(SAF)] * 3)

run(S, "peer/str", hvsrpy.read_single, [str(p) for p in PEER])
run(S, "peer/path_tuple", hvsrpy.read_single, tuple(PEER))
for perm in itertools.permutations(range(3)):
    run(S, f"peer/perm{perm}", hvsrpy.read_single, [str(PEER[i]) for i in perm])
run(S, "peer/dfn", hvsrpy.read_single, [str(p) for p in PEER], degrees_from_north=45)
sios = [io.StringIO(t) for t in PEER_TEXT]
sios[1].seek(50)
run(S, "peer/stringio", hvsrpy.read_single, sios, after=lambda: [s.tell() for s in sios])
run(S, "peer/stringio_again", hvsrpy.read_single, sios, after=lambda: [s.tell() for s in sios])
run(S, "peer/single", hvsrpy.read_single, str(PEER[0]))
run(S, "peer/two", hvsrpy.read_single, [str(PEER[0]), str(PEER[1])])
run(S, "peer/dup", hvsrpy.read_single, [str(PEER[0]), str(PEER[0]), str(PEER[2])])
run(S, "peer/mixed_types", hvsrpy.read_single, [str(PEER[0]), PEER[1], io.StringIO(PEER_TEXT[2])])

run(S, "missing/str", hvsrpy.read_single, str(TMP / "nope.mseed"))
run(S, "missing/list", hvsrpy.read_single, [str(TMP / "nope1"), str(TMP / "nope2"), str(TMP / "nope3")])
run(S, "weird/int", hvsrpy.read_single, 123456)
run(S, "weird/none", hvsrpy.read_single, None)
run(S, "weird/empty_list", hvsrpy.read_single, [])
run(S, "weird/empty_str", hvsrpy.read_single, "")
run(S, "weird/dir", hvsrpy.read_single, str(TMP))
run(S, "weird/bytes", hvsrpy.read_single, os.fsencode(str(SAF)))
empty = write("empty.minishark", "")
run(S, "empty/file", hvsrpy.read_single, str(empty))
run(S, "shipped_minishark", hvsrpy.read_single,
    str(DATA / "minishark" / "0003_181115_0441.minishark"))
finish(S)

# --------------------------------------------------------------------------
# 3. private readers called directly (types of exceptions for wrong input)
# --------------------------------------------------------------------------
S = start("private_readers")
inputs = {
    "mseed_c": lambda: str(MSEED_C), "mseed_i": lambda: [str(p) for p in MSEED_I],
    "sac_l": lambda: [str(p) for p in SAC_L], "sac_b": lambda: tuple(SAC_B), "gcf": lambda: GCF,
    "saf": lambda: str(SAF), "saf_sio": lambda: io.StringIO(SAF_TEXT),
    "peer": lambda: [str(p) for p in PEER], "peer_sio": lambda: [io.StringIO(t) for t in PEER_TEXT],
    "msh_sio": lambda: io.StringIO(mshark_text()), "none": lambda: None, "int": lambda: 7,
    "bio": lambda: io.BytesIO(b"garbage" * 100), "empty": lambda: [], "one": lambda: [str(SAC_L[0])],
    "sio3": lambda: [io.StringIO("x")] * 3,
}
for ftype, reader in dw.READ_FUNCTION_DICT.items():
    for tag, make in inputs.items():
        run(S, f"{ftype}/{tag}", reader, make())
        kw = {"format": "MSEED"}
        run(S, f"{ftype}/{tag}/kw", reader, make(), obspy_read_kwargs=kw, degrees_from_north=370,
            after=lambda: kw)
finish(S)

# --------------------------------------------------------------------------
# 4. synthetic / damaged SAF
# --------------------------------------------------------------------------
S = start("saf_synthetic")
BIG = "1" + "0" * 39
HUGE = "9" * 400
cases = {
    "plain": saf_text(),
    "crlf": saf_text(eol="\r\n"),
    "cr": saf_text(eol="\r"),
    "tabsep": saf_text(sep="\t"),
    "no_version": saf_text(version=False),
    "no_north_rot": saf_text(north_rot=""),
    "north_rot_float": saf_text(north_rot="NORTH_ROT = 12.5"),
    "north_rot_neg": saf_text(north_rot="NORTH_ROT = -12"),
    "north_rot_400": saf_text(north_rot="NORTH_ROT = 400"),
    "ch_env": saf_text(ch=("E", "N", "V")),
    "ch_vEN": saf_text(ch=("V", "E", "N")),
    "ch_NVE": saf_text(ch=("N", "V", "E")),
    "ch_NEV": saf_text(ch=("N", "E", "V")),
    "ch_missing_e": saf_text(ch=("V", "N", "X")),
    "too_few": saf_text(npts=8, nrows=5),
    "too_many": saf_text(npts=4, nrows=9),
    "zero_rows": saf_text(npts=3, nrows=0),
    "npts0_rows0": saf_text(npts=0, nrows=0),
    "npts0_rows2": saf_text(npts=0, nrows=2),
    "npts1": saf_text(npts=1),
    "npts2": saf_text(npts=2),
    "fs0": saf_text(fs="0"),
    "fs_float": saf_text(fs="62.5"),
    "fs_big": saf_text(fs="100000"),
    "npts_padded": saf_text(npts="0000000006", nrows=6),
    "npts_huge": saf_text(npts="99999999999999", nrows=3),
    "npts_gigantic": saf_text(npts="9" * 30, nrows=3),
    "npts_5000digits": saf_text(npts="9" * 5000, nrows=3),
    "big_values": saf_text(npts=3, rows=[(1, 2, 3), (BIG, 5, 6), (7, "-" + BIG, BIG)]),
    "one_big_value": saf_text(npts=2, rows=[(1, 2, 3), (4, BIG, 6)]),
    "huge_values": saf_text(npts=2, rows=[(HUGE, 2, 3), (4, "-" + HUGE, 6)]),
    "near_f32max": saf_text(npts=3, rows=[("340282346638528859811704183484516925440", 0, 1),
                                          ("340282356779733661637539395458142568447", 1, 2),
                                          ("340282356779733661637539395458142568448", 2, 3)]),
    "rounding": saf_text(npts=3, rows=[(16777217, 16777219, 33554435), (-16777217, 123456789, 987654321),
                                       ("123456789012345678", "99999999999", "-4503599627370497")]),
    "float_rows": saf_text(npts=2, rows=[("1.5", 2, 3), (4, 5, 6)]),
    "broken_row": saf_text(npts=3, rows=[(1, 2, 3), ("4 5", "", ""), (7, 8, 9)]),
    "four_cols": saf_text(npts=2, rows=[("1 2", 3, 4), (5, 6, 7)]),
    "truncated": saf_text(npts=6)[:-4],
    "no_final_eol": saf_text(npts=6).rstrip("\n"),
    "question_eol": saf_text(npts=3).replace("\n", "?"),
    "double_header": saf_text(npts=3) + saf_text(npts=5),
    "ch_id_9": saf_text(npts=3).replace("CH0_ID = V", "CH9_ID = V"),
    "ch_id_3_no_rows": saf_text(npts=0, nrows=0).replace("CH0_ID = V", "CH3_ID = V"),
    "real_head": "\n".join(SAF_TEXT.split("\n")[:40]) + "\n",
    "real_ndat_fixed": "\n".join(SAF_TEXT.split("\n")[:40]).replace("NDAT = 0000045000", "NDAT = 15") + "\n",
    "real_first_half": SAF_TEXT[:len(SAF_TEXT) // 2],
    "real_swapped_ch": SAF_TEXT.replace("CH1_ID = N", "CH1_ID = E", 1).replace("CH2_ID = E", "CH2_ID = N", 1),
    "real_rot": SAF_TEXT.replace("NORTH_ROT = 0", "NORTH_ROT = 350", 1),
    "binary_junk": "\x00\x01\x02 SESAME",
}
for tag, text in cases.items():
    for dfn in (None, 15.):
        sio = io.StringIO(text)
        run(S, f"{tag}/sio/{dfn}", dw._read_saf, sio, degrees_from_north=dfn, after=lambda: sio.tell())
    path = write(f"saf_{tag}.saf", text)
    run(S, f"{tag}/file/read_single", hvsrpy.read_single, str(path))
    run(S, f"{tag}/sio/read_single", hvsrpy.read_single, io.StringIO(text), degrees_from_north=3)
latin = write("latin1.saf", saf_text().replace("START_TIME", "ST\xe9RT").encode("latin-1"), mode="wb")
run(S, "latin1/file", hvsrpy.read_single, str(latin))
run(S, "latin1/direct", dw._read_saf, str(latin))
finish(S)

# --------------------------------------------------------------------------
# 5. synthetic / damaged MiniShark
# --------------------------------------------------------------------------
S = start("minishark_synthetic")
cases = {
    "plain": mshark_text(),
    "long": mshark_text(npts=2000),
    "crlf": mshark_text(eol="\r\n"),
    "cr": mshark_text(eol="\r"),
    "gain1_conv1": mshark_text(gain="1", conv="1"),
    "gain0": mshark_text(gain="0"),
    "conv0": mshark_text(conv="0"),
    "gain_big": mshark_text(gain="1" + "0" * 30),
    "gain_huge": mshark_text(gain="1" + "0" * 60),
    "conv_huge": mshark_text(conv="1" + "0" * 400),
    "gain_float": mshark_text(gain="2.5"),
    "fs0": mshark_text(fs="0"),
    "fs_float": mshark_text(fs="12.5"),
    "too_few": mshark_text(npts=9, nrows=4),
    "too_many": mshark_text(npts=3, nrows=7),
    "npts0": mshark_text(npts=0, nrows=0),
    "npts0_rows": mshark_text(npts=0, nrows=2),
    "npts1": mshark_text(npts=1),
    "npts_huge": mshark_text(npts="99999999999999", nrows=3),
    "npts_gigantic": mshark_text(npts="9" * 30, nrows=3),
    "no_npts": mshark_text(drop=("npts",)),
    "no_fs": mshark_text(drop=("fs",)),
    "no_gain": mshark_text(drop=("gain",)),
    "no_conv": mshark_text(drop=("conv",)),
    "big_values": mshark_text(npts=3, rows=[(1, 2, 3), (BIG, 5, 6), (7, "-" + BIG, BIG)]),
    "huge_values": mshark_text(npts=2, rows=[(HUGE, 2, 3), (4, "-" + HUGE, 6)]),
    "rounding": mshark_text(npts=3, gain="3", conv="7",
                            rows=[(16777217, 16777219, 33554435), (-16777217, 123456789, 987654321),
                                  ("123456789012345678", "99999999999", "-4503599627370497")]),
    "four_cols": mshark_text(npts=2, rows=[("1\t2", 3, 4), (5, 6, 7)]),
    "truncated": mshark_text(npts=6)[:-3],
    "no_final_eol": mshark_text(npts=6).rstrip("\n"),
    "space_sep": mshark_text(npts=3).replace("\t", " "),
}
for tag, text in cases.items():
    for dfn in (None, 361):
        sio = io.StringIO(text)
        run(S, f"{tag}/sio/{dfn}", dw._read_minishark, sio, degrees_from_north=dfn, after=lambda: sio.tell())
    path = write(f"ms_{tag}.minishark", text)
    run(S, f"{tag}/file/read_single", hvsrpy.read_single, path)
    run(S, f"{tag}/sio/read_single", hvsrpy.read_single, io.StringIO(text))
finish(S)

# --------------------------------------------------------------------------
# 6. synthetic / damaged PEER
# --------------------------------------------------------------------------
S = start("peer_synthetic")
dir_sets = [
    ("UP", "90", "360"), ("360", "UP", "90"), ("VER", "0", "90"), ("UP", "000", "090"), ("UP", "180", "270"),
    ("UP", "45", "135"), ("UP", "315", "45"), ("UP", "200", "290"), ("UP", "90", "90"), ("UP", "UP", "90"),
    ("UP", "VER", "90"), ("90", "180", "270"), ("HHZ", "HHN", "HHE"), ("HNE", "HNZ", "HNN"), ("BHN", "BHE", "BHZ"),
    ("HHZ", "HHE", "HHE"), ("HHZ", "HHN", "HHN"), ("HHZ", "HHZ", "HHN"), ("HHN", "HHE", "HHE"),
    ("UP", "HHN", "HHE"), ("HHZ", "90", "360"), ("UP", "9", "99"), ("UP", "1", "2"), ("UP", "0", "180"),
    ("XYZ", "90", "0"), ("UP", "90", "3600"), ("UP", "360", "180"), ("VER", "181", "179"),
]
for dirs in dir_sets:
    for dfn in (None, 10.):
        run(S, f"dirs{dirs}/{dfn}", hvsrpy.read_single, peer_trio(dirs), degrees_from_north=dfn)
run(S, "lengths", hvsrpy.read_single,
    [io.StringIO(peer_text("UP", npts=9, seed=1)), io.StringIO(peer_text("90", npts=5, seed=2)),
     io.StringIO(peer_text("360", npts=7, seed=3))])
run(S, "lengths2", hvsrpy.read_single,
    [io.StringIO(peer_text("360", npts=4, seed=1)), io.StringIO(peer_text("90", npts=15, seed=2)),
     io.StringIO(peer_text("UP", npts=7, seed=3))])
run(S, "dt_mismatch", hvsrpy.read_single,
    [io.StringIO(peer_text("UP", dt=".0200")), io.StringIO(peer_text("90", dt=".0100")),
     io.StringIO(peer_text("360", dt=".0200"))])
run(S, "dt_equal_repr", hvsrpy.read_single,
    [io.StringIO(peer_text("UP", dt=".0200")), io.StringIO(peer_text("90", dt="0.02")),
     io.StringIO(peer_text("360", dt="00.020"))])
single_cases = {
    "plain": peer_text("90"),
    "crlf": peer_text("90", eol="\r\n"),
    "cr": peer_text("90", eol="\r"),
    "too_few": peer_text("90", npts=9, nsamples=4),
    "too_many": peer_text("90", npts=3, nsamples=8),
    "npts0": peer_text("90", npts=0, nsamples=0),
    "npts0_samples": peer_text("90", npts=0, nsamples=2),
    "npts1": peer_text("90", npts=1),
    "npts_huge": peer_text("90", npts="99999999999999", nsamples=3),
    "npts_gigantic": peer_text("90", npts="9" * 30, nsamples=3),
    "dt0": peer_text("90", dt=".0000"),
    "dt_int": peer_text("90", dt="1"),
    "no_dir": peer_text("90").replace(", 90\n", "\n"),
    "no_npts": peer_text("90").replace("NPTS=", "NPT="),
    "no_dt": peer_text("90").replace("DT=", "TD="),
    "malformed_first": peer_text("90", npts=3, samples=["1.5E+", ".25E-01", ".35E+00"]),
    "malformed_last": peer_text("90", npts=3, samples=[".15E+01", ".25E-01", ".35e"]),
    "malformed_past_end": peer_text("90", npts=2, samples=[".15E+01", ".25E-01", ".35e"]),
    "malformed_and_too_many": peer_text("90", npts=2, samples=[".15E+01", ".25E", ".35e+00", ".1E+00"]),
    "malformed_short": peer_text("90", npts=5, samples=[".15E+01", ".25E"]),
    "odd_exponents": peer_text("90", npts=6, samples=[".1E+400", "-.1E+400", ".1E-400", "1.E+00", "123.456e7", "-0.0E0"]),
    "no_exponent": peer_text("90", npts=3, samples=["1.5", "2.5", "3.5"]),
    "glued": peer_text("90", npts=4, samples=[".1000000E+00-.2000000E+00", "-.3000000E+00", ".4000000E+00"]),
    "truncated": peer_text("90", npts=7)[:-6],
    "real_truncated": PEER_TEXT[1][:len(PEER_TEXT[1]) // 2],
    "real_npts_less": PEER_TEXT[1].replace("NPTS=   3000", "NPTS=   2999"),
    "real_npts_more": PEER_TEXT[1].replace("NPTS=   3000", "NPTS=   3001"),
}
for tag, text in single_cases.items():
    for pos in (0, 1, 2):
        trio = [io.StringIO(peer_text("UP", seed=20)), io.StringIO(peer_text("360", seed=21))]
        trio.insert(pos, io.StringIO(text))
        run(S, f"{tag}/pos{pos}", hvsrpy.read_single, trio, after=lambda: [s.tell() for s in trio])
    path = write(f"peer_{tag}.vt2", text)
    run(S, f"{tag}/file", hvsrpy.read_single,
        [str(write("peer_up.vt2", peer_text("UP", seed=20))), str(path),
         str(write("peer_360.vt2", peer_text("360", seed=21)))])
    run(S, f"{tag}/direct", dw._read_peer,
        [io.StringIO(peer_text("UP", seed=20)), io.StringIO(text), io.StringIO(peer_text("360", seed=21))],
        degrees_from_north=-5)
finish(S)

# --------------------------------------------------------------------------
# 7. damaged binary files
# --------------------------------------------------------------------------
S = start("binary_damaged")
raw = MSEED_C.read_bytes()
for tag, blob in {
    "mseed_half": raw[:len(raw) // 2], "mseed_head": raw[:512], "mseed_100": raw[:100],
    "mseed_flipped": raw[:2000] + bytes(b ^ 0xFF for b in raw[2000:2100]) + raw[2100:],
    "mseed_twice": raw + raw,
}.items():
    path = write(tag + ".mseed", blob, mode="wb")
    run(S, tag + "/file", hvsrpy.read_single, str(path))
    b = io.BytesIO(blob)
    run(S, tag + "/bytesio", hvsrpy.read_single, b, after=lambda: b.tell())
raws = [p.read_bytes() for p in SAC_L]
for tag, blobs in {
    "sac_trunc": [raws[0], raws[1][:len(raws[1]) // 2], raws[2]],
    "sac_head_only": [raws[0][:632], raws[1], raws[2]],
    "sac_short_head": [raws[0], raws[1], raws[2][:100]],
    "sac_empty": [raws[0], b"", raws[2]],
    "sac_junk": [b"junk" * 400, raws[1], raws[2]],
}.items():
    paths = [str(write(f"{tag}_{i}.sac", blob, mode="wb")) for i, blob in enumerate(blobs)]
    kw = {"format": "SAC"}
    run(S, tag + "/files", hvsrpy.read_single, paths)
    run(S, tag + "/files_kw", hvsrpy.read_single, paths, obspy_read_kwargs=kw, after=lambda: kw)
    run(S, tag + "/direct", dw._read_sac, paths)
    bs = [io.BytesIO(blob) for blob in blobs]
    run(S, tag + "/bytesio", hvsrpy.read_single, bs, after=lambda: [b.tell() for b in bs])
raw = GCF.read_bytes()
for tag, blob in {"gcf_half": raw[:len(raw) // 2], "gcf_1k": raw[:1024], "gcf_junk": b"\x01" * 3000}.items():
    path = write(tag + ".gcf", blob, mode="wb")
    run(S, tag + "/file", hvsrpy.read_single, path)
    run(S, tag + "/direct", dw._read_gcf, path)
finish(S)

# --------------------------------------------------------------------------
# 8. read()
# --------------------------------------------------------------------------
S = start("read")
many = [[str(p) for p in MSEED_I], str(MSEED_C), [str(p) for p in SAC_L], tuple(SAC_B), str(GCF), str(SAF),
        [str(p) for p in PEER], [str(MSEED_C)], (SAF,)]
run(S, "many", hvsrpy.read, many)
run(S, "many/tuple", hvsrpy.read, tuple(many))
run(S, "many/dfn_scalar", hvsrpy.read, many, degrees_from_north=25)
run(S, "many/dfn_bool", hvsrpy.read, many[:2], degrees_from_north=True)
run(S, "many/dfn_list", hvsrpy.read, many, degrees_from_north=[1, 2., None, 4, 5, None, 7, 361, -1])
run(S, "many/dfn_short", hvsrpy.read, many, degrees_from_north=[1, 2.])
run(S, "many/dfn_long", hvsrpy.read, many[:2], degrees_from_north=[1, 2., 3, 4])
run(S, "many/dfn_np", hvsrpy.read, many[:3], degrees_from_north=np.array([10., 20., 30.]))
run(S, "many/dfn_npscalar", hvsrpy.read, many[:3], degrees_from_north=np.float64(10.))
run(S, "many/dfn_npint", hvsrpy.read, many[:3], degrees_from_north=np.int64(10))
run(S, "many/dfn_str", hvsrpy.read, many[:3], degrees_from_north="123")
gen = (float(i) for i in range(20))
run(S, "many/dfn_gen", hvsrpy.read, many[:3], degrees_from_north=gen, after=lambda: next(gen))
kw = {"format": "MSEED"}
run(S, "kw/dict_mseed", hvsrpy.read, many[:2], obspy_read_kwargs=kw, after=lambda: kw)
kw = {"format": "SAC"}
run(S, "kw/dict_sac_all", hvsrpy.read, many, obspy_read_kwargs=kw, after=lambda: kw)
kw = {}
run(S, "kw/dict_empty", hvsrpy.read, many[:5], obspy_read_kwargs=kw, after=lambda: kw)
kws = [{"format": "MSEED"}, None, {"format": "SAC"}, {"format": "SAC", "byteorder": "little"}, {"format": "GCF"}]
run(S, "kw/list", hvsrpy.read, many[:5], obspy_read_kwargs=kws, after=lambda: kws)
kws = ({"format": "MSEED"}, None)
run(S, "kw/tuple_short", hvsrpy.read, many[:5], obspy_read_kwargs=kws, after=lambda: kws)
kwgen = iter([{"format": "MSEED"}, None, None, None])
run(S, "kw/iter", hvsrpy.read, many[:3], obspy_read_kwargs=kwgen, after=lambda: list(kwgen))
shared = {"format": "SAC"}
run(S, "kw/shared_sac_twice", hvsrpy.read, [[str(p) for p in SAC_B], [str(p) for p in SAC_L], [str(p) for p in SAC_B]],
    obspy_read_kwargs=shared, after=lambda: shared)
run(S, "bare/str", hvsrpy.read, str(MSEED_C))
run(S, "bare/path", hvsrpy.read, MSEED_C, degrees_from_north=5)
run(S, "bare/stringio", hvsrpy.read, io.StringIO(saf_text()))
run(S, "bare/none", hvsrpy.read, None)
run(S, "bare/generator", hvsrpy.read, (str(p) for p in [MSEED_C]))
run(S, "empty/list", hvsrpy.read, [])
run(S, "empty/tuple", hvsrpy.read, ())
run(S, "nested/single", hvsrpy.read, [[str(MSEED_C)]])
run(S, "nested/double", hvsrpy.read, [[[str(MSEED_C)]]])
run(S, "nested/empty", hvsrpy.read, [[]])
run(S, "flat/three_mseed", hvsrpy.read, [str(p) for p in MSEED_I])
run(S, "flat/three_peer", hvsrpy.read, [str(p) for p in PEER])
run(S, "with_failure", hvsrpy.read, [str(MSEED_C), str(TMP / "nope"), str(GCF)])
run(S, "with_failure_peer", hvsrpy.read, [str(MSEED_C), peer_trio(("UP", "90", "90"))])
sio = io.StringIO(saf_text(north_rot=""))
run(S, "warn_repeat", hvsrpy.read, [sio, sio, sio], after=lambda: sio.tell())
res = run(S, "identity", hvsrpy.read, [str(MSEED_C), str(MSEED_C)])
record(S, "identity/distinct", repr([res[0] is res[1], res[0].meta is res[1].meta,
                                     np.shares_memory(res[0].ns.amplitude, res[1].ns.amplitude)]))
# results must be independent, mutable objects.
res[0].ns.amplitude[:5] = 0
res[0].meta["x"] = 1
record(S, "identity/after_mutation", describe(res))
record(S, "identity/reread", describe(hvsrpy.read([str(MSEED_C)])))
finish(S)

# --------------------------------------------------------------------------
# 9. downstream use of what was read
# --------------------------------------------------------------------------
S = start("downstream")
for label, files in (("mseed", str(MSEED_C)), ("saf", str(SAF)), ("peer", [str(p) for p in PEER]),
                     ("sac", [str(p) for p in SAC_B]), ("msh", io.StringIO(mshark_text(npts=3000)))):
    rec = hvsrpy.read_single(files)
    rec.detrend()
    rec.butterworth_filter((0.2, None))
    parts = rec.split(10)
    record(S, label + "/split", describe(parts))
    out = TMP / f"{label}.json"
    rec.save(str(out))
    record(S, label + "/saved", hashlib.sha256(scrub(out.read_text()).encode()).hexdigest())
    record(S, label + "/loaded", describe(hvsrpy.SeismicRecording3C.load(str(out))))
finish(S)

shutil.rmtree(TMP)

for section, digest in SECTION_DIGESTS:
    print(f"{section:22s} {digest}")
print("DIGEST", TOTAL.hexdigest())
