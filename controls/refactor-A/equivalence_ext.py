"""Behavioural fingerprint of the HVSR result classes.

Run with the interpreter of the project, from anywhere::

    python _refactor/equivalence.py [-v]

The script imports ``hvsrpy`` from the tree it lives in, drives
``HvsrCurve``, ``HvsrTraditional``, ``HvsrAzimuthal`` and ``HvsrDiffuseField``
(plus the functions of the package that sit directly on top of them) through
a wide range of inputs and call sequences and prints a sha256 digest of
everything observable: return values bit for bit (dtype, shape, memory
layout, raw bytes), object identity/aliasing facts, contents and key order of
``meta``, log records, bytes of written files and exception types.

Two trees behave identically on the covered scenarios if and only if the
digests agree.  With ``-v`` every record is printed, so two runs can be
diffed to locate a disagreement.
"""

import contextlib
import hashlib
import io
import logging
import os
import pathlib
import re
import sys
import tempfile
import warnings

ROOT = pathlib.Path(os.environ["HVSRPY_ROOT"]).resolve()
sys.path.insert(0, str(ROOT))

os.environ.setdefault("MPLBACKEND", "Agg")
warnings.simplefilter("ignore")

import numpy as np  # noqa: E402

import hvsrpy  # noqa: E402
from hvsrpy import sesame  # noqa: E402

assert pathlib.Path(hvsrpy.__file__).resolve().parent.parent == ROOT, hvsrpy.__file__

VERBOSE = "-v" in sys.argv[1:]

# --------------------------------------------------------------------------
# canonical serialisation
# --------------------------------------------------------------------------

_ID_RE = re.compile(r" at \d+")


def canon(obj):
    """Deterministic, type- and bit-preserving text form of ``obj``."""
    if obj is None or isinstance(obj, (bool, int, str)):
        return f"{type(obj).__name__}:{obj!r}"
    if isinstance(obj, float):
        return f"float:{obj.hex() if obj == obj else 'nan'}"
    if isinstance(obj, np.ndarray):
        data = np.ascontiguousarray(obj)
        digest = hashlib.sha256(data.tobytes()).hexdigest()[:24]
        flags = f"C{int(obj.flags.c_contiguous)}F{int(obj.flags.f_contiguous)}O{int(obj.flags.owndata)}W{int(obj.flags.writeable)}"
        return f"ndarray:{obj.dtype.str}:{obj.shape}:{flags}:{digest}"
    if isinstance(obj, np.generic):
        return f"{type(obj).__name__}:{obj.tobytes().hex()}"
    if isinstance(obj, (tuple, list)):
        return f"{type(obj).__name__}[" + ",".join(canon(x) for x in obj) + "]"
    if isinstance(obj, dict):
        # key order is part of the behaviour.
        return "dict{" + ",".join(f"{canon(k)}=>{canon(v)}" for k, v in obj.items()) + "}"
    if isinstance(obj, BaseException):
        # the contract is the exception type; messages are shown with -v only.
        return f"raises:{type(obj).__name__}"
    if isinstance(obj, (hvsrpy.HvsrTraditional, hvsrpy.HvsrAzimuthal, hvsrpy.HvsrCurve)):
        try:
            return f"{type(obj).__name__}<{canon(state(obj))}>"
        except Exception as e:  # noqa  (object read back in an inconsistent state on current main)
            return f"{type(obj).__name__}<state raises:{type(e).__name__}>"
    return f"{type(obj).__name__}:{_ID_RE.sub(' at ID', repr(obj))}"


class Recorder():
    def __init__(self):
        self.sha = hashlib.sha256()
        self.count = 0

    def add(self, label, value):
        line = f"{label} :: {canon(value)}"
        self.count += 1
        self.sha.update(line.encode("utf-8"))
        self.sha.update(b"\n")
        if VERBOSE:
            print(f"{line} ({value})" if isinstance(value, BaseException) else line)

    def call(self, label, fxn, *args, **kwargs):
        """Record the outcome (value or exception) of ``fxn(*args, **kwargs)``."""
        try:
            value = fxn(*args, **kwargs)
        except Exception as e:  # noqa
            self.add(label, e)
            return e
        self.add(label, value)
        return value


REC = Recorder()
# state right after an interrupted call (not part of the contract, reported separately).
INFO = Recorder()


class ListHandler(logging.Handler):
    def __init__(self):
        super().__init__(level=logging.DEBUG)
        self.records = []

    def emit(self, record):
        self.records.append(f"{record.name}|{record.levelname}|{record.getMessage()}")


LOG = ListHandler()
for _name in ("hvsrpy.hvsr_curve", "hvsrpy.hvsr_traditional",
              "hvsrpy.hvsr_azimuthal", "hvsrpy.hvsr_diffuse_field"):
    _logger = logging.getLogger(_name)
    _logger.setLevel(logging.DEBUG)
    _logger.addHandler(LOG)
    _logger.propagate = False


def flush_log(label):
    REC.add(f"{label} log", list(LOG.records))
    LOG.records.clear()


# --------------------------------------------------------------------------
# observable state of the objects
# --------------------------------------------------------------------------

def state(obj):
    """Everything a user can see on an HVSR object without calling statistics."""
    if isinstance(obj, hvsrpy.HvsrAzimuthal):
        return dict(kind="azimuthal",
                    azimuths=obj.azimuths,
                    n_azimuths=obj.n_azimuths,
                    meta=obj.meta,
                    frequency=obj.frequency,
                    amplitude=obj.amplitude,
                    peak_frequencies=obj.peak_frequencies,
                    peak_amplitudes=obj.peak_amplitudes,
                    search=obj._search_range_in_hz,
                    kwargs=obj._find_peaks_kwargs,
                    hvsrs=[state(h) for h in obj.hvsrs])
    if isinstance(obj, hvsrpy.HvsrTraditional):
        return dict(kind="traditional",
                    frequency=obj.frequency,
                    amplitude=obj.amplitude,
                    n_curves=obj.n_curves,
                    vw=obj.valid_window_boolean_mask,
                    vp=obj.valid_peak_boolean_mask,
                    meta=obj.meta,
                    peak_frequencies=obj.peak_frequencies,
                    peak_amplitudes=obj.peak_amplitudes,
                    # used by window_rejection.py and postprocessing.py
                    main_frq=obj._main_peak_frq,
                    main_amp=obj._main_peak_amp,
                    search=obj._search_range_in_hz,
                    kwargs=obj._find_peaks_kwargs)
    if isinstance(obj, hvsrpy.HvsrCurve):
        return dict(kind=type(obj).__name__,
                    frequency=obj.frequency,
                    amplitude=obj.amplitude,
                    meta=obj.meta,
                    peak_frequency=obj.peak_frequency,
                    peak_amplitude=obj.peak_amplitude,
                    search=obj._search_range_in_hz,
                    kwargs=obj._find_peaks_kwargs)
    raise TypeError(type(obj))


DISTRIBUTIONS = ("lognormal", "normal", "log-normal", "LogNormal", "bogus", 5, None)
NS = (-2, -1, 0, 0.5, 1, 2.5)


def statistics(label, hvsr, distributions=DISTRIBUTIONS, ns=NS):
    """Call every statistics accessor of ``hvsr``."""
    for d in distributions:
        for name in ("mean_fn_frequency", "mean_fn_amplitude",
                     "std_fn_frequency", "std_fn_amplitude", "cov_fn",
                     "mean_curve", "std_curve", "mean_curve_peak"):
            REC.call(f"{label}.{name}({d!r})", getattr(hvsr, name), d)
            REC.call(f"{label}.{name}(distribution={d!r})", getattr(hvsr, name), distribution=d)
        if isinstance(hvsr, hvsrpy.HvsrAzimuthal):
            REC.call(f"{label}.mean_curve_by_azimuth({d!r})", hvsr.mean_curve_by_azimuth, d)
            REC.call(f"{label}.mean_curve_peak_by_azimuth({d!r})", hvsr.mean_curve_peak_by_azimuth, d)
        for n in ns:
            for name in ("nth_std_fn_frequency", "nth_std_fn_amplitude", "nth_std_curve"):
                REC.call(f"{label}.{name}({n},{d!r})", getattr(hvsr, name), n, d)
    REC.call(f"{label}.mean_curve()", hvsr.mean_curve)
    REC.call(f"{label}.std_curve()", hvsr.std_curve)
    REC.call(f"{label}.mean_curve_peak()", hvsr.mean_curve_peak)
    REC.call(f"{label}.cov_fn()", hvsr.cov_fn)
    REC.call(f"{label}.nth_std_curve(n=1)", hvsr.nth_std_curve, n=1)
    REC.add(f"{label} state after statistics", state(hvsr))
    flush_log(label)


def quick_statistics(label, hvsr):
    statistics(label, hvsr, distributions=("lognormal", "normal"), ns=(-1, 1))


def summary(hvsr, **kwargs):
    """Table and caption shown by summarize_hvsr_statistics."""
    shown = []

    def capture(styler):
        shown.append(styler.data.to_numpy())
        shown.append(list(styler.data.columns))
        shown.append(styler.caption)

    buffer = io.StringIO()
    original = hvsrpy.postprocessing.display
    hvsrpy.postprocessing.display = capture
    try:
        with contextlib.redirect_stdout(buffer):
            out = hvsrpy.summarize_hvsr_statistics(hvsr, **kwargs)
    finally:
        hvsrpy.postprocessing.display = original
    return (out, shown, buffer.getvalue())


def file_roundtrip(label, hvsr, **kwargs):
    """Bytes written by write_hvsr_object_to_file and the object read back."""
    with tempfile.TemporaryDirectory() as tmp:
        fname = os.path.join(tmp, "obj.hvsr")
        out = REC.call(f"{label} write({kwargs})", hvsrpy.write_hvsr_object_to_file, hvsr, fname, **kwargs)
        if isinstance(out, Exception):
            return None
        with open(fname, "rb") as f:
            REC.add(f"{label} file bytes", hashlib.sha256(f.read()).hexdigest())
        REC.add(f"{label} dir", sorted(os.listdir(tmp)))
        back = REC.call(f"{label} read", hvsrpy.read_hvsr_object_from_file, fname)
        if not isinstance(back, Exception):
            REC.call(f"{label} back==orig", lambda: back == hvsr)
            REC.call(f"{label} orig==back", lambda: hvsr == back)
        flush_log(label)
        return back


# --------------------------------------------------------------------------
# input builders
# --------------------------------------------------------------------------

def bumps(frequency, centers, heights, widths, base=1.):
    amplitude = np.full_like(frequency, base, dtype=float)
    for c, h, w in zip(centers, heights, widths):
        amplitude = amplitude + h*np.exp(-0.5*((np.log(frequency) - np.log(c))/w)**2)
    return amplitude


def random_windows(rng, n_curves, n_frequencies, f_min=0.2, f_max=30., flat_rows=(), spread=0.15):
    frequency = np.geomspace(f_min, f_max, n_frequencies)
    rows = []
    for idx in range(n_curves):
        c0 = 1.5*np.exp(spread*rng.standard_normal())
        c1 = 9.0*np.exp(spread*rng.standard_normal())
        row = bumps(frequency, (c0, c1),
                    (3*np.exp(0.3*rng.standard_normal()), 1.5*np.exp(0.3*rng.standard_normal())),
                    (0.25, 0.18))
        row = row*np.exp(0.05*rng.standard_normal(n_frequencies))
        if idx in flat_rows:
            row = np.linspace(5, 1, n_frequencies)  # monotonic -> no peak.
        rows.append(row)
    return frequency, np.array(rows)


SEARCH_RANGES = [(None, None), (0.5, 5.), (None, 4), (4, None), [0.5, 5.], (5., 0.5),
                 (1000., 2000.), (0., 0.), (0.9, 0.9), (1, 2, 3), (1,), None, 3, "ab",
                 (None, None)]
FIND_PEAKS_KWARGS = [None, {}, dict(prominence=0.3), dict(height=2.), dict(width=2, rel_height=0.5),
                     dict(distance=5), dict(threshold=0.01), dict(bogus=1), [("height", 1.)], 7,
                     dict(prominence=1E6), None]


# --------------------------------------------------------------------------
# scenarios
# --------------------------------------------------------------------------

def scenario_curve(cls, tag):
    frq = np.array([1, 2, 3, 4, 5, 6], dtype=float)
    shapes = {
        "twopeak": [1, 3, 1, 1, 6, 1],
        "tie": [1, 4, 1, 1, 4, 1],
        "flat": [2, 2, 2, 2, 2, 2],
        "up": [1, 2, 3, 4, 5, 6],
        "plateau": [1, 3, 3, 3, 1, 0],
        "edge": [9, 1, 2, 1, 1, 9],
        "inf": [1, np.inf, 1, 2, 3, 2],
        "zeros": [0, 0, 0, 0, 0, 0],
    }
    for name, amp in shapes.items():
        label = f"{tag}[{name}]"
        meta_in = {"b": 1, "a": [1, 2], "search_range_in_hz": "user"}
        frq_in, amp_in = frq.copy(), list(amp)
        curve = cls(frq_in, amp_in, meta=meta_in)
        REC.add(f"{label} init", state(curve))
        REC.add(f"{label} meta input untouched", meta_in)
        REC.add(f"{label} meta is copy", curve.meta is not meta_in)
        REC.add(f"{label} nested meta shared", curve.meta["a"] is meta_in["a"])
        REC.add(f"{label} frequency is copy", curve.frequency is not frq_in and not np.shares_memory(curve.frequency, frq_in))
        REC.add(f"{label} inputs untouched", [frq_in, amp_in])
        for sr in SEARCH_RANGES:
            for kw in (None, {}, dict(prominence=1.5)):
                REC.call(f"{label}.update({sr!r},{kw!r})", curve.update_peaks_bounded, sr, kw)
                REC.add(f"{label} ->", state(curve))
        for kw in FIND_PEAKS_KWARGS:
            kw_in = dict(kw) if isinstance(kw, dict) else kw
            REC.call(f"{label}.update(kw={kw!r})", curve.update_peaks_bounded, find_peaks_kwargs=kw)
            REC.add(f"{label} ->", state(curve))
            REC.add(f"{label} kwargs untouched", [kw, kw_in])
            if isinstance(kw, dict):
                REC.add(f"{label} kwargs copied", [curve.meta["find_peaks_kwargs"] is not kw,
                                                    curve._find_peaks_kwargs is not kw])
        # repeated identical calls and keyword/positional mix.
        for _ in range(3):
            REC.call(f"{label}.update rep", curve.update_peaks_bounded, (2, 5), {})
            curve.meta.pop("search_range_in_hz", None)
            REC.add(f"{label} rep ->", state(curve))
        curve.meta = {"replaced": True}
        REC.call(f"{label}.update after meta swap", curve.update_peaks_bounded, search_range_in_hz=(2, 5), find_peaks_kwargs={})
        REC.add(f"{label} ->", state(curve))
        REC.call(f"{label}.update after meta swap 2", curve.update_peaks_bounded, search_range_in_hz=(2, 5))
        REC.add(f"{label} ->", state(curve))
        flush_log(label)

        other = cls(frq, amp, meta={"processing_method": "diffuse_field", "who": tag})
        REC.call(f"{label} eq self", lambda: curve == curve)
        REC.call(f"{label} eq other", lambda: curve == other)
        REC.call(f"{label} eq fresh", lambda: other == cls(frq, amp))
        REC.call(f"{label} eq shifted", lambda: other == cls(frq + 1E-12, np.array(amp) + 1E-12))
        REC.call(f"{label} eq shifted2", lambda: other == cls(frq + 1E-6, amp))
        REC.call(f"{label} eq short", lambda: other == cls(frq[:-1], amp[:-1]))
        REC.call(f"{label} eq str", lambda: other == "curve")
        REC.call(f"{label} ne", lambda: other != cls(frq, amp))
        REC.call(f"{label} similar", other.is_similar, cls(frq + 1E-10, amp))
        REC.call(f"{label} similar atol", other.is_similar, cls(frq + 1E-3, amp), atol=1E-2)
        REC.call(f"{label} similar rtol", other.is_similar, cls(frq*1.001, amp), 1E-9, 1E-2)
        REC.call(f"{label} similar None", other.is_similar, None)
        if cls is hvsrpy.HvsrDiffuseField:
            REC.add(f"{label} mean_curve is amplitude", other.mean_curve() is other.amplitude)
            REC.add(f"{label} mean_curve('x') is amplitude", other.mean_curve("x") is other.amplitude)
            for sr in SEARCH_RANGES:
                for kw in FIND_PEAKS_KWARGS:
                    REC.call(f"{label}.mean_curve_peak({sr!r},{kw!r})", other.mean_curve_peak,
                             search_range_in_hz=sr, find_peaks_kwargs=kw)
            REC.call(f"{label}.mean_curve_peak()", other.mean_curve_peak)
            REC.call(f"{label}.mean_curve_peak('normal',(2,6))", other.mean_curve_peak, "normal", (2, 6))
            REC.add(f"{label} state after mean_curve_peak", state(other))
            file_roundtrip(label, other)
            other.update_peaks_bounded((2, 5), dict(prominence=0.5))
            file_roundtrip(label + " bounded", other)
        flush_log(label)

    # damaged inputs.
    bad = {
        "nan frq": ([1, np.nan, 3], [1, 2, 1]),
        "nan amp": ([1, 2, 3], [1, np.nan, 1]),
        "neg frq": ([-1, 2, 3], [1, 2, 1]),
        "neg amp": ([1, 2, 3], [1, -2, 1]),
        "str": (["a", "b", "c"], [1, 2, 1]),
        "str amp": ([1, 2, 3], "abc"),
        "ragged": ([1, 2, 3], [[1, 2], [1]]),
        "short": ([1, 2, 3], [1, 2]),
        "none": (None, None),
        "empty": ([], []),
        "single": ([1], [2]),
        "scalar": (1., 2.),
        "2d": ([1, 2, 3], [[1, 2, 1], [1, 3, 1]]),
        "int": (np.arange(1, 6), np.array([1, 5, 1, 2, 1])),
        "bool": ([1, 2, 3], [True, False, True]),
        "complex": ([1, 2, 3], [1+0j, 2+0j, 1+0j]),
        "numeric str": (["1", "2", "3"], ["1", "2", "1"]),
    }
    for name, (f, a) in bad.items():
        out = REC.call(f"{tag} bad[{name}]", cls, f, a)
        if not isinstance(out, Exception):
            REC.call(f"{tag} bad[{name}] update", out.update_peaks_bounded, (1, 2))
            REC.add(f"{tag} bad[{name}] ->", state(out))
    for meta in (None, {}, {"x": 1}, [("x", 1)], "meta", 5):
        out = REC.call(f"{tag} meta[{meta!r}]", cls, [1, 2, 3], [1, 2, 1], meta)
    flush_log(tag)


def scenario_traditional():
    rng = np.random.default_rng(20240611)
    cases = {}
    cases["small"] = random_windows(rng, 6, 60)
    cases["medium"] = random_windows(rng, 35, 128, flat_rows=(3, 17))
    cases["wide"] = random_windows(rng, 12, 257, spread=0.6)
    cases["single"] = random_windows(rng, 1, 64)
    cases["allflat"] = random_windows(rng, 4, 32, flat_rows=(0, 1, 2, 3))
    cases["two"] = random_windows(rng, 2, 40)
    f, a = random_windows(rng, 9, 50, flat_rows=(0,))
    cases["fortran"] = (f, np.asfortranarray(a))
    cases["lists"] = (f.tolist(), a.tolist())
    cases["1d amplitude"] = (f, a[1])

    for name, (frq, amp) in cases.items():
        label = f"trad[{name}]"
        meta_in = {"zeta": 1, "alpha": {"nested": [1, 2]}}
        frq_keep = np.array(frq, dtype=float).copy()
        amp_keep = np.array(amp, dtype=float).copy()
        hvsr = hvsrpy.HvsrTraditional(frq, amp, meta=meta_in)
        REC.add(f"{label} init", state(hvsr))
        REC.add(f"{label} inputs untouched", [np.array_equal(frq_keep, frq), np.array_equal(amp_keep, amp), meta_in])
        REC.add(f"{label} aliasing", [hvsr.meta is not meta_in,
                                      hvsr.meta["alpha"] is meta_in["alpha"],
                                      isinstance(frq, np.ndarray) and np.shares_memory(hvsr.frequency, frq),
                                      isinstance(amp, np.ndarray) and np.shares_memory(hvsr.amplitude, amp)])
        flush_log(label)

        # accessor results are copies.
        pf = hvsr.peak_frequencies
        pf[:] = -1
        pa = hvsr.peak_amplitudes
        pa[:] = -1
        mc = hvsr.mean_curve()
        mc[:] = -1
        REC.add(f"{label} accessors are copies", state(hvsr))
        REC.add(f"{label} accessor identity", [hvsr.peak_frequencies is hvsr.peak_frequencies,
                                               np.shares_memory(hvsr.peak_frequencies, hvsr._main_peak_frq),
                                               np.shares_memory(hvsr.mean_curve(), hvsr.amplitude)])
        statistics(label, hvsr)
        REC.add(f"{label} str", re.sub(r"\d+", "N", str(hvsr)))
        REC.add(f"{label} repr", hashlib.sha256(repr(hvsr).encode()).hexdigest())

        # sequences of peak updates; masks must be updated in place.
        vw, vp = hvsr.valid_window_boolean_mask, hvsr.valid_peak_boolean_mask
        for sr in SEARCH_RANGES:
            for kw in (None, {}, dict(prominence=0.8)):
                REC.call(f"{label}.update({sr!r},{kw!r})", hvsr.update_peaks_bounded, sr, kw)
                REC.add(f"{label} ->", state(hvsr))
                REC.add(f"{label} masks same objects", [vw is hvsr.valid_window_boolean_mask,
                                                        vp is hvsr.valid_peak_boolean_mask, vw, vp])
            flush_log(label)
        for kw in FIND_PEAKS_KWARGS:
            REC.call(f"{label}.update(kw={kw!r})", hvsr.update_peaks_bounded, find_peaks_kwargs=kw)
            REC.add(f"{label} ->", state(hvsr))
            if isinstance(kw, dict):
                REC.add(f"{label} kwargs copied", [hvsr.meta["find_peaks_kwargs"] is not kw,
                                                    hvsr._find_peaks_kwargs is not kw,
                                                    hvsr.meta["find_peaks_kwargs"] is not hvsr._find_peaks_kwargs])
        flush_log(label)
        hvsr.update_peaks_bounded((0.5, 5.))
        quick_statistics(f"{label} bounded(0.5,5)", hvsr)
        hvsr.update_peaks_bounded((4, None), dict(prominence=0.2))
        quick_statistics(f"{label} bounded(4,None)+prom", hvsr)
        REC.call(f"{label} no peak in range", hvsr.update_peaks_bounded, (1000, 2000))
        quick_statistics(f"{label} bounded(1000,2000)", hvsr)
        REC.add(f"{label} ->", state(hvsr))

        # manual mask edits followed by repeated, identical/non-identical calls.
        hvsr.update_peaks_bounded((None, None), {})
        hvsr.valid_window_boolean_mask[::2] = False
        hvsr.valid_peak_boolean_mask[::2] = False
        quick_statistics(f"{label} every other rejected", hvsr)
        REC.call(f"{label} identical call keeps masks", hvsr.update_peaks_bounded, (None, None), {})
        REC.add(f"{label} ->", state(hvsr))
        REC.call(f"{label} default call resets masks", hvsr.update_peaks_bounded)
        REC.add(f"{label} ->", state(hvsr))
        hvsr.valid_window_boolean_mask = np.zeros(hvsr.n_curves, dtype=bool)
        hvsr.valid_peak_boolean_mask = np.zeros(hvsr.n_curves, dtype=bool)
        quick_statistics(f"{label} all rejected", hvsr)
        hvsr.valid_window_boolean_mask[-1] = True
        hvsr.valid_peak_boolean_mask[-1] = True
        quick_statistics(f"{label} one accepted", hvsr)
        hvsr.valid_window_boolean_mask[0] = True
        quick_statistics(f"{label} window without peak accepted", hvsr)
        hvsr.valid_peak_boolean_mask[:] = True
        hvsr.valid_window_boolean_mask[:] = False
        quick_statistics(f"{label} peaks only", hvsr)
        hvsr.meta = {"fresh": 1}
        REC.call(f"{label} update after meta swap", hvsr.update_peaks_bounded, [None, None], None)
        REC.add(f"{label} ->", state(hvsr))
        flush_log(label)

        # equality and similarity.
        twin = hvsrpy.HvsrTraditional(frq, amp)
        REC.call(f"{label} twin==fresh", lambda: twin == hvsrpy.HvsrTraditional(frq, amp, meta={"x": 1}))
        REC.call(f"{label} twin==hvsr", lambda: twin == hvsr)
        twin.valid_peak_boolean_mask[0] = False
        REC.call(f"{label} twin(peak edit)==fresh", lambda: twin == hvsrpy.HvsrTraditional(frq, amp))
        REC.call(f"{label} twin!=fresh", lambda: twin != hvsrpy.HvsrTraditional(frq, amp))
        REC.call(f"{label} twin==shifted", lambda: hvsrpy.HvsrTraditional(frq, amp) == hvsrpy.HvsrTraditional(np.array(frq)*(1 + 1E-7), np.array(amp) + 1E-9))
        REC.call(f"{label} twin==shifted2", lambda: hvsrpy.HvsrTraditional(frq, amp) == hvsrpy.HvsrTraditional(np.array(frq)*(1 + 1E-3), amp))
        REC.call(f"{label} twin==fewer", lambda: twin == hvsrpy.HvsrTraditional(frq, np.atleast_2d(amp)[:1]))
        REC.call(f"{label} twin==curve", lambda: twin == hvsrpy.HvsrCurve(frq, np.atleast_2d(amp)[0]))
        REC.call(f"{label} similar str", twin.is_similar, "x")
        REC.call(f"{label} similar shorter", twin.is_similar, hvsrpy.HvsrTraditional(np.array(frq)[:-1], np.atleast_2d(amp)[:, :-1]))

        # files.
        fresh = hvsrpy.HvsrTraditional(frq, amp, meta={"processing_method": "traditional", "note": "x"})
        file_roundtrip(f"{label} file", fresh)
        file_roundtrip(f"{label} file normal", fresh, distribution_mc="normal")
        fresh.update_peaks_bounded((0.8, 12.), dict(prominence=0.1))
        fresh.valid_window_boolean_mask[-1] = False
        fresh.valid_peak_boolean_mask[-1] = False
        back = file_roundtrip(f"{label} file bounded", fresh)
        if back is not None and not isinstance(back, Exception):
            REC.add(f"{label} back state", state(back))
            quick_statistics(f"{label} back", back)

        # algorithms that sit on top of the class.
        for n in (1.5, 2, 2.5):
            for dfn, dmc in (("lognormal", "lognormal"), ("normal", "normal"), ("lognormal", "normal")):
                work = hvsrpy.HvsrTraditional(frq, amp, meta={"k": 1})
                REC.call(f"{label} fdwra({n},{dfn},{dmc})", hvsrpy.frequency_domain_window_rejection, work, n=n,
                         distribution_fn=dfn, distribution_mc=dmc)
                REC.add(f"{label} fdwra ->", state(work))
                REC.call(f"{label} fdwra bounded({n},{dfn},{dmc})", hvsrpy.frequency_domain_window_rejection, work, n=n,
                         distribution_fn=dfn, distribution_mc=dmc, search_range_in_hz=(0.6, 4.),
                         find_peaks_kwargs=dict(prominence=0.2))
                REC.add(f"{label} fdwra bounded ->", state(work))
                quick_statistics(f"{label} fdwra", work)
        work = hvsrpy.HvsrTraditional(frq, amp)
        REC.call(f"{label} summary", summary, work)
        REC.call(f"{label} summary normal", summary, work, distribution_fn="normal", distribution_mc="normal")
        flush_log(label)

    # construction from HvsrCurve objects.
    frq, amp = cases["small"]
    curves = [hvsrpy.HvsrCurve(frq, a) for a in amp]
    REC.call("trad from curves", hvsrpy.HvsrTraditional.from_hvsr_curves, curves, {"m": 1})
    REC.call("trad from curves tuple", hvsrpy.HvsrTraditional.from_hvsr_curves, tuple(curves))
    REC.call("trad from curves dissimilar", hvsrpy.HvsrTraditional.from_hvsr_curves,
             curves + [hvsrpy.HvsrCurve(frq*2, amp[0])])
    REC.call("trad from curves short", hvsrpy.HvsrTraditional.from_hvsr_curves,
             curves + [hvsrpy.HvsrCurve(frq[:-1], amp[0][:-1])])
    REC.call("trad from curves empty", hvsrpy.HvsrTraditional.from_hvsr_curves, [])
    REC.call("trad from curves generator", hvsrpy.HvsrTraditional.from_hvsr_curves, (c for c in curves))
    REC.call("trad from curves mixed", hvsrpy.HvsrTraditional.from_hvsr_curves, curves + ["x"])
    REC.call("trad from diffuse", hvsrpy.HvsrTraditional.from_hvsr_curves,
             [hvsrpy.HvsrDiffuseField(frq, a) for a in amp])

    # damaged inputs.
    bad = {
        "nan": (frq, np.where(amp > 3.5, np.nan, amp)),
        "neg": (frq, -amp),
        "mismatch": (frq[:-1], amp),
        "3d": (frq, amp[None, :, :]),
        "str": (frq, "abc"),
        "ragged": (frq, [amp[0].tolist(), amp[1][:-1].tolist()]),
        "empty": ([], []),
        "zero rows": (frq, np.empty((0, len(frq)))),
        "zeros": (frq, np.zeros_like(amp)),
        "inf": (frq, np.where(amp > 3.5, np.inf, amp)),
        "none": (None, None),
    }
    for name, (f, a) in bad.items():
        out = REC.call(f"trad bad[{name}]", hvsrpy.HvsrTraditional, f, a)
        if not isinstance(out, Exception):
            REC.call(f"trad bad[{name}] update", out.update_peaks_bounded, (1, 5))
            REC.call(f"trad bad[{name}] update3", out.update_peaks_bounded, (1, 5, 7))
            quick_statistics(f"trad bad[{name}]", out)
    for meta in (None, {}, {"x": 1}, [("x", 1)], "meta"):
        REC.call(f"trad meta[{meta!r}]", hvsrpy.HvsrTraditional, frq, amp, meta)
    flush_log("trad bad")


def build_azimuthal(rng, n_azimuths, n_frequencies, curve_counts, flat_rows=(), meta=None):
    hvsrs, azimuths = [], []
    for idx in range(n_azimuths):
        n_curves = curve_counts[idx % len(curve_counts)]
        frq, amp = random_windows(rng, n_curves, n_frequencies, flat_rows=flat_rows if idx == 1 else ())
        hvsrs.append(hvsrpy.HvsrTraditional(frq, amp, meta={"azimuth index": idx}))
        azimuths.append(idx*180/n_azimuths)
    return hvsrs, azimuths


def scenario_azimuthal():
    rng = np.random.default_rng(777)
    cases = {
        "equal": build_azimuthal(rng, 4, 48, (8,)),
        "ragged": build_azimuthal(rng, 6, 64, (5, 9, 3), flat_rows=(1, 2)),
        "many": build_azimuthal(rng, 18, 96, (12, 7)),
        "one azimuth": build_azimuthal(rng, 1, 40, (6,)),
        "one curve each": build_azimuthal(rng, 5, 33, (1,)),
    }
    for name, (hvsrs, azimuths) in cases.items():
        label = f"azi[{name}]"
        meta_in = {"z": 0, "a": {"n": 1}}
        before = [state(h) for h in hvsrs]
        hvsrs[0].valid_window_boolean_mask[0] = False  # must not be carried over.
        hvsrs[0].update_peaks_bounded((1, 3))           # must not be carried over.
        az = hvsrpy.HvsrAzimuthal(hvsrs, azimuths, meta=meta_in)
        REC.add(f"{label} init", state(az))
        REC.add(f"{label} inputs untouched", [[state(h) for h in hvsrs], before is not None, meta_in, azimuths])
        REC.add(f"{label} aliasing", [az.meta is not meta_in,
                                      az.meta["a"] is meta_in["a"],
                                      [a is b for a, b in zip(az.hvsrs, hvsrs)],
                                      [np.shares_memory(a.amplitude, b.amplitude) for a, b in zip(az.hvsrs, hvsrs)],
                                      [a.meta is b.meta for a, b in zip(az.hvsrs, hvsrs)],
                                      az.frequency is az.hvsrs[0].frequency,
                                      [a is b.amplitude for a, b in zip(az.amplitude, az.hvsrs)],
                                      type(az.azimuths), [type(x).__name__ for x in az.azimuths]])
        flush_log(label)
        statistics(label, az)
        REC.add(f"{label} str", re.sub(r"\d+", "N", str(az)))
        REC.add(f"{label} repr", hashlib.sha256(repr(az).encode()).hexdigest())

        # accessor results are fresh objects.
        mc = az.mean_curve()
        mc[:] = -1
        for x in az.peak_frequencies:
            x[:] = -1
        REC.add(f"{label} after scribbling on results", state(az))

        masks = [(h.valid_window_boolean_mask, h.valid_peak_boolean_mask) for h in az.hvsrs]
        for sr in SEARCH_RANGES:
            for kw in (None, {}, dict(prominence=0.8)):
                REC.call(f"{label}.update({sr!r},{kw!r})", az.update_peaks_bounded, sr, kw)
                REC.add(f"{label} ->", state(az))
                REC.add(f"{label} masks same objects", [(a is h.valid_window_boolean_mask, b is h.valid_peak_boolean_mask)
                                                        for (a, b), h in zip(masks, az.hvsrs)])
            flush_log(label)
        for kw in FIND_PEAKS_KWARGS:
            REC.call(f"{label}.update(kw={kw!r})", az.update_peaks_bounded, find_peaks_kwargs=kw)
            REC.add(f"{label} ->", state(az))
        flush_log(label)

        az.update_peaks_bounded((0.5, 5.))
        quick_statistics(f"{label} bounded(0.5,5)", az)
        az.update_peaks_bounded((4, None), dict(prominence=0.2))
        quick_statistics(f"{label} bounded(4,None)+prom", az)
        az.update_peaks_bounded((1000, 2000))
        quick_statistics(f"{label} bounded(1000,2000)", az)
        az.update_peaks_bounded()

        # mask edits.
        for h in az.hvsrs:
            h.valid_window_boolean_mask[::2] = False
            h.valid_peak_boolean_mask[::2] = False
        quick_statistics(f"{label} every other rejected", az)
        REC.call(f"{label} identical call", az.update_peaks_bounded, (None, None), {})
        quick_statistics(f"{label} after identical call", az)
        az.update_peaks_bounded()
        az.hvsrs[-1].valid_window_boolean_mask[:] = False
        quick_statistics(f"{label} last azimuth without windows", az)
        az.hvsrs[-1].valid_window_boolean_mask[:] = True
        az.hvsrs[-1].valid_peak_boolean_mask[:] = False
        quick_statistics(f"{label} last azimuth without peaks", az)
        az.hvsrs[-1].valid_peak_boolean_mask[:1] = True
        az.hvsrs[-1].valid_window_boolean_mask[:] = False
        az.hvsrs[-1].valid_window_boolean_mask[:1] = True
        quick_statistics(f"{label} last azimuth single", az)
        az.update_peaks_bounded((None, 20.))
        flush_log(label)

        # equality.
        twin = hvsrpy.HvsrAzimuthal(hvsrs, azimuths)
        REC.call(f"{label} twin==fresh", lambda: twin == hvsrpy.HvsrAzimuthal(hvsrs, azimuths, meta={"q": 1}))
        REC.call(f"{label} twin==az", lambda: twin == az)
        REC.call(f"{label} twin!=az", lambda: twin != az)
        REC.call(f"{label} twin==shifted", lambda: twin == hvsrpy.HvsrAzimuthal(hvsrs, [min(x + 0.05, 180) for x in azimuths]))
        REC.call(f"{label} twin==shifted2", lambda: twin == hvsrpy.HvsrAzimuthal(hvsrs, [min(x + 0.5, 180) for x in azimuths]))
        REC.call(f"{label} twin==fewer", lambda: twin == hvsrpy.HvsrAzimuthal(hvsrs[:1], azimuths[:1]))
        REC.call(f"{label} twin==trad", lambda: twin == hvsrs[0])
        REC.call(f"{label} similar str", twin.is_similar, "x")

        # files.
        fresh = hvsrpy.HvsrAzimuthal(hvsrs, azimuths, meta={"processing_method": "azimuthal", "note": "x"})
        file_roundtrip(f"{label} file", fresh)
        file_roundtrip(f"{label} file normal", fresh, distribution_mc="normal")
        fresh.update_peaks_bounded((0.8, 12.), dict(prominence=0.1))
        fresh.hvsrs[0].valid_window_boolean_mask[-1:] = False
        back = file_roundtrip(f"{label} file bounded", fresh)
        if back is not None and not isinstance(back, Exception):
            REC.add(f"{label} back state", state(back))
            quick_statistics(f"{label} back", back)

        # algorithms on top.
        for n, dfn, dmc in ((2, "lognormal", "lognormal"), (1.5, "normal", "normal"), (2.5, "lognormal", "normal")):
            work = hvsrpy.HvsrAzimuthal(hvsrs, azimuths, meta={"k": 1})
            REC.call(f"{label} fdwra({n},{dfn},{dmc})", hvsrpy.frequency_domain_window_rejection, work, n=n,
                     distribution_fn=dfn, distribution_mc=dmc)
            REC.add(f"{label} fdwra ->", state(work))
            quick_statistics(f"{label} fdwra", work)
            REC.call(f"{label} fdwra bounded", hvsrpy.frequency_domain_window_rejection, work, n=n,
                     distribution_fn=dfn, distribution_mc=dmc, search_range_in_hz=(0.6, 4.),
                     find_peaks_kwargs=dict(prominence=0.2))
            REC.add(f"{label} fdwra bounded ->", state(work))
        work = hvsrpy.HvsrAzimuthal(hvsrs, azimuths)
        REC.call(f"{label} summary", summary, work)
        REC.call(f"{label} summary normal", summary, work, distribution_fn="normal", distribution_mc="normal")
        flush_log(label)

    # damaged inputs.
    hvsrs, azimuths = cases["equal"]
    other_frq, other_amp = random_windows(rng, 3, 30)
    dissimilar = hvsrpy.HvsrTraditional(other_frq, other_amp)
    bad = {
        "empty": ([], []),
        "not hvsr": (["a", "b"], [0, 1]),
        "second not hvsr": ([hvsrs[0], "b"], [0, 1]),
        "curve": ([hvsrpy.HvsrCurve([1, 2, 3], [1, 2, 1])], [0]),
        "azimuth low": (hvsrs, [-1, 10, 20, 30]),
        "azimuth high": (hvsrs, [0, 10, 20, 180.5]),
        "azimuth 180": (hvsrs, [0, 10, 20, 180]),
        "azimuth str": (hvsrs, ["0", "10", "20", "30.5"]),
        "azimuth bad str": (hvsrs, ["north", 10, 20, 30]),
        "azimuth nan": (hvsrs, [np.nan, 10, 20, 30]),
        "azimuth none": (hvsrs, None),
        "fewer azimuths": (hvsrs, [0, 10]),
        "more azimuths": (hvsrs, [0, 10, 20, 30, 40, 50]),
        "dissimilar": ([hvsrs[0], dissimilar], [0, 90]),
        "dissimilar first": ([dissimilar] + hvsrs, [0, 10, 20, 30, 40]),
        "tuple": (tuple(hvsrs), tuple(float(x) for x in range(4))),
        "generator": ((h for h in hvsrs), [0, 1, 2, 3]),
        "numpy azimuths": (hvsrs, np.array([0, 45, 90, 135])),
        "unsorted": (hvsrs, [90, 0, 135.5, 45]),
        "repeated": (hvsrs, [10, 10, 10, 10]),
    }
    for name, (h, a) in bad.items():
        out = REC.call(f"azi bad[{name}]", hvsrpy.HvsrAzimuthal, h, a)
        if not isinstance(out, Exception):
            quick_statistics(f"azi bad[{name}]", out)
            file_roundtrip(f"azi bad[{name}]", out)
    for meta in (None, {}, {"x": 1}, [("x", 1)], "meta"):
        REC.call(f"azi meta[{meta!r}]", hvsrpy.HvsrAzimuthal, hvsrs, azimuths, meta)
    flush_log("azi bad")


def scenario_sesame_and_plots():
    rng = np.random.default_rng(5)
    frq, amp = random_windows(rng, 10, 80)
    hvsr = hvsrpy.HvsrTraditional(frq, amp)
    REC.call("sesame peak_index", sesame.peak_index, hvsr.mean_curve())
    REC.call("sesame peak_index flat", sesame.peak_index, np.ones(5))
    REC.call("sesame reliability", sesame.reliability, 60, 10, frq, hvsr.mean_curve(), hvsr.std_curve(), verbose=0)
    REC.call("sesame clarity", sesame.clarity, frq, hvsr.mean_curve(), hvsr.std_curve(),
             hvsr.std_fn_frequency(distribution="normal"), verbose=0)

    import matplotlib
    matplotlib.use("Agg")
    import matplotlib.pyplot as plt

    hvsrs, azimuths = build_azimuthal(rng, 5, 40, (6, 4))
    az = hvsrpy.HvsrAzimuthal(hvsrs, azimuths)
    dfc = hvsrpy.HvsrDiffuseField(frq, amp[0])
    for name, obj in (("trad", hvsr), ("azi", az), ("dfc", dfc)):
        for dist in ("lognormal", "normal"):
            try:
                fig, ax = hvsrpy.plot_single_panel_hvsr_curves(obj, distribution_mc=dist, distribution_fn=dist)
            except Exception as e:  # noqa
                REC.add(f"plot single {name} {dist}", e)
                continue
            lines = []
            for line in ax.get_lines():
                lines.append([np.asarray(line.get_xdata(), dtype=float), np.asarray(line.get_ydata(), dtype=float)])
            REC.add(f"plot single {name} {dist}", lines)
            plt.close(fig)
    for fxn in (hvsrpy.plot_azimuthal_contour_2d, hvsrpy.plot_azimuthal_summary):
        try:
            out = fxn(az)
            fig = out[0]
            data = []
            for ax in fig.get_axes():
                for line in ax.get_lines():
                    data.append([np.asarray(line.get_xdata(), dtype=float), np.asarray(line.get_ydata(), dtype=float)])
            REC.add(f"plot {fxn.__name__}", data)
            plt.close(fig)
        except Exception as e:  # noqa
            REC.add(f"plot {fxn.__name__}", e)


def scenario_private_helpers_used_elsewhere():
    """sesame.py and hvsr_geopsy.py call these static helpers directly."""
    frq = np.geomspace(0.1, 10, 50)
    amp = bumps(frq, (0.5, 4.), (3., 5.), (0.3, 0.2))
    C = hvsrpy.HvsrCurve
    REC.call("unbounded", C._find_peak_unbounded, frq, amp)
    REC.call("unbounded kw", C._find_peak_unbounded, frq, amp, find_peaks_kwargs=dict(prominence=100))
    REC.call("unbounded arange", C._find_peak_unbounded, np.arange(len(amp)), amp)
    REC.call("unbounded list frequency", C._find_peak_unbounded, frq.tolist(), amp)
    for sr in SEARCH_RANGES:
        REC.call(f"index range {sr!r}", C._search_range_to_index_range, frq, sr)
        REC.call(f"bounded {sr!r}", C._find_peak_bounded, frq, amp, sr)
        REC.call(f"bounded kw {sr!r}", C._find_peak_bounded, frq, amp, search_range_in_hz=sr,
                 find_peaks_kwargs=dict(height=4.))
    REC.call("bounded default", C._find_peak_bounded, frq, amp)
    REC.call("check_input", C._check_input, [1, 2, 3], "x")
    REC.call("check_input bad", C._check_input, [1, "a"], "x")


def scenario_size_sweep():
    """Bit-for-bit statistics for many array sizes (summation order, memory layout)."""
    rng = np.random.default_rng(99)
    for n_frequencies in (1, 2, 3, 7, 8, 9, 15, 16, 17, 31, 33, 64, 65, 127, 129, 255, 513):
        for n_azimuths, counts in ((1, (3,)), (2, (1, 2)), (3, (5, 8, 13)), (7, (40, 41)), (4, (130, 257, 3)), (12, (100,))):
            frequency = np.geomspace(0.1, 50, n_frequencies)
            hvsrs = []
            for idx in range(n_azimuths):
                n_curves = counts[idx % len(counts)]
                amplitude = np.exp(0.5*rng.standard_normal((n_curves, n_frequencies))) + 0.1
                if idx % 2:
                    amplitude = np.asfortranarray(amplitude)
                hvsrs.append(hvsrpy.HvsrTraditional(frequency, amplitude))
            azimuths = [i*180/n_azimuths for i in range(n_azimuths)]
            az = hvsrpy.HvsrAzimuthal(hvsrs, azimuths)
            label = f"sweep[{n_frequencies},{n_azimuths},{counts}]"
            for stage in ("all", "thinned", "bounded"):
                if stage == "thinned":
                    for h in az.hvsrs:
                        keep = rng.random(h.n_curves) > 0.3
                        keep[0] = True
                        h.valid_window_boolean_mask[:] = keep
                        h.valid_peak_boolean_mask[:] = keep & h.valid_peak_boolean_mask
                if stage == "bounded":
                    az.update_peaks_bounded((0.5, 20.), dict(prominence=0.05))
                for d in ("lognormal", "normal"):
                    for name in ("mean_curve", "std_curve", "mean_fn_frequency", "mean_fn_amplitude",
                                 "std_fn_frequency", "std_fn_amplitude", "cov_fn", "mean_curve_peak",
                                 "mean_curve_by_azimuth", "mean_curve_peak_by_azimuth"):
                        REC.call(f"{label} {stage} {name}({d})", getattr(az, name), d)
                    REC.call(f"{label} {stage} nth_std_curve({d})", az.nth_std_curve, 1.5, d)
                    for h_idx in (0, len(az.hvsrs) - 1):
                        h = az.hvsrs[h_idx]
                        for name in ("mean_curve", "std_curve", "mean_fn_frequency", "std_fn_frequency",
                                     "mean_fn_amplitude", "std_fn_amplitude", "cov_fn", "mean_curve_peak"):
                            REC.call(f"{label} {stage} hvsrs[{h_idx}].{name}({d})", getattr(h, name), d)
                REC.add(f"{label} {stage} state", state(az))
            flush_log(label)


def scenario_odd_masks_and_arguments():
    """Masks replaced by the user with unusual (but indexable) objects, odd arguments."""
    rng = np.random.default_rng(4242)
    frq, amp = random_windows(rng, 7, 45, flat_rows=(2,))
    replacements = {
        "list": lambda n: [bool(i % 3) for i in range(n)],
        "int array": lambda n: np.array([i % 2 for i in range(n)]),
        "short": lambda n: np.ones(n - 1, dtype=bool),
        "long": lambda n: np.ones(n + 1, dtype=bool),
        "index array": lambda n: np.array([0, 1, 1, n - 1]),
        "tuple": lambda n: tuple(True for _ in range(n)),
        "none": lambda n: None,
        "2d": lambda n: np.ones((n, 1), dtype=bool),
        "readonly": lambda n: np.broadcast_to(np.array(True), (n,)),
    }
    for name, make in replacements.items():
        for which in ("valid_window_boolean_mask", "valid_peak_boolean_mask", "both"):
            label = f"odd[{name},{which}]"
            hvsr = hvsrpy.HvsrTraditional(frq, amp)
            others = [hvsrpy.HvsrTraditional(frq, amp[:4]), hvsrpy.HvsrTraditional(frq, amp[3:])]
            az = hvsrpy.HvsrAzimuthal([hvsr] + others, [0, 60, 120])
            for target in (hvsr, az.hvsrs[1]):
                for attr in ("valid_window_boolean_mask", "valid_peak_boolean_mask"):
                    if which in (attr, "both"):
                        setattr(target, attr, make(target.n_curves))
            for obj_name, obj in (("trad", hvsr), ("azi", az)):
                for d in ("lognormal", "normal"):
                    for fxn in ("mean_fn_frequency", "mean_fn_amplitude", "std_fn_frequency", "std_fn_amplitude",
                                "cov_fn", "mean_curve", "std_curve", "mean_curve_peak"):
                        REC.call(f"{label} {obj_name}.{fxn}({d})", getattr(obj, fxn), d)
                    REC.call(f"{label} {obj_name}.nth_std_curve({d})", obj.nth_std_curve, 1, d)
                    REC.call(f"{label} {obj_name}.nth_std_fn_frequency({d})", obj.nth_std_fn_frequency, 1, d)
                REC.call(f"{label} {obj_name}.update", obj.update_peaks_bounded, (0.5, 6.))
                REC.call(f"{label} {obj_name} masks", lambda: [
                    (type(h.valid_window_boolean_mask).__name__, h.valid_window_boolean_mask,
                     type(h.valid_peak_boolean_mask).__name__, h.valid_peak_boolean_mask,
                     h._main_peak_frq, h._main_peak_amp)
                    for h in ([obj] if obj_name == "trad" else obj.hvsrs)])
                REC.call(f"{label} {obj_name}.update flat", obj.update_peaks_bounded, (1000, 2000))
                REC.call(f"{label} {obj_name} masks", lambda: [
                    (type(h.valid_window_boolean_mask).__name__, h.valid_window_boolean_mask,
                     type(h.valid_peak_boolean_mask).__name__, h.valid_peak_boolean_mask,
                     h._main_peak_frq, h._main_peak_amp)
                    for h in ([obj] if obj_name == "trad" else obj.hvsrs)])
                REC.call(f"{label} {obj_name} eq", lambda: obj == obj)
            flush_log(label)

    # array valued and otherwise unusual arguments.
    hvsr = hvsrpy.HvsrTraditional(frq, amp)
    az = hvsrpy.HvsrAzimuthal([hvsr, hvsr], [0, 90])
    curve = hvsrpy.HvsrCurve(frq, amp[0])
    arguments = [
        (np.array([0.5, 5.]), None),
        ((np.float64(0.5), np.float32(5.)), None),
        ((0.5, 5.), dict(height=np.full(len(frq), 1.5))),
        ((0.5, 5.), dict(height=np.full(5, 1.5))),
        ((None, None), dict(height=np.full(len(frq), 1.5))),
        ((None, None), dict(height=(1.5, 3.))),
        ((None, None), dict(prominence=(None, 0.5), wlen=1)),
        ((None, None), dict(width=-1, rel_height=-1)),
        ((None, None), dict(distance=0.5)),
        ((None, None), dict(plateau_size=1)),
        ((np.inf, None), None),
        ((np.nan, np.nan), None),
        ((-1, -2), None),
        (("1", "2"), None),
        ((None, None), {"x": 1}),
        ((i for i in (1., 4.)), None),
        ({1.: 0, 4.: 0}, None),
        ((1+0j, 4), None),
        ((True, False), None),
    ]
    for sr, kw in arguments:
        for obj_name, obj in (("curve", curve), ("trad", hvsr), ("azi", az)):
            label = f"odd args[{obj_name},{sr!r:.40},{kw!r:.40}]"
            REC.call(f"{label} update", obj.update_peaks_bounded, sr, kw)
            REC.call(f"{label} state", state, obj)
            REC.call(f"{label} again", obj.update_peaks_bounded, sr, kw)
            REC.call(f"{label} state", state, obj)
            if obj_name != "curve":
                REC.call(f"{label} mean_curve_peak", obj.mean_curve_peak)
                REC.call(f"{label} mean_fn_frequency", obj.mean_fn_frequency)
        flush_log("odd args")
    dfc = hvsrpy.HvsrDiffuseField(frq, amp[0])
    for sr, kw in arguments[:-6]:
        REC.call(f"odd args[dfc,{sr!r:.40},{kw!r:.40}] mean_curve_peak", dfc.mean_curve_peak, None, sr, kw)


# --------------------------------------------------------------------------
# interrupted peak searches
# --------------------------------------------------------------------------

class InterruptedFindPeaks():
    """Stand-in for ``find_peaks`` whose k-th call raises."""

    def __init__(self, original, k, exception=MemoryError):
        self.original, self.k, self.exception = original, k, exception
        self.calls = 0

    def __call__(self, *args, **kwargs):
        n = self.calls
        self.calls += 1
        if n == self.k:
            raise self.exception("interrupted")
        return self.original(*args, **kwargs)


def _interruptible_objects():
    rng = np.random.default_rng(31337)
    frq, amp = random_windows(rng, 6, 60, flat_rows=(2,))

    def curve():
        return hvsrpy.HvsrCurve(frq, amp[0], meta={"who": "curve"})

    def diffuse():
        return hvsrpy.HvsrDiffuseField(frq, amp[1], meta={"who": "dfc"})

    def traditional():
        return hvsrpy.HvsrTraditional(frq, amp, meta={"who": "trad"})

    def azimuthal():
        hvsrs = [hvsrpy.HvsrTraditional(frq, amp[:3]),
                 hvsrpy.HvsrTraditional(frq, amp[2:]),
                 hvsrpy.HvsrTraditional(frq, amp[::2]*1.1)]
        return hvsrpy.HvsrAzimuthal(hvsrs, [0, 60, 120], meta={"who": "azi"})

    return dict(curve=curve, diffuse=diffuse, trad=traditional, azi=azimuthal)


def _after_search(label, obj, rec):
    rec.add(f"{label} state", state(obj))
    rec.add(f"{label} meta search range", obj.meta.get("search_range_in_hz", "missing"))
    members = obj.hvsrs if isinstance(obj, hvsrpy.HvsrAzimuthal) else [obj]
    rec.add(f"{label} member ranges", [(m._search_range_in_hz, m._find_peaks_kwargs,
                                         m.meta.get("search_range_in_hz", "missing"),
                                         m.meta.get("find_peaks_kwargs", "missing")) for m in members])


def _results(label, obj):
    _after_search(label, obj, REC)
    if hasattr(obj, "mean_curve_peak"):
        for d in ("lognormal", "normal"):
            REC.call(f"{label} mean_curve_peak({d})", obj.mean_curve_peak, d)
    if isinstance(obj, hvsrpy.HvsrDiffuseField):
        REC.call(f"{label} mean_curve_peak(range)", obj.mean_curve_peak, "lognormal",
                 obj._search_range_in_hz, obj._find_peaks_kwargs)
    if isinstance(obj, (hvsrpy.HvsrTraditional, hvsrpy.HvsrAzimuthal)):
        for name in ("mean_fn_frequency", "std_fn_frequency", "mean_fn_amplitude",
                     "std_fn_amplitude", "cov_fn", "mean_curve", "std_curve"):
            REC.call(f"{label} {name}", getattr(obj, name))


def _comparable(obj):
    """state() without the pieces that legitimately differ from a fresh object (none expected)."""
    return canon(state(obj))


def scenario_interrupted_search():
    import hvsrpy.hvsr_curve as hvsr_curve_module
    original = hvsr_curve_module.find_peaks
    inf = np.inf
    previous = [((0.5, 5.), None), ((None, None), dict(prominence=0.3))]
    targets = [(4, None), (0.8, 12.), (None, 2.), (1000., 2000.), (-inf, inf), (-inf, 4.), (4., inf),
               (None, inf), (-inf, None), (inf, inf), (-inf, -inf), (inf, -inf), [0.8, 12.]]
    kwargss = [{}, None, {"prominence": 0.1}]
    mismatches = []
    for kind, build in _interruptible_objects().items():
        for prev_range, prev_kw in previous:
            for target in targets:
                for kw in kwargss:
                    # how many searches does the uninterrupted call do?
                    counter = InterruptedFindPeaks(original, -1)
                    reference = build()
                    reference.update_peaks_bounded(prev_range, prev_kw)
                    LOG.records.clear()
                    hvsr_curve_module.find_peaks = counter
                    try:
                        REC.call(f"int[{kind},{prev_range},{prev_kw},{target},{kw}] reference", reference.update_peaks_bounded, target, kw)
                    finally:
                        hvsr_curve_module.find_peaks = original
                    n_calls = counter.calls
                    REC.add(f"int[{kind},{prev_range},{prev_kw},{target},{kw}] n searches", n_calls)
                    _results(f"int[{kind},{prev_range},{prev_kw},{target},{kw}] reference", reference)
                    flush_log("int reference")
                    # an object that never held another range.
                    pristine = build()
                    pristine.update_peaks_bounded(target, kw)
                    LOG.records.clear()

                    exceptions = [MemoryError] if kw is None else [MemoryError, KeyboardInterrupt]
                    for exception in exceptions:
                        for k in range(n_calls + 1):
                            for n_interruptions in ((1, 2) if kw == {} else (1,)):
                                label = f"int[{kind},{prev_range},{prev_kw},{target},{kw},{exception.__name__},k={k},x{n_interruptions}]"
                                obj = build()
                                obj.update_peaks_bounded(prev_range, prev_kw)
                                if kind in ("trad", "azi"):
                                    held = [(m.valid_window_boolean_mask, m.valid_peak_boolean_mask)
                                            for m in (obj.hvsrs if kind == "azi" else [obj])]
                                LOG.records.clear()
                                for attempt in range(n_interruptions):
                                    stand_in = InterruptedFindPeaks(original, k, exception)
                                    hvsr_curve_module.find_peaks = stand_in
                                    try:
                                        obj.update_peaks_bounded(target, kw)
                                    except BaseException as e:  # noqa
                                        REC.add(f"{label} attempt {attempt}", f"raises:{type(e).__name__}")
                                    else:
                                        REC.add(f"{label} attempt {attempt}", "returns")
                                    finally:
                                        hvsr_curve_module.find_peaks = original
                                    REC.add(f"{label} attempt {attempt} searches", stand_in.calls)
                                    _after_search(f"{label} attempt {attempt}", obj, INFO)
                                    INFO.add(f"{label} attempt {attempt} log", list(LOG.records))
                                    LOG.records.clear()

                                # the identical call, not interrupted.
                                counter = InterruptedFindPeaks(original, -1)
                                hvsr_curve_module.find_peaks = counter
                                try:
                                    REC.call(f"{label} repeated", obj.update_peaks_bounded, target, kw)
                                finally:
                                    hvsr_curve_module.find_peaks = original
                                # the number of searches of the repeated call (members that finished
                                # before the interruption return early when the kwargs compare equal).
                                REC.add(f"{label} repeated searches", counter.calls)
                                _results(f"{label} repeated", obj)
                                flush_log(f"{label} repeated")
                                if kind in ("trad", "azi"):
                                    REC.add(f"{label} masks same objects",
                                            [(a is m.valid_window_boolean_mask, b is m.valid_peak_boolean_mask)
                                             for (a, b), m in zip(held, (obj.hvsrs if kind == "azi" else [obj]))])
                                same_ref = _comparable(obj) == _comparable(reference)
                                same_new = _comparable(obj) == _comparable(pristine)
                                REC.add(f"{label} equals uninterrupted object", same_ref)
                                REC.add(f"{label} equals fresh object", same_new)
                                if not (same_ref and same_new):
                                    mismatches.append(label)
                                # third identical call: nothing left to do.
                                counter = InterruptedFindPeaks(original, -1)
                                hvsr_curve_module.find_peaks = counter
                                try:
                                    REC.call(f"{label} third", obj.update_peaks_bounded, target, kw)
                                finally:
                                    hvsr_curve_module.find_peaks = original
                                REC.add(f"{label} third searches", counter.calls)
                                REC.add(f"{label} third state", state(obj))
                                LOG.records.clear()
    assert hvsr_curve_module.find_peaks is original
    print(f"interrupted search: objects differing from a fresh object after the repeated call: {len(mismatches)}")
    for label in mismatches[:20]:
        print("   ", label)


def main():
    scenario_private_helpers_used_elsewhere()
    scenario_curve(hvsrpy.HvsrCurve, "curve")
    scenario_curve(hvsrpy.HvsrDiffuseField, "diffuse")
    scenario_traditional()
    scenario_azimuthal()
    scenario_sesame_and_plots()
    scenario_size_sweep()
    scenario_odd_masks_and_arguments()
    print(f"records: {REC.count}")
    print(f"digest (original scenarios): {REC.sha.hexdigest()}")
    scenario_interrupted_search()
    print(f"records: {REC.count}")
    print(f"digest: {REC.sha.hexdigest()}")
    print(f"informational (state right after the interrupted call) records: {INFO.count}")
    print(f"informational digest: {INFO.sha.hexdigest()}")


if __name__ == "__main__":
    main()
