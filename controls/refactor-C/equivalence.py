"""Equivalence harness for the persistence / copy / trim / split refactoring.

Imports hvsrpy from the tree this file lives in, drives the public API of
``hvsrpy.timeseries``, ``hvsrpy.seismic_recording_3c``, ``hvsrpy.settings``
and ``hvsrpy.object_io`` over many inputs and call sequences (legal and
damaged), and prints one sha256 digest per section plus a total digest.

Everything that enters the digest is deterministic: array bytes and dtypes,
file bytes, dictionary contents *and key order*, aliasing facts, exception
and warning types (never messages, ids or paths).
"""

import contextlib
import hashlib
import io
import json
import os
import pathlib
import shutil
import sys
import tempfile
import warnings

HERE = pathlib.Path(__file__).resolve().parent
ROOT = HERE.parent
sys.path.insert(0, str(ROOT))
os.environ.setdefault("MPLBACKEND", "Agg")

import numpy as np  # noqa: E402

import hvsrpy  # noqa: E402
from hvsrpy import TimeSeries, SeismicRecording3C  # noqa: E402
from hvsrpy.settings import Settings  # noqa: E402

assert pathlib.Path(hvsrpy.__file__).resolve().parent.parent == ROOT, hvsrpy.__file__

SECTIONS = {}
_current = []


def canon(value):
    """Deterministic, type-revealing text for a value."""
    if isinstance(value, np.ndarray):
        data = np.ascontiguousarray(value)
        if data.dtype == object:
            return f"ndarray(object,{data.shape},{[canon(v) for v in data.ravel().tolist()]})"
        return f"ndarray({data.dtype.str},{data.shape},{hashlib.sha256(data.tobytes()).hexdigest()})"
    if isinstance(value, np.generic):
        return f"{type(value).__name__}({value!r})"
    if isinstance(value, bool):
        return f"bool({value})"
    if isinstance(value, float):
        return f"float({value!r})"
    if isinstance(value, int):
        return f"int({value})"
    if isinstance(value, str):
        return f"str({value!r})"
    if isinstance(value, bytes):
        return f"bytes({len(value)},{hashlib.sha256(value).hexdigest()})"
    if value is None:
        return "None"
    if isinstance(value, dict):
        return "dict{" + ",".join(f"{canon(k)}:{canon(v)}" for k, v in value.items()) + "}"
    if isinstance(value, (list, tuple)):
        return type(value).__name__ + "[" + ",".join(canon(v) for v in value) + "]"
    if isinstance(value, TimeSeries):
        return f"TimeSeries({canon(value.amplitude)},{canon(value.dt_in_seconds)})"
    if isinstance(value, SeismicRecording3C):
        return ("SeismicRecording3C(" + ",".join(canon(getattr(value, c)) for c in ("ns", "ew", "vt"))
                + f",{canon(value.degrees_from_north)},{canon(value.meta)})")
    if isinstance(value, Settings):
        return f"{type(value).__name__}(attrs={canon(value.attrs)},state={canon(state_of(value))})"
    if isinstance(value, BaseException):
        return f"raised({type(value).__name__})"
    if isinstance(value, type):
        return f"type({value.__name__})"
    return f"object({type(value).__name__})"


def state_of(settings):
    """All instance attributes of a settings object, sorted by name."""
    return {k: v for k, v in sorted(vars(settings).items()) if not k.startswith("_")}


def rec(label, value):
    _current.append(f"{label} = {canon(value)}")


def attempt(label, function, *args, **kwargs):
    """Call, record result or exception type, record warning categories."""
    with warnings.catch_warnings(record=True) as caught:
        warnings.simplefilter("always")
        try:
            result = function(*args, **kwargs)
        except BaseException as e:  # noqa: B902 - types are what we compare
            result = e
    rec(label, result)
    if caught:
        rec(label + " [warnings]", sorted(w.category.__name__ for w in caught))
    return result


def file_bytes(fname):
    p = pathlib.Path(fname)
    if not p.exists():
        return None
    return p.read_bytes()


@contextlib.contextmanager
def section(name):
    global _current
    _current = []
    yield
    text = "\n".join(_current)
    SECTIONS[name] = (hashlib.sha256(text.encode()).hexdigest(), len(_current), text)


def rng(seed):
    return np.random.default_rng(seed)


# --------------------------------------------------------------------------
# TimeSeries
# --------------------------------------------------------------------------

def section_timeseries():
    with section("timeseries"):
        # construction
        for label, amplitude, dt in [
            ("list", [1, 2, 3, 4], 0.5),
            ("tuple-int", (1, 2, 3), 1),
            ("float32", np.arange(7, dtype=np.float32), "0.25"),
            ("empty", [], 0.1),
            ("2d", [[1, 2], [3, 4]], 0.1),
            ("ragged", [[1, 2], [3]], 0.1),
            ("text", ["a", "b"], 0.1),
            ("none", None, 0.1),
            ("scalar", 5.0, 0.1),
            ("bad-dt", [1, 2, 3], "x"),
            ("none-dt", [1, 2, 3], None),
            ("nan-dt", [1, 2, 3], float("nan")),
        ]:
            attempt(f"init {label}", TimeSeries, amplitude, dt)

        # constructor copies its input; the copy constructor copies again
        source = np.arange(10, dtype=float)
        ts = TimeSeries(source, 0.1)
        rec("init copies", not np.shares_memory(ts.amplitude, source))
        copy = TimeSeries.from_timeseries(ts)
        rec("copy shares", np.shares_memory(ts.amplitude, copy.amplitude))
        rec("copy eq", copy == ts)
        copy.amplitude[0] = 99
        rec("copy independent", ts.amplitude[0])
        rec("props", [ts.n_samples, ts.fs, ts.fnyq, ts.time()])

        # trim: grid of dt / n / start / end, plus the aliasing of the result
        for dt in (0.01, 0.1, 0.004, 1/3, 1.0, 2.5):
            for n in (1, 2, 11, 100, 1001):
                base = rng(n).normal(size=n)
                duration = (n-1)*dt
                candidates = [-1, -0.0, 0, 0.0, dt/2, dt, 1.49*dt, 1.5*dt, 2.5*dt, duration/3,
                              duration/2, duration-dt, duration-dt/2, duration,
                              np.nextafter(duration, np.inf), duration+dt, np.float64(dt*3),
                              np.int64(1), float("nan"), float("inf")]
                for start in candidates:
                    for end in candidates:
                        ts = TimeSeries(base, dt)
                        before = ts.amplitude
                        result = attempt(f"trim dt={dt!r} n={n} {start!r} {end!r}",
                                         ts.trim, start, end)
                        rec("  ->", [ts.amplitude, ts.amplitude.base is before,
                                     ts.amplitude is before, ts.n_samples])
                        if not isinstance(result, BaseException):
                            # repeated call on the already trimmed series
                            attempt("  again", ts.trim, 0, (ts.n_samples-1)*dt/2)
                            rec("  ->", [ts.amplitude, ts.amplitude.base is before])
        empty = TimeSeries([], 0.1)
        attempt("trim empty", empty.trim, 0, 1)
        ts = TimeSeries(np.arange(50.), 0.1)
        attempt("trim text", ts.trim, "a", 2)
        attempt("trim none", ts.trim, None, 2)
        attempt("trim kw", ts.trim, end_time=2.0, start_time=1.0)
        rec("  ->", ts)

        # split
        for dt in (0.01, 0.1, 0.004, 1/3, 1.0):
            for n in (0, 1, 2, 10, 100, 101, 999, 1000, 1001, 6001):
                base = rng(1000+n).normal(size=n)
                for window in (0, -1, -0.001, dt/2, dt, 1.5*dt, 2*dt, 3*dt, 0.1, 0.3, 1, 1.0,
                               2.5, 10, 10.0, 60, (n-1)*dt, n*dt, (n+1)*dt, 1e9,
                               np.float64(1.0), np.int64(2), float("nan"), float("inf"), "1", None):
                    ts = TimeSeries(base, dt)
                    before = ts.amplitude
                    windows = attempt(f"split dt={dt!r} n={n} w={window!r}", ts.split, window)
                    rec("  parent", [ts.amplitude is before, ts.amplitude])
                    if isinstance(windows, list):
                        rec("  types", sorted({type(w).__name__ for w in windows}))
                        rec("  shares", any(np.shares_memory(w.amplitude, ts.amplitude) for w in windows))
                        rec("  lens", [w.n_samples for w in windows])
                        rec("  dts", sorted({w.dt_in_seconds for w in windows}))

        class Child(TimeSeries):
            pass
        windows = Child(np.arange(100.), 0.1).split(2)
        rec("split subclass", [type(w).__name__ for w in windows])
        rec("copy subclass", type(Child.from_timeseries(TimeSeries([1, 2], 1))).__name__)
        rec("copy from subclass", type(TimeSeries.from_timeseries(Child([1, 2], 1))).__name__)

        # similarity and equality
        a = TimeSeries([1, 2, 3], 0.1)
        others = [TimeSeries([1, 2, 3], 0.1), TimeSeries([1, 2, 3], 0.1+5e-9), TimeSeries([1, 2, 3], 0.1+2e-8),
                  TimeSeries([1, 2, 3, 4], 0.1), TimeSeries([1, 2, 3+1e-9], 0.1), TimeSeries([1, 2, 3.1], 0.1),
                  TimeSeries([1, 2, 3], float("nan")), TimeSeries([1, 2, float("nan")], 0.1),
                  Child([1, 2, 3], 0.1), [1, 2, 3], None, "a", 1.0]
        for idx, other in enumerate(others):
            for label, result in (("sim", attempt(f"is_similar {idx}", a.is_similar, other)),
                                  ("eq", attempt(f"eq {idx}", a.__eq__, other)),
                                  ("ne", attempt(f"ne {idx}", lambda: a != other))):
                rec(f"  {label} type", type(result).__name__)
        nan_dt = TimeSeries([1, 2, 3], float("nan"))
        rec("nan dt", [nan_dt.is_similar(a), nan_dt == a, nan_dt == nan_dt, a == nan_dt])
        nan_amp = TimeSeries([1, 2, float("nan")], 0.1)
        rec("nan amp", [nan_amp == nan_amp, nan_amp.is_similar(nan_amp)])

        # other methods, untouched but in the same files
        ts = TimeSeries(rng(5).normal(size=500), 0.01)
        ts.detrend()
        ts.window()
        ts.butterworth_filter((1, 20))
        attempt("filter none", ts.butterworth_filter, (None, None))
        attempt("window bad", ts.window, "hann")
        rec("processed", ts)
        rec("repr", repr(TimeSeries([1, 2], 0.5)))


# --------------------------------------------------------------------------
# SeismicRecording3C
# --------------------------------------------------------------------------

def make_recording(n=1000, dt=0.01, seed=0, **kwargs):
    g = rng(seed)
    return SeismicRecording3C(*(TimeSeries(g.normal(size=n), dt) for _ in range(3)), **kwargs)


def aliasing_facts(a, b):
    """Facts about what two recordings share."""
    facts = [a.meta is b.meta]
    for c in ("ns", "ew", "vt"):
        facts.append(getattr(a, c) is getattr(b, c))
        facts.append(np.shares_memory(getattr(a, c).amplitude, getattr(b, c).amplitude))
    for key in a.meta:
        if key in b.meta and isinstance(a.meta[key], (list, dict)):
            facts.append((key, a.meta[key] is b.meta[key]))
    return facts


def section_recording(tmp):
    with section("recording"):
        ns = TimeSeries(np.arange(20.), 0.1)
        ew = TimeSeries(np.arange(20.)*2, 0.1)
        vt = TimeSeries(np.arange(20.)*3, 0.1)
        for degrees in (0, 0., 15, 359.9, 360, 360., 725.5, -10, -370.25, np.float64(90), np.int64(400),
                        float("nan"), float("inf"), "10", None):
            r = attempt(f"init deg={degrees!r}", SeismicRecording3C, ns, ew, vt, degrees_from_north=degrees)
            if isinstance(r, SeismicRecording3C):
                rec("  type", type(r.degrees_from_north).__name__)
        user_meta = {"file name(s)": ["a", "b"], "extra": {"k": [1, 2]}, "current degrees from north": 7}
        r = SeismicRecording3C(ns, ew, vt, degrees_from_north=30, meta=user_meta)
        rec("init meta", r)
        rec("init meta aliasing", [r.meta is user_meta, r.meta["extra"] is user_meta["extra"],
                                   r.ns is ns, np.shares_memory(r.ns.amplitude, ns.amplitude)])
        rec("user meta untouched", user_meta)
        for bad_meta in ([("a", 1)], "abc", 5, {1: 2}):
            attempt(f"init meta {type(bad_meta).__name__}", SeismicRecording3C, ns, ew, vt, meta=bad_meta)
        attempt("init short ew", SeismicRecording3C, ns, TimeSeries(np.arange(19.), 0.1), vt)
        attempt("init short vt", SeismicRecording3C, ns, ew, TimeSeries(np.arange(19.), 0.1))
        attempt("init dt vt", SeismicRecording3C, ns, ew, TimeSeries(np.arange(20.), 0.2))
        attempt("init short ns", SeismicRecording3C, TimeSeries(np.arange(19.), 0.1), ew, vt)
        attempt("init list", SeismicRecording3C, [1, 2], ew, vt)
        attempt("init list vt", SeismicRecording3C, ns, ew, [1, 2])
        near = SeismicRecording3C(ns, TimeSeries(ew.amplitude, 0.1+5e-9), vt)
        rec("init near dt", [near.ns.dt_in_seconds, near.ew.dt_in_seconds, near.vt.dt_in_seconds])

        # trim (legal and illegal), meta after each
        for start, end in [(0, 5), (1.0, 2.0), (0.004, 9.99), (2, 1), (-1, 3), (0, 9.99), (0, 10), (3, 3),
                           (np.float64(1), np.float64(4)), (np.int64(1), 4), ("a", 3), (0, float("nan"))]:
            r = make_recording(meta={"tag": [1]})
            views = [getattr(r, c).amplitude for c in ("ns", "ew", "vt")]
            attempt(f"trim {start!r} {end!r}", r.trim, start, end)
            rec("  ->", r)
            rec("  views", [getattr(r, c).amplitude.base is v for c, v in zip(("ns", "ew", "vt"), views)])
            attempt("  trim again", r.trim, 0, 0.5)
            rec("  ->", r)
        r = make_recording()
        r.ew.trim(0, 5)
        attempt("trim after component trim", r.trim, 0, 6)
        rec("  ->", r)
        attempt("trim kw", r.trim, end_time=1, start_time=0.5)
        rec("  ->", r)

        # split
        for n, dt in [(1000, 0.01), (1001, 0.01), (6001, 0.01), (100, 1/3), (10, 1.0), (1, 1.0)]:
            for window in (-1, 0, 0.001, dt, 0.1, 1, 1.0, 2.5, 3, 9.99, 10, 10.0, 60., 1e6, np.float64(2), "1", None,
                           float("nan")):
                r = make_recording(n=n, dt=dt, seed=n, degrees_from_north=12.5,
                                   meta={"nested": {"list": [1, 2]}, "names": ["x"]})
                parent_arrays = [getattr(r, c).amplitude for c in ("ns", "ew", "vt")]
                windows = attempt(f"split n={n} dt={dt!r} w={window!r}", r.split, window)
                rec("  parent", r)
                rec("  parent arrays kept", [getattr(r, c).amplitude is a for c, a in zip(("ns", "ew", "vt"), parent_arrays)])
                if isinstance(windows, list):
                    rec("  n", len(windows))
                    if windows:
                        rec("  first/last", [windows[0], windows[-1]])
                        rec("  aliasing parent", aliasing_facts(windows[0], r))
                        if len(windows) > 1:
                            rec("  aliasing siblings", aliasing_facts(windows[0], windows[1]))
                        digest = hashlib.sha256("".join(canon(w) for w in windows).encode()).hexdigest()
                        rec("  all", digest)
                        # children are independent of later changes to the parent
                        r.meta["later"] = 1
                        r.ns.amplitude[:] = 0
                        rec("  child after parent change", windows[0])
                        # split of a split, trim of a split
                        attempt("  resplit", windows[0].split, window/2 if isinstance(window, (int, float)) else window)
                        rec("  child meta", windows[0].meta)
        r = make_recording()
        r.vt.trim(0, 4.995)
        windows = attempt("split uneven", r.split, 1)
        rec("  ->", [windows, r.meta])
        r = make_recording()
        r.trim(1, 8)
        r.detrend("constant")
        r.butterworth_filter((0.5, None))
        r.window(width=0.2)
        r.orient_sensor_to(33.)
        windows = r.split(2)
        rec("sequence", [r, windows])
        rec("sequence key order", list(windows[0].meta))

        # copy constructor
        r = make_recording(degrees_from_north=370, meta={"nested": {"list": [1, 2]}, "names": ["x"]})
        r.orient_sensor_to(45)
        r.trim(0.5, 7.5)
        copy = attempt("copy", SeismicRecording3C.from_seismic_recording_3c, r)
        rec("copy eq", [copy == r, r == copy, copy.is_similar(r)])
        rec("copy aliasing", aliasing_facts(copy, r))
        rec("copy owns data", [copy.ns.amplitude.base is None, copy.ns.amplitude.flags["OWNDATA"],
                               copy.ns.amplitude.flags["C_CONTIGUOUS"], type(copy.ns).__name__])
        copy.meta["new"] = 1
        copy.meta["nested"]["list"].append(3)
        copy.ns.amplitude[0] = 1e6
        copy.trim(0, 1)
        rec("copy original after", r)
        copy2 = SeismicRecording3C.from_seismic_recording_3c(copy)
        rec("copy of copy", [copy2, copy2 == copy])

        class Child3C(SeismicRecording3C):
            pass
        rec("copy subclass", [type(Child3C.from_seismic_recording_3c(r)).__name__,
                              type(SeismicRecording3C.from_seismic_recording_3c(Child3C.from_seismic_recording_3c(r))).__name__,
                              [type(w).__name__ for w in Child3C.from_seismic_recording_3c(r).split(1)]])
        broken = make_recording()
        broken.ew.trim(0, 5)
        attempt("copy dissimilar", SeismicRecording3C.from_seismic_recording_3c, broken)
        broken = make_recording()
        broken.vt.amplitude = [[1, 2], [3, 4]]
        attempt("copy 2d", SeismicRecording3C.from_seismic_recording_3c, broken)
        broken = make_recording(n=4)
        broken.ns.amplitude = [1, 2, 3, 4]
        rec("copy list amplitude", attempt("copy list", SeismicRecording3C.from_seismic_recording_3c, broken))
        attempt("copy none", SeismicRecording3C.from_seismic_recording_3c, None)
        attempt("copy timeseries", SeismicRecording3C.from_seismic_recording_3c, ns)

        # equality
        a = make_recording(degrees_from_north=10)
        variants = {
            "same": make_recording(degrees_from_north=10),
            "deg close": make_recording(degrees_from_north=10.05),
            "deg far": make_recording(degrees_from_north=10.2),
            "meta": make_recording(degrees_from_north=10, meta={"x": 1}),
            "seed": make_recording(degrees_from_north=10, seed=1),
            "short": make_recording(n=999, degrees_from_north=10),
            "dt": make_recording(dt=0.02, degrees_from_north=10),
            "none": None, "ts": ns,
        }
        for label, other in variants.items():
            for op, result in (("sim", attempt(f"is_similar {label}", a.is_similar, other)),
                               ("eq", attempt(f"eq {label}", a.__eq__, other)),
                               ("ne", attempt(f"ne {label}", lambda: a != other))):
                rec(f"  {op} type", type(result).__name__)
        nan_deg = make_recording()
        nan_deg.degrees_from_north = float("nan")
        nan_deg.meta = dict(a.meta)
        b = make_recording()
        b.meta = dict(a.meta)
        rec("eq nan deg", [b == nan_deg, nan_deg == b])
        np_deg = make_recording()
        np_deg.orient_sensor_to(np.float64(0.0))
        rec("eq np deg", [type(np_deg == np_deg).__name__, np_deg == np_deg])
        arr_meta = make_recording(meta={"a": np.arange(3)})
        attempt("eq array meta", arr_meta.__eq__, make_recording(meta={"a": np.arange(3)}))

        # save / load
        r = make_recording(n=300, degrees_from_north=370.5, meta={"nested": {"list": [1, 2]}, "names": ["x", "y"]})
        r.trim(0.1, 2.5)
        r.detrend()
        r.split(1)
        for fname in ("rec.json", pathlib.Path("rec_path.json"), os.path.join(tmp, "rec_abs.json")):
            attempt(f"save {type(fname).__name__}", r.save, fname)
            rec("  bytes", file_bytes(fname))
            loaded = attempt("  load", SeismicRecording3C.load, fname)
            rec("  eq", [loaded == r, list(loaded.meta), type(loaded.meta["trim"]).__name__])
            attempt("  resave", loaded.save, "rec_again.json")
            rec("  bytes again", file_bytes("rec_again.json"))
        # saving over an existing, longer, file and twice in a row
        pathlib.Path("rec.json").write_text("x"*100000)
        r.save("rec.json")
        r.save("rec.json")
        rec("save overwrite", file_bytes("rec.json"))
        special = make_recording(n=5, meta={"nan": float("nan"), "inf": float("inf"), "uni": "é ", "t": (1, 2), "none": None})
        special.ns.amplitude[0] = float("nan")
        special.save("special.json")
        rec("save special", file_bytes("special.json"))
        rec("load special", attempt("load special", SeismicRecording3C.load, "special.json"))
        for label, meta in (("int64", {"a": np.int64(1)}), ("array", {"a": np.arange(3)}), ("set", {"zz": {1}}),
                            ("late", {"ok": 1, "bad": object()})):
            bad = make_recording(n=5, meta=meta)
            if os.path.exists("bad.json"):
                os.remove("bad.json")
            attempt(f"save bad {label}", bad.save, "bad.json")
            rec("  left", file_bytes("bad.json"))
        r2 = make_recording(n=5)
        r2.trim(np.int64(0), 0.03)
        attempt("save after np int trim", r2.save, "bad2.json")
        rec("  left", file_bytes("bad2.json"))
        attempt("save missing dir", r.save, os.path.join("nodir", "x.json"))
        attempt("load missing", SeismicRecording3C.load, "does_not_exist.json")
        good = json.loads(pathlib.Path("rec_path.json").read_text())
        damaged = {
            "empty": "", "truncated": pathlib.Path("rec_path.json").read_text()[:200], "list": "[1, 2]",
            "null": "null", "text": "\"abc\"", "number": "3",
            "no ns": json.dumps({k: v for k, v in good.items() if k != "ns_amplitude"}),
            "no dt": json.dumps({k: v for k, v in good.items() if k != "dt_in_seconds"}),
            "no deg": json.dumps({k: v for k, v in good.items() if k != "degrees_from_north"}),
            "no meta": json.dumps({k: v for k, v in good.items() if k != "meta"}),
            "null meta": json.dumps({**good, "meta": None}),
            "list meta": json.dumps({**good, "meta": [1]}),
            "text deg": json.dumps({**good, "degrees_from_north": "a"}),
            "short ew": json.dumps({**good, "ew_amplitude": good["ew_amplitude"][:-1]}),
            "2d vt": json.dumps({**good, "vt_amplitude": [[1, 2]]}),
            "text ns": json.dumps({**good, "ns_amplitude": "abc"}),
            "extra": json.dumps({"zzz": 1, **good, "more": [1]}),
            "reordered": json.dumps(dict(reversed(list(good.items())))),
            "nan": json.dumps({**good, "dt_in_seconds": float("nan")}),
            "binary": b"\xff\xfe\x00\x01",
        }
        for label, text in damaged.items():
            p = pathlib.Path("damaged.json")
            p.write_bytes(text if isinstance(text, bytes) else text.encode())
            rec(f"load damaged {label}", attempt(f"load damaged {label}", SeismicRecording3C.load, p))
            rec("  file untouched", file_bytes(p) == (text if isinstance(text, bytes) else text.encode()))
        rec("str/repr", [str(r).split(" at ")[0], repr(SeismicRecording3C(ns, ew, vt)).split("at ")[0]])


# --------------------------------------------------------------------------
# Settings
# --------------------------------------------------------------------------

SETTINGS_CLASSES = [
    hvsrpy.HvsrPreProcessingSettings,
    hvsrpy.PsdPreProcessingSettings,
    hvsrpy.PsdProcessingSettings,
    hvsrpy.HvsrTraditionalProcessingSettings,
    hvsrpy.HvsrTraditionalSingleAzimuthProcessingSettings,
    hvsrpy.HvsrTraditionalRotDppProcessingSettings,
    hvsrpy.HvsrAzimuthalProcessingSettings,
    hvsrpy.HvsrDiffuseFieldProcessingSettings,
]


def captured(function, *args):
    buffer = io.StringIO()
    with contextlib.redirect_stdout(buffer):
        result = function(*args)
    return [result, buffer.getvalue()]


def custom_kwargs(cls):
    import inspect
    names = inspect.signature(cls.__init__).parameters
    options = dict(
        hvsrpy_version="0.0.1-test",
        orient_to_degrees_from_north=np.float64(12.5),
        filter_corner_frequencies_in_hz=[0.1, None],
        window_length_in_seconds=None,
        detrend="constant",
        ignore_dissimilar_time_step_warning=True,
        window_type_and_width=("tukey", 0.25),
        smoothing={"operator": "log_rectangular", "bandwidth": np.float64(0.2),
                   "center_frequencies_in_hz": np.geomspace(0.2, 20, 7),
                   "nested": {"list": [1, 2]}, 3: "int key"},
        fft_settings={"n": 4096, "norm": None},
        instrument_transfer_function=None,
        differentiate=True,
        handle_dissimilar_time_steps_by="keeping_smallest_time_step",
        method_to_combine_horizontals=("directional_energy" if "azimuth_in_degrees" in names else
                                       "rotdpp" if "ppth_percentile_for_rotdpp_computation" in names else
                                       "total_horizontal_energy"),
        azimuth_in_degrees=np.float64(77.5),
        ppth_percentile_for_rotdpp_computation=np.int64(84),
        azimuths_in_degrees=[0, 22.5, np.float64(45), 170],
    )
    return {k: v for k, v in options.items() if k in names}


def section_settings(tmp):
    with section("settings"):
        attempt("abstract", Settings)
        rec("abstract attrs", Settings().attrs if not isinstance(attempt("abstract2", Settings), BaseException) else None)
        for cls in SETTINGS_CLASSES:
            name = cls.__name__
            default = cls()
            rec(f"{name} default", default)
            rec(f"{name} default json", json.dumps(default.attr_dict))
            rec(f"{name} attr_dict fresh", [default.attr_dict is default.attr_dict, default.attrs is default.attrs])
            rec(f"{name} str/repr", [str(default), repr(default)])
            rec(f"{name} psummary", captured(default.psummary))
            # defaults are not shared between instances or with the signature
            other = cls()
            shared = []
            for key, value in vars(default).items():
                if isinstance(value, (list, dict, np.ndarray)):
                    shared.append((key, value is getattr(other, key)))
                    if isinstance(value, dict):
                        shared.extend((key, k, v is getattr(other, key)[k]) for k, v in value.items()
                                      if isinstance(v, (list, dict, np.ndarray)))
            rec(f"{name} defaults shared", shared)
            if hasattr(default, "window_type_and_width"):
                default.window_type_and_width[1] = 0.5
                rec(f"{name} default mutation leak", cls().window_type_and_width)
            if hasattr(default, "filter_corner_frequencies_in_hz"):
                default.filter_corner_frequencies_in_hz[0] = 3
                rec(f"{name} default mutation leak fc", cls().filter_corner_frequencies_in_hz)
            if hasattr(default, "smoothing"):
                default.smoothing["center_frequencies_in_hz"][0] = 7
                default.smoothing["bandwidth"] = 1
                rec(f"{name} default mutation leak smoothing", cls().smoothing)

            kwargs = custom_kwargs(cls)
            custom = cls(**kwargs)
            rec(f"{name} custom", custom)
            rec(f"{name} custom aliasing", [(k, getattr(custom, k) is v) for k, v in kwargs.items()
                                           if isinstance(v, (list, dict, tuple, np.ndarray))])
            rec(f"{name} custom nested aliasing", [
                (k, custom.smoothing[k] is v) for k, v in kwargs.get("smoothing", {}).items()
                if isinstance(v, (dict, np.ndarray))])
            rec(f"{name} custom attr_dict", custom.attr_dict)
            rec(f"{name} custom psummary", captured(custom.psummary))
            rec(f"{name} custom repr", repr(custom))
            rec(f"{name} eq", [custom == custom, custom == cls(**kwargs), custom == cls(), cls() == cls(),
                               type(custom == cls()).__name__, custom != cls()])
            for other_cls in SETTINGS_CLASSES:
                rec(f"{name} eq {other_cls.__name__}", cls() == other_cls())
            attempt(f"{name} eq none", custom.__eq__, None)
            attempt(f"{name} eq dict", custom.__eq__, custom.attr_dict)

            # save / load round trips, both entry points, repeated calls
            for tag, obj in (("default", cls()), ("custom", custom)):
                fname = f"{name}_{tag}.json"
                if 3 in getattr(obj, "smoothing", {}):
                    # json turns the int key into text: legal, but changes on reload
                    pass
                attempt(f"{name} {tag} save", obj.save, fname)
                rec("  bytes", file_bytes(fname))
                attempt(f"{name} {tag} write", hvsrpy.write_settings_object_to_file, obj, pathlib.Path(fname + ".2"))
                rec("  bytes equal", file_bytes(fname) == file_bytes(fname + ".2"))
                fresh = cls()
                rec("  load returns", attempt("  load", fresh.load, fname))
                rec("  loaded", fresh)
                attempt("  loaded eq", lambda: [fresh == obj, obj == fresh])
                read = attempt("  read", hvsrpy.read_settings_object_from_file, fname)
                rec("  read type", type(read))
                attempt("  read eq", lambda: [read == obj, read == fresh])
                attempt("  resave", lambda: read.save(fname + ".3"))
                rec("  resave bytes", file_bytes(fname + ".3"))
                attempt("  read twice distinct", lambda: hvsrpy.read_settings_object_from_file(fname) is not read)
                rec("  file untouched", file_bytes(fname) == file_bytes(fname + ".2"))
                # load on top of a customised object and into a different class
                custom2 = cls(**kwargs)
                custom2.load(f"{name}_default.json")
                rec("  load over custom", custom2)
                for other_cls in SETTINGS_CLASSES:
                    cross = other_cls()
                    attempt(f"  cross load into {other_cls.__name__}", cross.load, fname)
                    rec("   state", cross)
                    attempt("   save", cross.save, "cross.json")
                    rec("   bytes", file_bytes("cross.json"))

        # values that are not serialisable, aliasing of pass-through values
        fft = {"n": np.int64(8)}
        s = hvsrpy.PsdProcessingSettings(fft_settings=fft)
        rec("fft alias", s.fft_settings is fft)
        rec("fft attr_dict", s.attr_dict)
        attempt("fft save", s.save, "fft.json")
        rec("  bytes", file_bytes("fft.json"))
        s = hvsrpy.PsdPreProcessingSettings(instrument_transfer_function=object())
        if os.path.exists("itf.json"):
            os.remove("itf.json")
        attempt("itf save", s.save, "itf.json")
        rec("  left", file_bytes("itf.json"))
        for label, kwargs in (("nested array", dict(smoothing={"operator": "x", "deep": {"array": np.arange(2)}})),
                              ("float32 in tuple", dict(window_type_and_width=("tukey", np.float32(0.25)))),
                              ("set", dict(fft_settings={"n": {1, 2}}))):
            s = hvsrpy.HvsrTraditionalProcessingSettings(**kwargs)
            rec(f"unserialisable {label}", s)
            if os.path.exists("unserialisable.json"):
                os.remove("unserialisable.json")
            attempt("  save", s.save, "unserialisable.json")
            rec("  left", file_bytes("unserialisable.json"))
            attempt("  read", hvsrpy.read_settings_object_from_file, "unserialisable.json")
            attempt("  eq", lambda: s == hvsrpy.HvsrTraditionalProcessingSettings(**kwargs))
        s = hvsrpy.HvsrAzimuthalProcessingSettings(azimuths_in_degrees=np.arange(0, 180, 30))
        rec("az arr", [s, s.attr_dict])
        s = hvsrpy.HvsrTraditionalRotDppProcessingSettings(azimuths_in_degrees=[[0, 1], [2, 3]])
        rec("az 2d", [s, s.attr_dict])
        s = hvsrpy.HvsrPreProcessingSettings(window_length_in_seconds=np.float64(30), detrend=None,
                                             filter_corner_frequencies_in_hz=np.array([0.1, 30]))
        rec("np scalars", [s, s.attr_dict, json.dumps(s.attr_dict)])
        for bad_smoothing in ([("operator", "x")], "abc", None, 5):
            attempt(f"smoothing {type(bad_smoothing).__name__}", hvsrpy.HvsrTraditionalProcessingSettings, smoothing=bad_smoothing)
        attempt("unknown kwarg", hvsrpy.HvsrTraditionalProcessingSettings, nope=1)
        # user-extended attrs
        s = hvsrpy.HvsrPreProcessingSettings()
        s.attrs.append("my_extra")
        attempt("missing attr", lambda: s.attr_dict)
        s.my_extra = np.arange(3)
        rec("extra attr", [s.attr_dict, captured(s.psummary), repr(s), str(s)])
        s.save("extra.json")
        rec("extra bytes", file_bytes("extra.json"))
        rec("extra read", hvsrpy.read_settings_object_from_file("extra.json"))
        s.attrs = ["detrend"]
        s.save("narrow.json")
        rec("narrow bytes", file_bytes("narrow.json"))
        attempt("narrow read", hvsrpy.read_settings_object_from_file, "narrow.json")
        long_dict = hvsrpy.PsdProcessingSettings(smoothing={"a": "x"*41, "b": "y"*40, "c": list(range(30)), 5: None})
        rec("psummary long", captured(long_dict.psummary))

        # damaged / unusual settings files through both readers
        base = hvsrpy.HvsrTraditionalProcessingSettings().attr_dict
        pre = hvsrpy.HvsrPreProcessingSettings().attr_dict
        documents = {
            "empty": "", "list": "[]", "null": "null", "text": "\"preprocessing_method\"", "number": "1",
            "empty dict": "{}", "truncated": json.dumps(base)[:50], "binary": b"\xff\xfe",
            "pre unknown": json.dumps({**pre, "preprocessing_method": "other"}),
            "pre null": json.dumps({**pre, "preprocessing_method": None}),
            "pre list": json.dumps({**pre, "preprocessing_method": ["psd"]}),
            "pre dict": json.dumps({**pre, "preprocessing_method": {"psd": 1}}),
            "pre psd only key": json.dumps({"preprocessing_method": "psd"}),
            "pre hvsr only key": json.dumps({"preprocessing_method": "hvsr"}),
            "both keys": json.dumps({**base, "preprocessing_method": "hvsr"}),
            "both keys bad pre": json.dumps({**base, "preprocessing_method": "x"}),
            "proc unknown": json.dumps({**base, "processing_method": "other"}),
            "proc null": json.dumps({**base, "processing_method": None}),
            "proc list": json.dumps({**base, "processing_method": ["traditional"]}),
            "proc dict": json.dumps({**base, "processing_method": {}}),
            "proc number": json.dumps({**base, "processing_method": 1}),
            "proc psd only key": json.dumps({"processing_method": "psd"}),
            "proc azimuthal only key": json.dumps({"processing_method": "azimuthal"}),
            "proc diffuse only key": json.dumps({"processing_method": "diffuse_field"}),
            "trad no method": json.dumps({k: v for k, v in base.items() if k != "method_to_combine_horizontals"}),
            "trad rotdpp": json.dumps({**base, "method_to_combine_horizontals": "rotdpp"}),
            "trad single": json.dumps({**base, "method_to_combine_horizontals": "single_azimuth"}),
            "trad directional": json.dumps({**base, "method_to_combine_horizontals": "directional_energy"}),
            "trad unknown": json.dumps({**base, "method_to_combine_horizontals": "whatever"}),
            "trad null": json.dumps({**base, "method_to_combine_horizontals": None}),
            "trad list": json.dumps({**base, "method_to_combine_horizontals": ["rotdpp"]}),
            "trad dict": json.dumps({**base, "method_to_combine_horizontals": {"a": 1}}),
            "extra keys": json.dumps({"zzz": [1, 2], **base, "attrs": ["detrend"], "save": 1}),
            "attrs key": json.dumps({**base, "attrs": ["hvsrpy_version", "processing_method"]}),
            "reordered": json.dumps(dict(reversed(list(base.items())))),
            "nan": json.dumps({**base, "window_type_and_width": ["tukey", float("nan")]}),
            "duplicate": '{"processing_method": "psd", "processing_method": "azimuthal"}',
            "unicode": json.dumps({**pre, "detrend": "linéaire"}),
            "bom": b"\xef\xbb\xbf" + json.dumps(pre).encode(),
            "whitespace": "\n\n  " + json.dumps(pre, indent=4) + "\n\n",
            "trailing": json.dumps(pre) + "\n{}",
        }
        for label, text in documents.items():
            payload = text if isinstance(text, bytes) else text.encode()
            p = pathlib.Path("doc.json")
            p.write_bytes(payload)
            result = attempt(f"read doc {label}", hvsrpy.read_settings_object_from_file, "doc.json")
            rec("  type", type(result))
            if isinstance(result, Settings):
                attempt("  attr_dict", lambda: result.attr_dict)
                attempt("  resave", result.save, "doc_resave.json")
                rec("  resave bytes", file_bytes("doc_resave.json"))
                attempt("  psummary", captured, result.psummary)
            for cls in (hvsrpy.HvsrPreProcessingSettings, hvsrpy.HvsrTraditionalRotDppProcessingSettings):
                target = cls()
                attempt(f"  load into {cls.__name__}", target.load, p)
                rec("   state", target)
            rec("  file untouched", file_bytes(p) == payload)
        attempt("read missing", hvsrpy.read_settings_object_from_file, "missing.json")
        attempt("load missing", hvsrpy.HvsrPreProcessingSettings().load, "missing.json")
        attempt("read directory", hvsrpy.read_settings_object_from_file, tmp)
        attempt("save missing dir", hvsrpy.HvsrPreProcessingSettings().save, os.path.join("nodir", "s.json"))
        attempt("write non settings", hvsrpy.write_settings_object_to_file, {"a": 1}, "x.json")
        # overwrite a longer file
        pathlib.Path("over.json").write_text("y"*5000)
        hvsrpy.HvsrPreProcessingSettings().save("over.json")
        rec("overwrite", file_bytes("over.json"))


# --------------------------------------------------------------------------
# HVSR objects in text files
# --------------------------------------------------------------------------

def synthetic_curves(n_curves, n_frequencies, seed, flat=()):
    g = rng(seed)
    frequency = np.geomspace(0.2, 30, n_frequencies)
    amplitude = np.empty((n_curves, n_frequencies))
    for idx in range(n_curves):
        f0 = g.uniform(0.8, 6)
        amplitude[idx] = 1 + g.uniform(2, 6)*np.exp(-(np.log(frequency/f0))**2/g.uniform(0.02, 0.2))
        amplitude[idx] *= np.exp(g.normal(scale=0.05, size=n_frequencies))
        if idx in flat:
            amplitude[idx] = np.linspace(1, 2, n_frequencies)
    return frequency, amplitude


def describe_hvsr(hvsr):
    """Everything a user can see of an HVSR object that was read."""
    if isinstance(hvsr, BaseException):
        return hvsr
    out = [type(hvsr), hvsr.frequency, hvsr.amplitude if not isinstance(hvsr, hvsrpy.HvsrAzimuthal) else
           [h.amplitude for h in hvsr.hvsrs], hvsr.meta, list(hvsr.meta)]
    if isinstance(hvsr, hvsrpy.HvsrTraditional):
        out += [hvsr.valid_window_boolean_mask, hvsr.valid_peak_boolean_mask, hvsr._main_peak_frq,
                hvsr._main_peak_amp, hvsr.n_curves, hvsr._search_range_in_hz, hvsr._find_peaks_kwargs]
    elif isinstance(hvsr, hvsrpy.HvsrAzimuthal):
        out += [hvsr.azimuths, [type(a).__name__ for a in hvsr.azimuths]]
        for h in hvsr.hvsrs:
            out += [h.valid_window_boolean_mask, h.valid_peak_boolean_mask, h._main_peak_frq, h._main_peak_amp,
                    h.meta, h.meta is hvsr.meta]
    else:
        out += [hvsr.peak_frequency, hvsr.peak_amplitude, hvsr._search_range_in_hz, hvsr._find_peaks_kwargs]
    for name in ("mean_curve", "std_curve", "mean_fn_frequency", "std_fn_frequency", "mean_curve_peak"):
        if hasattr(hvsr, name):
            with warnings.catch_warnings():
                warnings.simplefilter("ignore")
                try:
                    out.append(getattr(hvsr, name)())
                except BaseException as e:  # noqa: B902
                    out.append(e)
    return out


def write_read_cycle(label, hvsr, fname, **kwargs):
    before_meta = canon(hvsr.meta)
    if os.path.exists(str(fname)):
        os.remove(str(fname))
    attempt(f"{label} write", hvsrpy.write_hvsr_object_to_file, hvsr, fname, **kwargs)
    rec("  bytes", file_bytes(fname))
    rec("  meta untouched", canon(hvsr.meta) == before_meta)
    payload = file_bytes(fname)
    if payload is None:
        return None
    result = attempt(f"{label} read", hvsrpy.read_hvsr_object_from_file, fname)
    rec("  read", describe_hvsr(result))
    rec("  file untouched", file_bytes(fname) == payload)
    if not isinstance(result, BaseException):
        with warnings.catch_warnings():
            warnings.simplefilter("ignore")
            try:
                rec("  eq", [result == hvsr, hvsr.is_similar(result)])
            except BaseException as e:  # noqa: B902
                rec("  eq", e)
        again = str(fname) + ".again"
        attempt("  rewrite", hvsrpy.write_hvsr_object_to_file, result, again, **kwargs)
        rec("  rewrite same bytes", file_bytes(again) == payload)
        rec("  rewrite bytes", file_bytes(again))
        second = attempt("  read twice", hvsrpy.read_hvsr_object_from_file, fname)
        if not isinstance(second, BaseException):
            rec("  second independent", [second is not result, second.meta is not result.meta,
                                        not np.shares_memory(second.frequency, result.frequency)])
    return result


def build_objects():
    objects = {}
    for n_curves, n_frequencies, seed, flat in [(1, 16, 1, ()), (5, 40, 2, ()), (12, 64, 3, (4,)), (3, 8, 4, (0, 1, 2)),
                                                (30, 128, 5, (7, 9))]:
        frequency, amplitude = synthetic_curves(n_curves, n_frequencies, seed, flat)
        with warnings.catch_warnings():
            warnings.simplefilter("ignore")
            hvsr = hvsrpy.HvsrTraditional(frequency, amplitude,
                                          meta={"processing_method": "traditional", "note": "synthetic",
                                                "nested": {"list": [1, 2.5, None]}, "window": 60.0})
        objects[f"trad {n_curves}x{n_frequencies}"] = hvsr
    # masks edited by the user / by rejection, bounded search
    frequency, amplitude = synthetic_curves(9, 50, 6)
    hvsr = hvsrpy.HvsrTraditional(frequency, amplitude, meta={"processing_method": "traditional"})
    hvsr.valid_window_boolean_mask[[1, 5]] = False
    hvsr.valid_peak_boolean_mask[[1, 5, 6]] = False
    objects["trad masks"] = hvsr
    hvsr = hvsrpy.HvsrTraditional(frequency, amplitude, meta={"processing_method": "traditional"})
    hvsr.update_peaks_bounded(search_range_in_hz=(0.5, 4.0), find_peaks_kwargs={"prominence": 0.1})
    objects["trad bounded"] = hvsr
    hvsr = hvsrpy.HvsrTraditional(frequency, amplitude, meta={"processing_method": "traditional"})
    hvsr.update_peaks_bounded(search_range_in_hz=(None, 2.0))
    hvsr.valid_window_boolean_mask[:] = False
    hvsr.valid_peak_boolean_mask[:] = False
    objects["trad all rejected"] = hvsr

    # azimuthal: equal and unequal numbers of curves, whole and fractional azimuths
    for label, azimuths, counts in [("az equal", [0., 45., 90., 135.], [4, 4, 4, 4]),
                                    ("az unequal", [0., 22.5, 67.25, 170.125], [3, 1, 5, 2]),
                                    ("az single", [15.], [6]),
                                    ("az ints", [0, 30, 60], [2, 2, 2]),
                                    ("az many", list(np.arange(0, 180, 5.)), [3]*36)]:
        hvsrs = []
        for idx, count in enumerate(counts):
            frequency, amplitude = synthetic_curves(count, 32, 100+idx)
            hvsrs.append(hvsrpy.HvsrTraditional(frequency, amplitude, meta={"child": idx}))
        hvsr = hvsrpy.HvsrAzimuthal(hvsrs, azimuths, meta={"processing_method": "azimuthal", "note": label})
        objects[label] = hvsr
    hvsr = objects["az unequal"]
    hvsr.hvsrs[2].valid_window_boolean_mask[[0, 3]] = False
    hvsr.hvsrs[2].valid_peak_boolean_mask[[0, 3]] = False
    hvsr.hvsrs[0].valid_peak_boolean_mask[1] = False
    hvsrs = [hvsrpy.HvsrTraditional(*synthetic_curves(3, 20, 200+i)) for i in range(3)]
    hvsr = hvsrpy.HvsrAzimuthal(hvsrs, [10., 10., 20.], meta={"processing_method": "azimuthal"})
    objects["az repeated"] = hvsr
    hvsr = hvsrpy.HvsrAzimuthal(hvsrs, [10., 50., 100.], meta={"processing_method": "azimuthal"})
    hvsr.update_peaks_bounded(search_range_in_hz=(0.4, 5), find_peaks_kwargs={"prominence": 0.05})
    objects["az bounded"] = hvsr

    frequency, amplitude = synthetic_curves(1, 60, 7)
    objects["diffuse"] = hvsrpy.HvsrDiffuseField(frequency, amplitude[0],
                                                 meta={"processing_method": "diffuse_field", "x": [1, 2]})
    hvsr = hvsrpy.HvsrDiffuseField(frequency, amplitude[0], meta={"processing_method": "diffuse_field"})
    hvsr.update_peaks_bounded(search_range_in_hz=(1, 10), find_peaks_kwargs={"prominence": 0.2})
    objects["diffuse bounded"] = hvsr
    return objects


def pipeline_objects():
    """Objects produced by the public processing pipeline from a real file."""
    fname = ROOT/"test/data/input/mseed_combined/ut.stn11.a2_c50.mseed"
    objects = {}
    if not fname.exists():
        return objects
    with warnings.catch_warnings():
        warnings.simplefilter("ignore")
        records = hvsrpy.read([[str(fname)]])
        rec("pipeline record", records[0])
        pre = hvsrpy.HvsrPreProcessingSettings(window_length_in_seconds=120., filter_corner_frequencies_in_hz=[0.1, 40],
                                               orient_to_degrees_from_north=10.)
        windows = hvsrpy.preprocess(records, pre)
        rec("pipeline windows", [len(windows), windows[0], windows[-1]])
        frequencies = np.geomspace(0.3, 20, 48)
        smoothing = dict(operator="konno_and_ohmachi", bandwidth=40, center_frequencies_in_hz=frequencies)
        objects["pipe traditional"] = hvsrpy.process(windows, hvsrpy.HvsrTraditionalProcessingSettings(smoothing=smoothing))
        objects["pipe single azimuth"] = hvsrpy.process(
            windows, hvsrpy.HvsrTraditionalSingleAzimuthProcessingSettings(smoothing=smoothing, azimuth_in_degrees=33.))
        objects["pipe azimuthal"] = hvsrpy.process(
            windows, hvsrpy.HvsrAzimuthalProcessingSettings(smoothing=smoothing, azimuths_in_degrees=np.arange(0, 180, 45.)))
        objects["pipe diffuse"] = hvsrpy.process(windows, hvsrpy.HvsrDiffuseFieldProcessingSettings(smoothing=smoothing))
        psd_windows = hvsrpy.preprocess(records, hvsrpy.PsdPreProcessingSettings(window_length_in_seconds=200.))
        rec("pipeline psd windows", [len(psd_windows), psd_windows[0].meta])
        hvsrpy.frequency_domain_window_rejection(objects["pipe traditional"])
    return objects


def damage_variants(text):
    """Damaged and unusual versions of a written HVSR file."""
    lines = text.split("\n")
    n_header = sum(1 for line in lines if line.startswith("#"))
    header, data = lines[:n_header], [line for line in lines[n_header:] if line]
    meta = json.loads("\n".join(line[2:] for line in header[:-1]))

    def with_meta(new_meta, columns=None, rows=None):
        head = ["# " + line for line in json.dumps(new_meta, indent=2).split("\n")]
        head.append(header[-1] if columns is None else columns)
        return "\n".join(head + (data if rows is None else rows)) + "\n"

    variants = {
        "crlf": text.replace("\n", "\r\n"),
        "cr": text.replace("\n", "\r"),
        "no final newline": text.rstrip("\n"),
        "blank lines": text.replace("\n", "\n\n"),
        "trailing blank lines": text + "\n\n\n",
        "leading blank line": "\n" + text,
        "trailing comment": text + "# the end\n",
        "comment between rows": "\n".join(header + data[:2] + ["# note"] + data[2:]) + "\n",
        "inline comment": "\n".join(header + [data[0] + " # note"] + data[1:]) + "\n",
        "spaces": "\n".join(header + [line.replace(",", " , ") for line in data]) + "\n",
        "no header": "\n".join(data) + "\n",
        "no column line": "\n".join(header[:-1] + data) + "\n",
        "header only": "\n".join(header) + "\n",
        "one row": "\n".join(header + data[:1]) + "\n",
        "two rows": "\n".join(header + data[:2]) + "\n",
        "truncated row": "\n".join(header + data[:-1] + [data[-1][:len(data[-1])//2]]),
        "truncated mid number": text[:len(text)-7],
        "truncated header": text[:len("\n".join(header))//2],
        "short row": "\n".join(header + data[:3] + [",".join(data[3].split(",")[:-1])] + data[4:]) + "\n",
        "long row": "\n".join(header + data[:3] + [data[3] + ",1.0"] + data[4:]) + "\n",
        "text cell": "\n".join(header + data[:3] + [data[3].replace(data[3].split(",")[1], "abc", 1)] + data[4:]) + "\n",
        "nan cell": "\n".join(header + data[:3] + [",".join(["nan" if i == 1 else c for i, c in enumerate(data[3].split(","))])] + data[4:]) + "\n",
        "negative cell": "\n".join(header + data[:3] + [",".join(["-1.0" if i == 1 else c for i, c in enumerate(data[3].split(","))])] + data[4:]) + "\n",
        "inf cell": "\n".join(header + data[:3] + [",".join(["inf" if i == 1 else c for i, c in enumerate(data[3].split(","))])] + data[4:]) + "\n",
        "empty cell": "\n".join(header + data[:3] + [",".join(["" if i == 1 else c for i, c in enumerate(data[3].split(","))])] + data[4:]) + "\n",
        "hash without space": "\n".join(["#" + line[2:] for line in header] + data) + "\n",
        "tab delimited": text.replace(",", "\t"),
        "semicolon rows": "\n".join(header + [line.replace(",", ";") for line in data]) + "\n",
        "empty": "",
        "only newline": "\n",
        "binary": b"\xff\xfe\x00" + text.encode(),
        "latin1 in header": text.replace("{", "{\n#   \"site\": \"café\",", 1),
        "method unknown": with_meta({**meta, "processing_method": "other"}),
        "method null": with_meta({**meta, "processing_method": None}),
        "method list": with_meta({**meta, "processing_method": ["traditional"]}),
        "method missing": with_meta({k: v for k, v in meta.items() if k != "processing_method"}),
        "meta list": with_meta([1, 2]),
        "meta text": with_meta("traditional"),
        "meta null": with_meta(None),
        "no search range": with_meta({k: v for k, v in meta.items() if k != "search_range_in_hz"}),
        "null search range": with_meta({**meta, "search_range_in_hz": None}),
        "long search range": with_meta({**meta, "search_range_in_hz": [0.5, 5, 9]}),
        "text search range": with_meta({**meta, "search_range_in_hz": ["a", "b"]}),
        "reversed search range": with_meta({**meta, "search_range_in_hz": [5, 0.5]}),
        "bounded search range": with_meta({**meta, "search_range_in_hz": [0.5, 5.0]}),
        "no find peaks": with_meta({k: v for k, v in meta.items() if k != "find_peaks_kwargs"}),
        "find peaks kwargs": with_meta({**meta, "find_peaks_kwargs": {"prominence": 0.3}}),
        "find peaks bad": with_meta({**meta, "find_peaks_kwargs": {"nope": 1}}),
        "find peaks list": with_meta({**meta, "find_peaks_kwargs": [1]}),
        "extra meta first": with_meta({"zzz": 1, **meta}),
        "reordered meta": with_meta(dict(reversed(list(meta.items())))),
    }
    for key in ("valid_window_boolean_mask", "valid_peak_boolean_mask", "valid_window_boolean_masks", "valid_peak_boolean_masks"):
        if key in meta:
            variants[f"no {key}"] = with_meta({k: v for k, v in meta.items() if k != key})
            variants[f"empty {key}"] = with_meta({**meta, key: []})
            variants[f"null {key}"] = with_meta({**meta, key: None})
            variants[f"short {key}"] = with_meta({**meta, key: meta[key][:-1]})
            variants[f"ints {key}"] = with_meta({**meta, key: json.loads(json.dumps(meta[key]).replace("true", "1").replace("false", "0"))})
            variants[f"text {key}"] = with_meta({**meta, key: "abc"})
            variants[f"all false {key}"] = with_meta({**meta, key: json.loads(json.dumps(meta[key]).replace("true", "false"))})
            if key.endswith("masks"):
                variants[f"empty child {key}"] = with_meta({**meta, key: [[]] + meta[key][1:]})
                variants[f"long {key}"] = with_meta({**meta, key: meta[key] + meta[key][:1]})
    columns = header[-1]
    variants["columns dropped"] = with_meta(meta, columns="# frequency (Hz)")
    variants["columns two"] = with_meta(meta, columns="# frequency (Hz),hvsr curve 1")
    variants["columns three"] = with_meta(meta, columns="# frequency (Hz),a,b")
    variants["columns renamed"] = with_meta(meta, columns=columns.replace("azimuth", "azimut").replace("hvsr curve", "curve"))
    variants["columns extra"] = with_meta(meta, columns=columns + ",extra")
    variants["columns fewer"] = with_meta(meta, columns=",".join(columns.split(",")[:-1]))
    if "azimuth" in columns:
        variants["azimuth integers"] = with_meta(meta, columns=columns.replace(".0 deg", " deg"))
        variants["azimuth padded"] = with_meta(meta, columns=columns.replace(".0 deg", ".00 deg"))
        variants["azimuth one renamed"] = with_meta(meta, columns=columns.replace("azimuth 0.0 deg | hvsr curve 2", "azimuth 0.00 deg | hvsr curve 2"))
        variants["azimuth all same"] = with_meta(meta, columns=",".join(
            c if "azimuth" not in c else "azimuth 5.5 deg | " + c.split(" | ")[1] for c in columns.split(",")))
        variants["azimuth interleaved"] = with_meta(meta, columns=",".join(
            c if "azimuth" not in c else f"azimuth {float(i % 2)} deg | " + c.split(" | ")[1] for i, c in enumerate(columns.split(","))))
        variants["as traditional"] = with_meta({**meta, "processing_method": "traditional"})
        variants["as diffuse"] = with_meta({**meta, "processing_method": "diffuse_field"})
    else:
        variants["as azimuthal"] = with_meta({**meta, "processing_method": "azimuthal"})
        variants["as other kind"] = with_meta({**meta, "processing_method": "diffuse_field" if meta.get("processing_method") == "traditional" else "traditional"})
    return variants


def section_hvsr_files(tmp):
    with section("hvsr files"):
        objects = build_objects()
        objects.update(pipeline_objects())
        written = {}
        for label, hvsr in objects.items():
            fname = f"{label.replace(' ', '_')}.csv"
            write_read_cycle(label, hvsr, fname)
            if os.path.exists(fname):
                written[label] = pathlib.Path(fname).read_text()
            if isinstance(hvsr, hvsrpy.HvsrDiffuseField):
                continue
            for mc, fn in (("normal", "normal"), ("lognormal", "normal"), ("normal", "lognormal")):
                write_read_cycle(f"{label} {mc}/{fn}", hvsr, f"variant_{mc}_{fn}.csv",
                                 distribution_mc=mc, distribution_fn=fn)
        # the kinds of file name, positional arguments, overwriting
        hvsr = objects["trad 5x40"]
        write_read_cycle("path object", hvsr, pathlib.Path("as_path.csv"))
        write_read_cycle("absolute", hvsr, os.path.join(tmp, "as_abs.csv"))
        os.makedirs("sub dir", exist_ok=True)
        write_read_cycle("sub dir", hvsr, os.path.join("sub dir", "with space.csv"))
        write_read_cycle("no extension", hvsr, "no_extension")
        pathlib.Path("over.csv").write_text("z"*200000)
        write_read_cycle("overwrite", hvsr, "over.csv")
        attempt("positional", hvsrpy.write_hvsr_object_to_file, hvsr, "positional.csv", "normal", "normal")
        rec("  bytes", file_bytes("positional.csv"))
        buffer = io.StringIO()
        attempt("write to text buffer", hvsrpy.write_hvsr_object_to_file, hvsr, buffer)
        rec("  buffer", buffer.getvalue())
        attempt("write missing dir", hvsrpy.write_hvsr_object_to_file, hvsr, os.path.join("nodir", "x.csv"))
        attempt("read missing", hvsrpy.read_hvsr_object_from_file, "missing.csv")
        attempt("read directory", hvsrpy.read_hvsr_object_from_file, tmp)

        # objects and arguments the writer refuses; what is left on disk
        for label, obj, kwargs in [
            ("bad distribution", objects["trad 5x40"], dict(distribution_mc="uniform")),
            ("bad distribution az", objects["az equal"], dict(distribution_mc="uniform")),
            ("bad distribution diffuse", objects["diffuse"], dict(distribution_mc="uniform")),
            ("log-normal spelling", objects["trad 5x40"], dict(distribution_mc="log-normal")),
            ("curve", hvsrpy.HvsrCurve([1, 2, 3], [1, 2, 1]), {}),
            ("dict", {"meta": {}}, {}),
            ("none", None, {}),
            ("recording", make_recording(n=10), {}),
        ]:
            if os.path.exists("refused.csv"):
                os.remove("refused.csv")
            attempt(f"write refused {label}", hvsrpy.write_hvsr_object_to_file, obj, "refused.csv", **kwargs)
            rec("  left", file_bytes("refused.csv"))
        unserialisable = hvsrpy.HvsrTraditional(*synthetic_curves(2, 10, 9), meta={"processing_method": "traditional",
                                                                                   "array": np.arange(3)})
        attempt("write unserialisable meta", hvsrpy.write_hvsr_object_to_file, unserialisable, "refused2.csv")
        rec("  left", file_bytes("refused2.csv"))
        no_method = hvsrpy.HvsrTraditional(*synthetic_curves(2, 10, 9))
        write_read_cycle("no processing_method", no_method, "no_method.csv")
        all_rejected = objects["trad all rejected"]
        rec("all rejected mean", attempt("all rejected mean", all_rejected.mean_curve))

        # a user changes what was read: nothing is shared with a second read
        first = hvsrpy.read_hvsr_object_from_file("trad_5x40.csv")
        first.meta["changed"] = True
        first.valid_window_boolean_mask[0] = False
        first.frequency[0] = 123
        second = hvsrpy.read_hvsr_object_from_file("trad_5x40.csv")
        rec("second read after edits", describe_hvsr(second))

        # damaged and unusual files
        for label in ("trad 5x40", "trad masks", "az unequal", "az equal", "diffuse", "pipe traditional", "pipe azimuthal"):
            if label not in written:
                continue
            for name, text in damage_variants(written[label]).items():
                payload = text if isinstance(text, bytes) else text.encode()
                p = pathlib.Path("damaged.csv")
                p.write_bytes(payload)
                result = attempt(f"damaged {label} / {name}", hvsrpy.read_hvsr_object_from_file, "damaged.csv")
                rec("  read", describe_hvsr(result))
                rec("  file untouched", file_bytes(p) == payload)
                if not isinstance(result, BaseException):
                    attempt("  rewrite", hvsrpy.write_hvsr_object_to_file, result, "damaged_rewrite.csv")
                    rec("  rewrite bytes", file_bytes("damaged_rewrite.csv"))


def main():
    np.seterr(all="ignore")
    tmp = tempfile.mkdtemp(prefix="equivalence_")
    cwd = os.getcwd()
    os.chdir(tmp)
    try:
        section_timeseries()
        section_recording(tmp)
        section_settings(tmp)
        section_hvsr_files(tmp)
    finally:
        os.chdir(cwd)
        shutil.rmtree(tmp, ignore_errors=True)

    total = hashlib.sha256()
    for name, (digest, count, text) in SECTIONS.items():
        print(f"{name:12s} {count:7d} records  sha256={digest}")
        total.update(digest.encode())
    print(f"TOTAL sha256={total.hexdigest()}")
    if "--dump" in sys.argv:
        target = pathlib.Path(sys.argv[sys.argv.index("--dump")+1])
        target.write_text("\n".join(f"## {name}\n{text}" for name, (_, _, text) in SECTIONS.items()))


if __name__ == "__main__":
    main()
