"""Equivalence harness for the processing.py refactoring.

Usage
-----
    python _refactor/equivalence.py run OUT_PREFIX      # writes OUT_PREFIX.npz / OUT_PREFIX.json
    python _refactor/equivalence.py compare REF NEW     # compares two prefixes

``run`` imports hvsrpy from the tree this file lives in, drives the spectral
processing (and the statistics / peak search / window rejection that sit on
top of it) with many seeded random inputs and call sequences, and stores

* every numeric result in the ``.npz`` file, and
* every discrete result (shapes, masks, iteration counts, peak indices,
  exception types and messages, warnings, meta, mutation flags) in the
  ``.json`` file.

``compare`` requires the discrete results to be identical and the numeric
results to agree to ``rtol=1e-12`` with an ``atol`` of ``1e-12`` times the
largest magnitude of the reference array; it prints the largest differences.
"""

import hashlib
import json
import pathlib
import sys
import warnings

import numpy as np

ROOT = pathlib.Path(__file__).resolve().parent.parent
sys.path.insert(0, str(ROOT))

import hvsrpy  # noqa: E402
from hvsrpy import processing  # noqa: E402

assert pathlib.Path(hvsrpy.__file__).resolve().parent.parent == ROOT

NUMERIC = {}
DISCRETE = {}

OPERATORS = {
    "konno_and_ohmachi": (20, 40, 60),
    "parzen": (0.3, 0.5, 1.0),
    "savitzky_and_golay": (5, 9, 21),
    "linear_rectangular": (0.3, 0.5),
    "log_rectangular": (0.05, 0.1),
    "linear_triangular": (0.4, 0.8),
    "log_triangular": (0.05, 0.1),
}
COMBINATIONS = list(processing.COMBINE_HORIZONTAL_REGISTER.keys())
DISSIMILAR = ["frequency_domain_resampling",
              "keeping_smallest_time_step",
              "keeping_majority_time_step"]


# --------------------------------------------------------------------------
# helpers
# --------------------------------------------------------------------------

def jsonable(obj):
    if isinstance(obj, dict):
        return {str(k): jsonable(v) for k, v in obj.items()}
    if isinstance(obj, (list, tuple)):
        return [jsonable(v) for v in obj]
    if isinstance(obj, np.ndarray):
        return jsonable(obj.tolist())
    if isinstance(obj, (np.bool_, bool)):
        return bool(obj)
    if isinstance(obj, np.integer):
        return int(obj)
    if isinstance(obj, (np.floating, float)):
        return repr(float(obj))
    if obj is None or isinstance(obj, (str, int)):
        return obj
    return repr(obj)


def num(key, value):
    assert key not in NUMERIC, key
    NUMERIC[key] = np.array(value, dtype=float)


def disc(key, value):
    assert key not in DISCRETE, key
    DISCRETE[key] = jsonable(value)


def fingerprint(records):
    h = hashlib.sha256()
    for record in records:
        for component in (record.ns, record.ew, record.vt):
            h.update(np.ascontiguousarray(component.amplitude).tobytes())
            h.update(repr(component.dt_in_seconds).encode())
        h.update(repr(sorted(record.meta.items(), key=str)).encode())
    return h.hexdigest()


def settings_state(settings):
    return jsonable(settings.attr_dict)


def make_record(rng, n_samples, dt, f0=None, gain=None, scale=1.0, meta=None):
    """Coloured noise with a horizontal resonance at f0 (so that peaks exist)."""
    fnyq = 0.5/dt
    if f0 is None:
        f0 = float(np.exp(rng.uniform(np.log(0.6), np.log(min(12., 0.4*fnyq)))))
    if gain is None:
        gain = rng.uniform(2, 8)
    frq = np.fft.rfftfreq(n_samples, dt)
    colour = 1/(1 + (frq/(0.5*fnyq))**2)
    bump = 1 + gain*np.exp(-0.5*(np.log((frq + 1e-9)/f0)/0.12)**2)
    components = []
    for is_horizontal in (True, True, False):
        spectrum = rng.standard_normal(len(frq)) + 1j*rng.standard_normal(len(frq))
        spectrum *= colour
        if is_horizontal:
            spectrum *= bump * rng.uniform(0.7, 1.3)
        x = np.fft.irfft(spectrum, n=n_samples)
        x = x*scale + rng.uniform(-0.05, 0.05)*scale*np.std(x)
        components.append(hvsrpy.TimeSeries(x, dt))
    return hvsrpy.SeismicRecording3C(*components,
                                     degrees_from_north=float(rng.choice([0., 15., 275.])),
                                     meta=meta)


def make_records(rng, n_records, dts=(0.01,), same_length=True, f0=None, scale=None):
    records = []
    base_n = int(rng.integers(1500, 4500))
    site_f0 = f0 if f0 is not None else float(np.exp(rng.uniform(np.log(0.8), np.log(8.))))
    for idx in range(n_records):
        dt = float(dts[int(rng.integers(len(dts)))]) if idx >= len(dts) else float(dts[idx])
        n_samples = base_n if same_length else int(base_n + rng.integers(-400, 400))
        s = float(10**rng.uniform(-7, 3)) if scale is None else scale
        records.append(make_record(rng, n_samples, dt,
                                   f0=site_f0*float(np.exp(rng.normal(0, 0.12))),
                                   scale=s,
                                   meta={"window": idx} if idx == 0 else None))
    return records


def random_smoothing(rng, fmax, nfc=None):
    operator = list(OPERATORS)[int(rng.integers(len(OPERATORS)))]
    bandwidth = OPERATORS[operator][int(rng.integers(len(OPERATORS[operator])))]
    nfc = int(rng.integers(30, 90)) if nfc is None else nfc
    fcs = np.geomspace(rng.uniform(0.15, 0.4), fmax*rng.uniform(0.5, 0.95), nfc)
    return dict(operator=operator, bandwidth=bandwidth, center_frequencies_in_hz=fcs)


def random_fft_settings(rng):
    choice = int(rng.integers(5))
    if choice == 0:
        return None
    if choice == 1:
        return dict(n=None)
    if choice == 2:
        return dict()
    if choice == 3:
        return dict(n=int(rng.integers(2000, 70000)))
    return dict(n=2**16)


def call(key, fn, *args, **kwargs):
    """Run fn, recording warnings and exceptions; returns result or None."""
    with warnings.catch_warnings(record=True) as caught:
        warnings.simplefilter("always")
        try:
            result = fn(*args, **kwargs)
            disc(f"{key}/exception", None)
        except Exception as e:  # noqa: BLE001
            result = None
            disc(f"{key}/exception", [type(e).__name__, str(e)])
    disc(f"{key}/warnings", sorted((w.category.__name__, str(w.message)) for w in caught))
    return result


def dump_traditional(key, hvsr, rejection=True, rng=None):
    num(f"{key}/frequency", hvsr.frequency)
    num(f"{key}/amplitude", hvsr.amplitude)
    disc(f"{key}/shape", hvsr.amplitude.shape)
    disc(f"{key}/meta", hvsr.meta)
    disc(f"{key}/nan_mask", np.isnan(hvsr.amplitude))
    num(f"{key}/main_peak_frq", hvsr._main_peak_frq)
    num(f"{key}/main_peak_amp", hvsr._main_peak_amp)
    disc(f"{key}/peak_index", [int(np.argmin(np.abs(hvsr.frequency - f))) if np.isfinite(f) else None
                               for f in hvsr._main_peak_frq])
    disc(f"{key}/valid_peak", hvsr.valid_peak_boolean_mask)
    with warnings.catch_warnings():
        warnings.simplefilter("ignore")
        for distribution in ("lognormal", "normal"):
            try:
                num(f"{key}/{distribution}/mean_curve", hvsr.mean_curve(distribution))
                num(f"{key}/{distribution}/std_curve", hvsr.std_curve(distribution))
                num(f"{key}/{distribution}/mean_fn", hvsr.mean_fn_frequency(distribution))
                num(f"{key}/{distribution}/std_fn", hvsr.std_fn_frequency(distribution))
                num(f"{key}/{distribution}/mean_an", hvsr.mean_fn_amplitude(distribution))
                num(f"{key}/{distribution}/std_an", hvsr.std_fn_amplitude(distribution))
                num(f"{key}/{distribution}/mc_peak", hvsr.mean_curve_peak(distribution))
                num(f"{key}/{distribution}/nth_curve", hvsr.nth_std_curve(1.5, distribution))
            except Exception as e:  # noqa: BLE001
                disc(f"{key}/{distribution}/stat_exception", [type(e).__name__, str(e)])
        if rejection:
            n = 2 if rng is None else float(rng.choice([1., 1.5, 2., 2.5]))
            dist_fn = "lognormal" if rng is None else str(rng.choice(["lognormal", "normal"]))
            dist_mc = "lognormal" if rng is None else str(rng.choice(["lognormal", "normal"]))
            lo = float(hvsr.frequency[2])
            hi = float(hvsr.frequency[-3])
            try:
                iterations = hvsrpy.frequency_domain_window_rejection(
                    hvsr, n=n, distribution_fn=dist_fn, distribution_mc=dist_mc,
                    search_range_in_hz=(lo, hi))
                disc(f"{key}/fdwra/iterations", iterations)
                disc(f"{key}/fdwra/valid_window", hvsr.valid_window_boolean_mask)
                disc(f"{key}/fdwra/valid_peak", hvsr.valid_peak_boolean_mask)
                disc(f"{key}/fdwra/meta", hvsr.meta)
                num(f"{key}/fdwra/mean_curve", hvsr.mean_curve(dist_mc))
                num(f"{key}/fdwra/std_curve", hvsr.std_curve(dist_mc))
                num(f"{key}/fdwra/mean_fn", hvsr.mean_fn_frequency(dist_fn))
                num(f"{key}/fdwra/std_fn", hvsr.std_fn_frequency(dist_fn))
                num(f"{key}/fdwra/mc_peak", hvsr.mean_curve_peak(dist_mc))
            except Exception as e:  # noqa: BLE001
                disc(f"{key}/fdwra/exception", [type(e).__name__, str(e)])


def dump_azimuthal(key, hvsr, rng):
    disc(f"{key}/meta", hvsr.meta)
    disc(f"{key}/azimuths", hvsr.azimuths)
    num(f"{key}/amplitude", np.array(hvsr.amplitude))
    for idx, member in enumerate(hvsr.hvsrs):
        disc(f"{key}/{idx}/meta", member.meta)
        num(f"{key}/{idx}/main_peak_frq", member._main_peak_frq)
        num(f"{key}/{idx}/main_peak_amp", member._main_peak_amp)
    with warnings.catch_warnings():
        warnings.simplefilter("ignore")
        for distribution in ("lognormal", "normal"):
            num(f"{key}/{distribution}/mean_curve", hvsr.mean_curve(distribution))
            num(f"{key}/{distribution}/std_curve", hvsr.std_curve(distribution))
            num(f"{key}/{distribution}/mean_fn", hvsr.mean_fn_frequency(distribution))
            num(f"{key}/{distribution}/std_fn", hvsr.std_fn_frequency(distribution))
            num(f"{key}/{distribution}/mc_peak", hvsr.mean_curve_peak(distribution))
            num(f"{key}/{distribution}/mc_by_az", hvsr.mean_curve_by_azimuth(distribution))
        iterations = hvsrpy.frequency_domain_window_rejection(
            hvsr, n=float(rng.choice([1.5, 2., 2.5])))
        disc(f"{key}/fdwra/iterations", iterations)
        disc(f"{key}/fdwra/valid_window", [m.valid_window_boolean_mask for m in hvsr.hvsrs])
        disc(f"{key}/fdwra/meta", hvsr.meta)
        num(f"{key}/fdwra/mean_curve", hvsr.mean_curve())
        num(f"{key}/fdwra/std_curve", hvsr.std_curve())
        num(f"{key}/fdwra/mean_fn", hvsr.mean_fn_frequency())
        num(f"{key}/fdwra/std_fn", hvsr.std_fn_frequency())


def run_process(key, records, settings):
    """process() with frame checks on records and settings."""
    before_records = fingerprint(records)
    before_settings = settings_state(settings)
    result = call(key, hvsrpy.process, records, settings)
    disc(f"{key}/records_unchanged", fingerprint(records) == before_records)
    disc(f"{key}/settings_unchanged", settings_state(settings) == before_settings)
    disc(f"{key}/type", type(result).__name__)
    return result


# --------------------------------------------------------------------------
# scenarios
# --------------------------------------------------------------------------

def scenario_combine_functions(rng):
    for trial in range(40):
        shape = (int(rng.integers(1, 6)), int(rng.integers(1, 400)))
        if trial % 2:
            shape = shape[1:]
        ns = np.abs(rng.standard_normal(shape)) * 10**rng.uniform(-8, 8)
        ew = np.abs(rng.standard_normal(shape)) * 10**rng.uniform(-8, 8)
        if trial % 5 == 0:
            ew = ns.copy()
        if trial % 7 == 0:
            ns.flat[0] = 0.
            ew.flat[-1] = 0.
        for name, fn in processing.COMBINE_HORIZONTAL_REGISTER.items():
            num(f"combine/{trial}/{name}", fn(ns, ew))
            num(f"combine/{trial}/{name}/with_settings", fn(ns, ew, None))
        az = float(rng.uniform(-400, 400))
        num(f"combine/{trial}/single_azimuth",
            processing.single_azimuth(rng.standard_normal(shape), rng.standard_normal(shape), az))
    # signed / non-finite inputs for the combinations defined for them.
    a = np.array([-3., 4., 0., np.nan, 1., np.inf, 2., -0.])
    b = np.array([4., -3., -0., 1., np.nan, 1., np.nan, 0.])
    with np.errstate(all="ignore"):
        num("combine/special/max", processing.maximum_horizontal_value(a, b))
        num("combine/special/mean", processing.arithmetic_mean(a, b))
        num("combine/special/the_finite", processing.total_horizontal_energy(a[:3], b[:3]))
        num("combine/special/sqa_finite", processing.squared_average(a[:3], b[:3]))
        num("combine/special/geo", processing.geometric_mean(a[:3], b[:3]))
    disc("combine/keys", sorted(processing.COMBINE_HORIZONTAL_REGISTER))
    disc("combine/traditional_keys", sorted(processing.TRADITIONAL_PROCESSING_REGISTER))
    disc("combine/processing_methods", sorted(processing.PROCESSING_METHODS))


def scenario_traditional(rng):
    trial = 0
    for combination in COMBINATIONS:
        for repeat in range(3):
            key = f"traditional/{combination}/{repeat}"
            mixed = repeat == 2
            dts = (0.01, 0.005, 0.01, 0.02) if mixed else (float(rng.choice([0.01, 0.005, 0.02])),)
            records = make_records(rng, int(rng.integers(6, 16)), dts=dts,
                                   same_length=(repeat == 0))
            fmax = 0.5/max(r.ns.dt_in_seconds for r in records)
            settings = hvsrpy.HvsrTraditionalProcessingSettings(
                window_type_and_width=["tukey", float(rng.choice([0., 0.1, 0.25, 1.]))],
                smoothing=random_smoothing(rng, fmax),
                fft_settings=random_fft_settings(rng),
                handle_dissimilar_time_steps_by=DISSIMILAR[trial % 3] if mixed else DISSIMILAR[0],
                method_to_combine_horizontals=combination)
            hvsr = run_process(key, records, settings)
            if hvsr is not None:
                dump_traditional(key, hvsr, rng=rng)
            trial += 1


def scenario_single_azimuth(rng):
    for trial in range(10):
        key = f"single_azimuth/{trial}"
        mixed = trial % 3 == 2
        dts = (0.01, 0.005, 0.01) if mixed else (0.01,)
        records = make_records(rng, int(rng.integers(5, 14)), dts=dts, same_length=trial % 2 == 0)
        settings = hvsrpy.HvsrTraditionalSingleAzimuthProcessingSettings(
            window_type_and_width=["tukey", float(rng.choice([0.05, 0.1, 0.5]))],
            smoothing=random_smoothing(rng, 50.),
            fft_settings=random_fft_settings(rng),
            handle_dissimilar_time_steps_by=DISSIMILAR[trial % 3],
            method_to_combine_horizontals=["single_azimuth", "directional_energy"][trial % 2],
            azimuth_in_degrees=float(rng.choice([0., 90., 45., rng.uniform(0, 180), -30., 270.])))
        hvsr = run_process(key, records, settings)
        if hvsr is not None:
            dump_traditional(key, hvsr, rng=rng)


def scenario_rotdpp(rng):
    for trial in range(10):
        key = f"rotdpp/{trial}"
        mixed = trial % 4 == 3
        dts = (0.01, 0.02, 0.01) if mixed else (0.01,)
        records = make_records(rng, int(rng.integers(4, 10)), dts=dts, same_length=trial % 2 == 0)
        azimuths = [np.arange(0, 180, 15), np.arange(0, 180, 30), [0., 90.], [37.5],
                    list(rng.uniform(0, 180, 7))][trial % 5]
        settings = hvsrpy.HvsrTraditionalRotDppProcessingSettings(
            window_type_and_width=["tukey", float(rng.choice([0.1, 0.2]))],
            smoothing=random_smoothing(rng, 25.),
            fft_settings=random_fft_settings(rng),
            handle_dissimilar_time_steps_by=DISSIMILAR[trial % 3],
            ppth_percentile_for_rotdpp_computation=float(rng.choice([0., 50., 100., 16., 84.])),
            azimuths_in_degrees=azimuths)
        hvsr = run_process(key, records, settings)
        if hvsr is not None:
            dump_traditional(key, hvsr, rng=rng)


def scenario_azimuthal(rng):
    for trial in range(6):
        key = f"azimuthal/{trial}"
        mixed = trial % 3 == 2
        dts = (0.01, 0.005, 0.01) if mixed else (0.01,)
        records = make_records(rng, int(rng.integers(5, 10)), dts=dts, same_length=trial % 2 == 0)
        azimuths = [np.arange(0, 180, 30), np.arange(0, 180, 45), [10., 100.]][trial % 3]
        settings = hvsrpy.HvsrAzimuthalProcessingSettings(
            window_type_and_width=["tukey", 0.1],
            smoothing=random_smoothing(rng, 40.),
            fft_settings=random_fft_settings(rng),
            handle_dissimilar_time_steps_by=DISSIMILAR[trial % 3],
            azimuths_in_degrees=azimuths)
        hvsr = run_process(key, records, settings)
        if hvsr is not None:
            dump_azimuthal(key, hvsr, rng)


def scenario_diffuse_field_and_psd(rng):
    for trial in range(10):
        mixed = trial % 4 == 3
        dts = (0.01, 0.01, 0.005) if mixed else (float(rng.choice([0.01, 0.005])),)
        records = make_records(rng, int(rng.integers(3, 14)), dts=dts, same_length=True,
                               scale=float(10**rng.uniform(-8, 2)))
        fmax = 0.5/max(r.ns.dt_in_seconds for r in records)
        key = f"diffuse/{trial}"
        settings = hvsrpy.HvsrDiffuseFieldProcessingSettings(
            window_type_and_width=["tukey", float(rng.choice([0.1, 0.3, 1.]))],
            smoothing=random_smoothing(rng, fmax),
            fft_settings=random_fft_settings(rng),
            handle_dissimilar_time_steps_by=DISSIMILAR[trial % 3])
        hvsr = run_process(key, records, settings)
        if hvsr is not None:
            num(f"{key}/frequency", hvsr.frequency)
            num(f"{key}/amplitude", hvsr.amplitude)
            num(f"{key}/mean_curve", hvsr.mean_curve())
            num(f"{key}/mc_peak", hvsr.mean_curve_peak())
            disc(f"{key}/meta", hvsr.meta)

        key = f"psd/{trial}"
        single_dt = [r for r in records if r.ns.dt_in_seconds == records[0].ns.dt_in_seconds]
        settings = hvsrpy.PsdProcessingSettings(
            window_type_and_width=["tukey", float(rng.choice([0.1, 0.3, 1.]))],
            smoothing=random_smoothing(rng, fmax),
            fft_settings=random_fft_settings(rng))
        if trial % 2:
            settings.smoothing = None
        psds = run_process(key, single_dt, settings)
        if psds is not None:
            disc(f"{key}/keys", sorted(psds))
            for component, psd in psds.items():
                num(f"{key}/{component}/frequency", psd.frequency)
                num(f"{key}/{component}/amplitude", psd.amplitude)
        # rpsd() called directly mutates the settings it is given (fft length).
        direct = hvsrpy.PsdProcessingSettings(fft_settings=random_fft_settings(rng))
        direct.smoothing = None
        psds = call(f"{key}/direct", hvsrpy.rpsd, single_dt, direct)
        disc(f"{key}/direct/settings_after", settings_state(direct))
        if psds is not None:
            num(f"{key}/direct/vt", psds["vt"].amplitude)

    # odd / even lengths without padding and records of unequal length.
    for trial, n_samples in enumerate([1001, 1000, 777, 2048]):
        records = [make_record(rng, n_samples - 10*i, 0.01) for i in range(3)]
        settings = hvsrpy.PsdProcessingSettings(fft_settings=dict(n=None))
        settings.smoothing = None
        psds = run_process(f"psd/lengths/{trial}", records, settings)
        if psds is not None:
            for component, psd in psds.items():
                num(f"psd/lengths/{trial}/{component}", psd.amplitude)
                disc(f"psd/lengths/{trial}/{component}/n", len(psd.frequency))


def scenario_call_sequences(rng):
    """Reuse of records and settings across calls; direct calls of the workers."""
    records = make_records(rng, 9, dts=(0.01, 0.01, 0.005, 0.01, 0.005), same_length=False)
    smoothing = random_smoothing(rng, 25.)
    settings = hvsrpy.HvsrTraditionalProcessingSettings(smoothing=smoothing,
                                                        method_to_combine_horizontals="squared_average")
    first = run_process("sequence/first", records, settings)
    second = run_process("sequence/second", records[::-1], settings)
    disc("sequence/reversed_is_permutation",
         bool(np.array_equal(first.amplitude, second.amplitude[::-1])))
    num("sequence/first/amplitude", first.amplitude)
    disc("sequence/shares_fcs", bool(np.shares_memory(first.frequency,
                                                      smoothing["center_frequencies_in_hz"])))

    # same settings object, other methods, then back again.
    for idx, combination in enumerate(["geometric_mean", "vector_summation", "squared_average"]):
        settings.method_to_combine_horizontals = combination
        hvsr = run_process(f"sequence/loop/{idx}", records, settings)
        num(f"sequence/loop/{idx}/amplitude", hvsr.amplitude)
    disc("sequence/loop/back_equal", bool(np.array_equal(hvsr.amplitude, first.amplitude)))

    # workers called directly mutate their settings (fft length) but not the records.
    for name, worker, direct in [
        ("traditional", processing.traditional_hvsr_processing,
         hvsrpy.HvsrTraditionalProcessingSettings(smoothing=smoothing,
                                                  method_to_combine_horizontals="total_horizontal_energy")),
        ("single", processing.traditional_single_azimuth_hvsr_processing,
         hvsrpy.HvsrTraditionalSingleAzimuthProcessingSettings(smoothing=smoothing, azimuth_in_degrees=33.)),
        ("rotdpp", processing.traditional_rotdpp_hvsr_processing,
         hvsrpy.HvsrTraditionalRotDppProcessingSettings(smoothing=smoothing,
                                                        azimuths_in_degrees=np.arange(0, 180, 45))),
        ("azimuthal", processing.azimuthal_hvsr_processing,
         hvsrpy.HvsrAzimuthalProcessingSettings(smoothing=smoothing, azimuths_in_degrees=[0., 60., 120.])),
    ]:
        before = fingerprint(records)
        result = call(f"sequence/direct/{name}", worker, records, direct)
        disc(f"sequence/direct/{name}/records_unchanged", fingerprint(records) == before)
        disc(f"sequence/direct/{name}/settings_after", settings_state(direct))
        num(f"sequence/direct/{name}/amplitude", np.array(result.amplitude))
        again = call(f"sequence/direct/{name}/again", worker, records, direct)
        disc(f"sequence/direct/{name}/repeatable",
             bool(np.array_equal(np.array(result.amplitude), np.array(again.amplitude))))

    # a single record, and records given as a tuple.
    one = run_process("sequence/one", records[:1], settings)
    num("sequence/one/amplitude", one.amplitude)
    tup = run_process("sequence/tuple", tuple(records[:3]), settings)
    num("sequence/tuple/amplitude", tup.amplitude)

    # scaling all components by a common factor (results should barely move).
    scaled = [hvsrpy.SeismicRecording3C(hvsrpy.TimeSeries(r.ns.amplitude*1e6, r.ns.dt_in_seconds),
                                        hvsrpy.TimeSeries(r.ew.amplitude*1e6, r.ew.dt_in_seconds),
                                        hvsrpy.TimeSeries(r.vt.amplitude*1e6, r.vt.dt_in_seconds))
              for r in records]
    hvsr = run_process("sequence/scaled", scaled, settings)
    num("sequence/scaled/amplitude", hvsr.amplitude)

    # identical horizontals, silent vertical, silent horizontals.
    r = records[0]
    same = hvsrpy.SeismicRecording3C(r.ns, r.ns, r.vt)
    hvsr = run_process("sequence/identical_horizontals", [same, records[1]], settings)
    num("sequence/identical_horizontals/amplitude", hvsr.amplitude)
    silent = hvsrpy.SeismicRecording3C(r.ns, r.ew, hvsrpy.TimeSeries(np.zeros(r.vt.n_samples), r.vt.dt_in_seconds))
    with np.errstate(all="ignore"):
        hvsr = run_process("sequence/silent_vertical", [silent, records[1]], settings)
    if hvsr is not None:
        num("sequence/silent_vertical/amplitude", hvsr.amplitude)
        disc("sequence/silent_vertical/inf", np.isinf(hvsr.amplitude))


def scenario_exceptions(rng):
    records = make_records(rng, 4, dts=(0.01, 0.005), same_length=True)
    smoothing = dict(operator="konno_and_ohmachi", bandwidth=40,
                     center_frequencies_in_hz=np.geomspace(0.2, 20, 30))
    too_high = dict(operator="konno_and_ohmachi", bandwidth=40,
                    center_frequencies_in_hz=np.geomspace(0.2, 80, 30))
    cases = {
        "nyquist/traditional": hvsrpy.HvsrTraditionalProcessingSettings(smoothing=too_high),
        "nyquist/single": hvsrpy.HvsrTraditionalSingleAzimuthProcessingSettings(smoothing=too_high),
        "nyquist/rotdpp": hvsrpy.HvsrTraditionalRotDppProcessingSettings(smoothing=too_high),
        "nyquist/azimuthal": hvsrpy.HvsrAzimuthalProcessingSettings(smoothing=too_high),
        "nyquist/diffuse": hvsrpy.HvsrDiffuseFieldProcessingSettings(smoothing=too_high),
        "diffuse/mixed_dt": hvsrpy.HvsrDiffuseFieldProcessingSettings(
            smoothing=smoothing, handle_dissimilar_time_steps_by="frequency_domain_resampling"),
        "window/traditional": hvsrpy.HvsrTraditionalProcessingSettings(
            smoothing=smoothing, window_type_and_width=["hann", 0.1]),
        "window/single": hvsrpy.HvsrTraditionalSingleAzimuthProcessingSettings(
            smoothing=smoothing, window_type_and_width=["hann", 0.1]),
        "window/rotdpp": hvsrpy.HvsrTraditionalRotDppProcessingSettings(
            smoothing=smoothing, window_type_and_width=["hann", 0.1]),
        "window/psd": hvsrpy.PsdProcessingSettings(
            smoothing=smoothing, window_type_and_width=["hann", 0.1]),
        "window/diffuse": hvsrpy.HvsrDiffuseFieldProcessingSettings(
            smoothing=smoothing, window_type_and_width=["hann", 0.1]),
        "operator/traditional": hvsrpy.HvsrTraditionalProcessingSettings(
            smoothing=dict(smoothing, operator="nope")),
        "savgol_even/traditional": hvsrpy.HvsrTraditionalProcessingSettings(
            smoothing=dict(smoothing, operator="savitzky_and_golay", bandwidth=8)),
        "fft_kwarg/traditional": hvsrpy.HvsrTraditionalProcessingSettings(
            smoothing=smoothing, fft_settings=dict(n=40000, bogus=1)),
        "fft_kwarg/psd": hvsrpy.PsdProcessingSettings(
            smoothing=smoothing, fft_settings=dict(n=40000, bogus=1)),
        "fft_norm/traditional": hvsrpy.HvsrTraditionalProcessingSettings(
            smoothing=smoothing, fft_settings=dict(n=40000, norm="ortho")),
        "fft_axis0/single": hvsrpy.HvsrTraditionalSingleAzimuthProcessingSettings(
            smoothing=smoothing, fft_settings=dict(n=40000, axis=0)),
        "fft_axis-1/rotdpp": hvsrpy.HvsrTraditionalRotDppProcessingSettings(
            smoothing=smoothing, fft_settings=dict(n=40000, axis=-1), azimuths_in_degrees=[0., 45.]),
        "fft_axis1/traditional": hvsrpy.HvsrTraditionalProcessingSettings(
            smoothing=smoothing, fft_settings=dict(n=40000, axis=1)),
        "fft_axis1/psd": hvsrpy.PsdProcessingSettings(
            smoothing=smoothing, fft_settings=dict(n=40000, axis=1)),
    }
    for name, settings in cases.items():
        key = f"exceptions/{name}"
        result = run_process(key, records, settings)
        if isinstance(result, dict):
            num(f"{key}/amplitude", result["vt"].amplitude)
        elif result is not None:
            num(f"{key}/amplitude", np.array(result.amplitude))
    bad = hvsrpy.HvsrTraditionalProcessingSettings(smoothing=smoothing)
    bad.method_to_combine_horizontals = "nope"
    run_process("exceptions/method", records, bad)
    call("exceptions/direct_method", processing.traditional_hvsr_processing, records, bad)
    for name, settings in [("traditional", hvsrpy.HvsrTraditionalProcessingSettings(smoothing=smoothing)),
                           ("rotdpp", hvsrpy.HvsrTraditionalRotDppProcessingSettings(smoothing=smoothing)),
                           ("psd", hvsrpy.PsdProcessingSettings(smoothing=smoothing)),
                           ("diffuse", hvsrpy.HvsrDiffuseFieldProcessingSettings(smoothing=smoothing))]:
        run_process(f"exceptions/empty/{name}", [], settings)


def scenario_many_windows(rng):
    """Larger window sets: the discrete outcome of the rejection must not move."""
    for trial in range(6):
        key = f"many/{trial}"
        records = make_records(rng, int(rng.integers(30, 60)), dts=(0.01,), same_length=True,
                               scale=1.)
        settings = hvsrpy.HvsrTraditionalProcessingSettings(
            smoothing=dict(operator="konno_and_ohmachi", bandwidth=40,
                           center_frequencies_in_hz=np.geomspace(0.3, 30, 120)),
            method_to_combine_horizontals=COMBINATIONS[(3*trial) % len(COMBINATIONS)])
        hvsr = run_process(key, records, settings)
        dump_traditional(key, hvsr, rng=rng)


# --------------------------------------------------------------------------
# driver
# --------------------------------------------------------------------------

def run(prefix):
    scenarios = [scenario_combine_functions, scenario_traditional, scenario_single_azimuth,
                 scenario_rotdpp, scenario_azimuthal, scenario_diffuse_field_and_psd,
                 scenario_call_sequences, scenario_exceptions, scenario_many_windows]
    for idx, scenario in enumerate(scenarios):
        scenario(np.random.default_rng(20240 + idx))
        print(f"{scenario.__name__}: {len(NUMERIC)} numeric / {len(DISCRETE)} discrete so far",
              flush=True)
    np.savez_compressed(f"{prefix}.npz", **NUMERIC)
    with open(f"{prefix}.json", "w") as f:
        json.dump(DISCRETE, f, indent=1, sort_keys=True)


def compare(ref_prefix, new_prefix, rtol=1e-12):
    ref = np.load(f"{ref_prefix}.npz")
    new = np.load(f"{new_prefix}.npz")
    with open(f"{ref_prefix}.json") as f:
        ref_discrete = json.load(f)
    with open(f"{new_prefix}.json") as f:
        new_discrete = json.load(f)

    failures = []
    if sorted(ref.files) != sorted(new.files):
        failures.append(f"numeric keys differ: {set(ref.files) ^ set(new.files)}")
    if sorted(ref_discrete) != sorted(new_discrete):
        failures.append(f"discrete keys differ: {set(ref_discrete) ^ set(new_discrete)}")
    n_discrete_diff = 0
    for key in ref_discrete:
        if ref_discrete[key] != new_discrete.get(key):
            n_discrete_diff += 1
            failures.append(f"discrete result differs: {key}")

    worst_rel, worst_rel_key = 0., None
    worst_scaled, worst_scaled_key = 0., None
    n_values, n_changed, n_arrays_changed = 0, 0, 0
    for key in ref.files:
        a, b = ref[key], new[key]
        if a.shape != b.shape:
            failures.append(f"shape differs: {key}")
            continue
        if not np.array_equal(np.isnan(a), np.isnan(b)) or not np.array_equal(np.isinf(a), np.isinf(b)):
            failures.append(f"non-finite pattern differs: {key}")
            continue
        finite = np.isfinite(a)
        if not np.array_equal(a[~finite & ~np.isnan(a)], b[~finite & ~np.isnan(a)]):
            failures.append(f"infinities differ: {key}")
        a, b = a[finite], b[finite]
        n_values += a.size
        if a.size == 0:
            continue
        diff = np.abs(a - b)
        n_changed += int(np.count_nonzero(diff))
        n_arrays_changed += int(diff.any())
        scale = float(np.max(np.abs(a)))
        atol = rtol*scale
        if not np.all(diff <= atol + rtol*np.abs(a)):
            failures.append(f"numeric result differs: {key} (max abs diff {diff.max():.3e}, scale {scale:.3e})")
        nonzero = a != 0
        if nonzero.any():
            rel = float(np.max(diff[nonzero]/np.abs(a[nonzero])))
            if rel > worst_rel:
                worst_rel, worst_rel_key = rel, key
        if scale > 0:
            scaled = float(diff.max()/scale)
            if scaled > worst_scaled:
                worst_scaled, worst_scaled_key = scaled, key

    print(f"numeric arrays: {len(ref.files)} ({n_arrays_changed} not bit-identical)")
    print(f"numeric values: {n_values} ({n_changed} not bit-identical)")
    print(f"discrete results: {len(ref_discrete)} ({n_discrete_diff} differ)")
    print(f"largest element-wise relative difference: {worst_rel:.3e} ({worst_rel_key})")
    print(f"largest difference relative to array scale: {worst_scaled:.3e} ({worst_scaled_key})")
    for failure in failures:
        print("FAIL:", failure)
    print("EQUIVALENT" if not failures else f"NOT EQUIVALENT ({len(failures)} failures)")
    return 1 if failures else 0


if __name__ == "__main__":
    if len(sys.argv) == 3 and sys.argv[1] == "run":
        run(sys.argv[2])
    elif len(sys.argv) == 4 and sys.argv[1] == "compare":
        sys.exit(compare(sys.argv[2], sys.argv[3]))
    else:
        print(__doc__)
        sys.exit(2)
