"""Differential exerciser for hvsrpy's result classes and window rejection.

Prints one line ``DIGEST <sha256>`` of everything observable (returned
values bit for bit including array flags, object state after every
call, identities of masks, contents of written files, exception types
and messages, warnings and log records) for several hundred seeded,
randomised call sequences. The digest only depends on behaviour that is
reachable through public (and long-standing private) names, hence it
can be compared between two versions of the package.

Run as:
    cd /tmp/r9/ctlL && PYTHONPATH=/tmp/r9/ctlL MPLBACKEND=Agg /venv/bin/python _control/equiv.py
"""

import copy
import hashlib
import logging
import os
import pickle
import re
import shutil
import sys
import tempfile
import warnings
from collections import OrderedDict

import numpy as np
import matplotlib
matplotlib.use("Agg")
import matplotlib.pyplot as plt

import hvsrpy
from hvsrpy import HvsrCurve, HvsrTraditional, HvsrAzimuthal
import hvsrpy.window_rejection as wr
import hvsrpy.interact as interact

VERBOSE = "-v" in sys.argv

# --------------------------------------------------------------------------
# recording
# --------------------------------------------------------------------------

_ADDRESS = re.compile(r"0x[0-9a-fA-F]+")


class Recorder():
    def __init__(self):
        self.sha = hashlib.sha256()
        self.n_items = 0
        self.n_exceptions = 0
        self.n_warnings = 0
        self.n_logs = 0
        self.logs = []

    def feed(self, text):
        if VERBOSE:
            print(text[:300])
        self.sha.update(text.encode("utf-8", "backslashreplace"))
        self.sha.update(b"\x00")
        self.n_items += 1


REC = Recorder()


class _ListHandler(logging.Handler):
    def emit(self, record):
        try:
            msg = record.getMessage()
        except Exception as e:  # pragma: no cover
            msg = f"<unformattable {type(e).__name__}>"
        REC.logs.append(f"{record.levelname}:{record.name}:{msg}")


_logger = logging.getLogger("hvsrpy")
_logger.setLevel(logging.DEBUG)
_logger.addHandler(_ListHandler())
_logger.propagate = False


def canon(obj, depth=0):
    """Canonical, exact and address-free text for ``obj``."""
    if depth > 8:
        return "<deep>"
    if obj is None or isinstance(obj, (bool, int, str, bytes)) and not isinstance(obj, np.generic):
        return f"{type(obj).__name__}:{obj!r}"
    if isinstance(obj, np.generic):
        return f"npscalar:{type(obj).__name__}:{obj.dtype.str}:{obj.tobytes().hex()}"
    if isinstance(obj, float):
        return f"float:{obj.hex()}"
    if isinstance(obj, complex):
        return f"complex:{obj.real.hex()}:{obj.imag.hex()}"
    if isinstance(obj, np.ndarray):
        head = (f"nd:{type(obj).__name__}:{obj.dtype.str}:{obj.shape}:"
                f"C{int(obj.flags.c_contiguous)}F{int(obj.flags.f_contiguous)}"
                f"O{int(obj.flags.owndata)}W{int(obj.flags.writeable)}:")
        if obj.dtype == object:
            return head + canon(obj.tolist(), depth+1)
        return head + hashlib.sha256(np.ascontiguousarray(obj).tobytes()).hexdigest()
    if isinstance(obj, (list, tuple)):
        return f"{type(obj).__name__}[" + ",".join(canon(o, depth+1) for o in obj) + "]"
    if isinstance(obj, dict):
        items = [(canon(k, depth+1), canon(v, depth+1)) for k, v in obj.items()]
        return f"{type(obj).__name__}{{" + ",".join(f"{k}={v}" for k, v in sorted(items)) + "}"
    if isinstance(obj, (HvsrTraditional, HvsrAzimuthal, HvsrCurve)):
        return snapshot(obj, depth+1)
    if isinstance(obj, hvsrpy.SeismicRecording3C):
        return f"rec3c:{canon(obj.ns.amplitude, depth+1)}"
    return f"<{type(obj).__name__}>"


def _attr(obj, name, depth):
    try:
        return canon(getattr(obj, name), depth)
    except Exception as e:
        return f"<no {name}: {type(e).__name__}>"


def snapshot(obj, depth=0):
    if isinstance(obj, HvsrTraditional):
        names = ("frequency", "amplitude", "n_curves", "valid_window_boolean_mask",
                 "valid_peak_boolean_mask", "_main_peak_frq", "_main_peak_amp",
                 "_search_range_in_hz", "_find_peaks_kwargs", "meta")
        return "HT(" + ";".join(f"{n}={_attr(obj, n, depth)}" for n in names) + ")"
    if isinstance(obj, HvsrAzimuthal):
        names = ("azimuths", "meta", "hvsrs")
        return "HA(" + ";".join(f"{n}={_attr(obj, n, depth)}" for n in names) + ")"
    if isinstance(obj, HvsrCurve):
        names = ("frequency", "amplitude", "peak_frequency", "peak_amplitude",
                 "_search_range_in_hz", "_find_peaks_kwargs", "meta")
        return "HC(" + ";".join(f"{n}={_attr(obj, n, depth)}" for n in names) + ")"
    return canon(obj, depth)


def run(tag, fxn, *state):
    """Call ``fxn`` and record result or exception, warnings, logs and state."""
    REC.logs = []
    result = None
    with warnings.catch_warnings(record=True) as caught:
        warnings.simplefilter("always")
        try:
            result = fxn()
            outcome = "ok:" + canon(result)
        except Exception as e:
            REC.n_exceptions += 1
            context = type(e.__context__).__name__ if e.__context__ is not None else "-"
            outcome = f"raise:{type(e).__name__}:{_ADDRESS.sub('0x', str(e))}:ctx={context}"
    warns = [f"{w.category.__name__}:{_ADDRESS.sub('0x', str(w.message))}" for w in caught]
    REC.n_warnings += len(warns)
    REC.n_logs += len(REC.logs)
    REC.feed(f"[{tag}] {outcome}")
    REC.feed("W|" + "|".join(warns))
    REC.feed("L|" + "|".join(REC.logs))
    for obj in state:
        REC.feed("S|" + snapshot(obj))
    return result


# --------------------------------------------------------------------------
# inputs
# --------------------------------------------------------------------------

DISTRIBUTIONS = ["lognormal", "lognormal", "lognormal", "normal", "normal", "log-normal",
                 "LogNormal", "NORMAL", "bogus", None, 5]


class StrSubclass(str):
    pass


def pick(rng, options):
    return options[int(rng.integers(len(options)))]


def pick_distribution(rng):
    d = pick(rng, DISTRIBUTIONS)
    if d == "lognormal" and rng.random() < 0.1:
        return StrSubclass("lognormal")
    return d


def make_frequency(rng, n_freq):
    kind = int(rng.integers(5))
    if kind == 0:
        return np.linspace(0, float(rng.uniform(5, 30)), n_freq)
    if kind == 1:
        return np.linspace(0.2, 20, n_freq)
    return np.geomspace(float(rng.uniform(0.05, 0.5)), float(rng.uniform(10, 60)), n_freq)


def make_amplitude(rng, n_curves, n_freq, kind=None):
    x = np.linspace(0, 1, n_freq)
    amplitude = np.empty((n_curves, n_freq))
    center = rng.uniform(0.15, 0.85)
    bimodal = rng.random() < 0.3
    for i in range(n_curves):
        c = center + rng.normal(0, 0.08)
        if bimodal and rng.random() < 0.4:
            c = 1 - center + rng.normal(0, 0.05)
        width = rng.uniform(0.03, 0.2)
        row = 1 + rng.uniform(1, 6)*np.exp(-0.5*((x-c)/width)**2)
        row *= np.exp(rng.normal(0, 0.05, n_freq))
        amplitude[i] = row
    if kind is None:
        kind = pick(rng, ["plain"]*6 + ["flat_rows", "all_flat", "zeros", "monotonic",
                                        "plateau", "huge", "tiny", "rounded", "identical"])
    if kind == "flat_rows":
        for i in range(n_curves):
            if rng.random() < 0.35:
                amplitude[i] = rng.uniform(0.5, 3)
    elif kind == "all_flat":
        amplitude[:] = rng.uniform(0.5, 3, size=(n_curves, 1))
    elif kind == "zeros":
        amplitude[rng.random(amplitude.shape) < 0.1] = 0.
    elif kind == "monotonic":
        for i in range(n_curves):
            if rng.random() < 0.5:
                amplitude[i] = np.sort(amplitude[i])
    elif kind == "plateau":
        amplitude = np.round(amplitude*2)/2 + 0.5
    elif kind == "huge":
        amplitude *= 10.**rng.integers(90, 200)
    elif kind == "tiny":
        amplitude *= 10.**(-rng.integers(90, 200))
    elif kind == "rounded":
        amplitude = np.round(amplitude, 1) + 0.1
    elif kind == "identical":
        amplitude[:] = amplitude[0]
    return amplitude


def make_traditional(rng, max_curves=14, max_freq=40):
    n_curves = int(rng.integers(1, max_curves+1))
    n_freq = int(rng.integers(3, max_freq+1))
    frequency = make_frequency(rng, n_freq)
    amplitude = make_amplitude(rng, n_curves, n_freq)
    meta = pick(rng, [None, {"site": "a", "k": [1, 2]}, "not a dict"])
    return HvsrTraditional(frequency, amplitude, meta=meta)


def pick_search_range(rng, frequency):
    lo, hi = float(np.min(frequency)), float(np.max(frequency))
    a = float(rng.uniform(lo, hi))
    b = float(rng.uniform(lo, hi))
    a, b = min(a, b), max(a, b)
    options = [
        (None, None), (None, None), (a, b), (a, None), (None, b), [a, b], [None, None],
        (b, a), (int(a), int(b)+1), (np.float64(a), np.float64(b)), (hi*3, hi*4),
        (-5, lo/2), (a, a), (float("nan"), b), (float("inf"), None), (None, -float("inf")),
        (a, b, 3.), (a,), "ab", ("a", None), np.array([a, b]), (True, None), (1e200, None),
        (10**400, None), 7, None, (x for x in (a, b)),
    ]
    return pick(rng, options)


def pick_find_peaks_kwargs(rng, n_freq):
    options = [
        None, None, None, {}, {}, dict(height=1.5), dict(height=(1., 5.)), dict(height=(None, 4)),
        dict(prominence=0.5), dict(prominence=(0.1, None), width=1), dict(distance=2),
        dict(distance=0), dict(distance=1.5), dict(threshold=0.01), dict(plateau_size=1),
        dict(plateau_size=(2, 5)), dict(width=2, rel_height=0.7), dict(prominence=0.2, wlen=3),
        dict(prominence=0, wlen=2), dict(height=np.float64(1.2)), dict(height=np.full(n_freq, 1.2)),
        dict(height=np.full(n_freq+3, 1.2)), dict(height=(1., 2., 3.)), dict(height=[1., 4.]),
        dict(bogus=1), dict(height=True), dict(height=float("nan")), dict(distance=float("inf")),
        dict(distance=(1, 2)), dict(threshold=(0.001, 2.)), dict(height="a"),
        OrderedDict(height=1.1), [("height", 1.3)], 5, "ab", dict(height=1.5, distance=3),
        dict(distance=3, height=1.5), dict(height=1), dict(height=1.0),
    ]
    return pick(rng, options)


ERRSTATES = [None, None, None, None, dict(all="raise"), dict(under="raise"), dict(all="warn"),
             dict(all="ignore"), dict(divide="raise"), dict(invalid="ignore"), dict(over="raise")]


class errstate_or_not():
    def __init__(self, rng):
        self.kwargs = pick(rng, ERRSTATES)

    def __enter__(self):
        self.cm = None if self.kwargs is None else np.errstate(**self.kwargs)
        if self.cm is not None:
            self.cm.__enter__()
        return "default" if self.kwargs is None else repr(sorted(self.kwargs.items()))

    def __exit__(self, *args):
        if self.cm is not None:
            self.cm.__exit__(*args)


# --------------------------------------------------------------------------
# operations on HvsrTraditional
# --------------------------------------------------------------------------

STATS_0 = ["mean_curve", "std_curve", "mean_fn_frequency", "mean_fn_amplitude",
           "std_fn_frequency", "std_fn_amplitude", "cov_fn", "mean_curve_peak"]
STATS_N = ["nth_std_curve", "nth_std_fn_frequency", "nth_std_fn_amplitude"]
NS = [-2, -1, 0, 1, 2.5, np.float64(1.5), "a"]


def op_stat(rng, h, tag):
    name = pick(rng, STATS_0 + STATS_N)
    dist = pick_distribution(rng)
    use_default = rng.random() < 0.2
    as_keyword = rng.random() < 0.3
    with errstate_or_not(rng) as es:
        if name in STATS_N:
            n = pick(rng, NS)
            if use_default:
                fxn = lambda: getattr(h, name)(n)
            elif as_keyword:
                fxn = lambda: getattr(h, name)(n=n, distribution=dist)
            else:
                fxn = lambda: getattr(h, name)(n, dist)
            label = f"{tag}.{name}({n!r},{dist!r},{use_default},{es})"
        else:
            if use_default:
                fxn = lambda: getattr(h, name)()
            elif as_keyword:
                fxn = lambda: getattr(h, name)(distribution=dist)
            else:
                fxn = lambda: getattr(h, name)(dist)
            label = f"{tag}.{name}({dist!r},{use_default},{es})"
        first = run(label, fxn, h)
        if rng.random() < 0.6:
            # callers are free to edit what they receive.
            if isinstance(first, np.ndarray) and first.size and first.flags.writeable:
                first[...] = -7.
            second = run(label + "#again", fxn, h)
            if isinstance(first, np.ndarray) and isinstance(second, np.ndarray):
                REC.feed(f"shares:{np.shares_memory(first, second)}")


def op_props(rng, h, tag):
    run(f"{tag}.peak_frequencies", lambda: h.peak_frequencies, h)
    run(f"{tag}.peak_amplitudes", lambda: h.peak_amplitudes, h)
    a = run(f"{tag}.peaks_fresh", lambda: h.peak_frequencies is h.peak_frequencies)


def op_update_peaks(rng, h, tag):
    try:
        frequency = np.asarray(h.frequency, dtype=float)
        srange = pick_search_range(rng, frequency)
        kwargs = pick_find_peaks_kwargs(rng, len(frequency))
    except Exception:
        srange, kwargs = (None, None), None
    masks = _held_masks(h)
    style = int(rng.integers(4))
    with errstate_or_not(rng) as es:
        label = f"{tag}.update_peaks_bounded({canon(srange) if not hasattr(srange, 'send') else 'gen'},{canon(kwargs)},{style},{es})"
        if style == 0:
            run(label, lambda: h.update_peaks_bounded(srange, kwargs), h)
        elif style == 1:
            run(label, lambda: h.update_peaks_bounded(search_range_in_hz=srange, find_peaks_kwargs=kwargs), h)
        elif style == 2:
            run(label, lambda: h.update_peaks_bounded(find_peaks_kwargs=kwargs), h)
        else:
            run(label, lambda: h.update_peaks_bounded(srange), h)
        if rng.random() < 0.3 and not hasattr(srange, "send"):
            # same arguments again (early return or not).
            run(label + "#again", lambda: h.update_peaks_bounded(srange, kwargs), h)
    _check_held_masks(h, masks, tag)


def _held_masks(h):
    held = []
    for hvsr in (h.hvsrs if isinstance(h, HvsrAzimuthal) else [h]):
        try:
            held.append((hvsr, hvsr.valid_window_boolean_mask, hvsr.valid_peak_boolean_mask))
        except Exception:
            held.append((hvsr, None, None))
    return held


def _check_held_masks(h, held, tag):
    out = []
    for hvsr, wmask, pmask in held:
        try:
            out.append((hvsr.valid_window_boolean_mask is wmask, hvsr.valid_peak_boolean_mask is pmask,
                        canon(wmask), canon(pmask),
                        hvsr.valid_window_boolean_mask is hvsr.valid_peak_boolean_mask))
        except Exception as e:
            out.append(type(e).__name__)
    REC.feed(f"[{tag}] held masks: {out!r}")


def op_mask_edit(rng, h, tag):
    n = h.n_curves
    which = pick(rng, ["valid_window_boolean_mask", "valid_peak_boolean_mask", "both"])
    names = ["valid_window_boolean_mask", "valid_peak_boolean_mask"] if which == "both" else [which]
    kind = int(rng.integers(4))
    value = bool(rng.random() < 0.4)
    i = int(rng.integers(0, n))
    j = int(rng.integers(i, n+1))
    for name in names:
        if kind == 0:
            def fxn():
                getattr(h, name)[i] = value
        elif kind == 1:
            def fxn():
                getattr(h, name)[i:j] = value
        elif kind == 2:
            def fxn():
                getattr(h, name)[:] = True
        else:
            flips = rng.random(n) < 0.3

            def fxn():
                m = getattr(h, name)
                m[flips] = ~m[flips]
        run(f"{tag}.{name}[edit {kind},{i},{j},{value}]", fxn, h)


def op_mask_assign(rng, h, tag, kind=None):
    n = h.n_curves
    kind = int(rng.integers(16)) if kind is None else kind
    base = rng.random(n) < 0.7
    if not base.any():
        base[int(rng.integers(n))] = True
    held = _held_masks(h)
    if kind == 0:
        w, p = base.copy(), base.copy()
    elif kind == 1:
        w = base.copy()
        p = w  # one and the same array.
    elif kind == 2:
        w, p = base.tolist(), base.tolist()
    elif kind == 3:
        w, p = base.astype(int), base.astype(int)
    elif kind == 4:
        w, p = np.ones(n+2, dtype=bool), np.ones(n+2, dtype=bool)
    elif kind == 5:
        w, p = np.ones(max(n-1, 0), dtype=bool), np.ones(max(n-1, 0), dtype=bool)
    elif kind == 6:
        big = np.repeat(base, 2)
        w, p = big[::2], np.repeat(base, 2)[::2]  # not contiguous.
    elif kind == 7:
        w, p = base.copy(), base.copy()
        w.flags.writeable = False
    elif kind == 8:
        buf = np.concatenate([base, [True]])
        w, p = buf[:n], buf[1:]  # overlapping.
    elif kind == 9:
        w, p = base.copy(), (base & (rng.random(n) < 0.8))
    elif kind == 10:
        w, p = np.zeros(n, dtype=bool), np.zeros(n, dtype=bool)
    elif kind == 11:
        w, p = None, None
    elif kind == 12:
        w, p = base.copy(), None
        p = base.copy()
        p.flags.writeable = False
    elif kind == 13:
        w = base.copy()
        p = w[:]  # distinct objects, same memory.
    elif kind == 14:
        w, p = np.ma.masked_array(base.copy()), base.copy()
    else:
        one = np.zeros(n, dtype=bool)
        one[int(rng.integers(n))] = True
        w, p = one, one.copy()

    def fxn():
        if kind % 2:
            h.valid_window_boolean_mask = w
            h.valid_peak_boolean_mask = p
        else:
            h.valid_peak_boolean_mask = p
            setattr(h, "valid_window_boolean_mask", w)
        return (h.valid_window_boolean_mask is w, h.valid_peak_boolean_mask is p)
    run(f"{tag}.mask_assign[{kind}]", fxn, h)
    _check_held_masks(h, held, tag)


def op_amplitude_edit(rng, h, tag, kind=None):
    kind = int(rng.integers(12)) if kind is None else kind
    try:
        n, m = h.amplitude.shape
    except Exception:
        return
    i, j = int(rng.integers(n)), int(rng.integers(m))
    value = pick(rng, [0., 1e-3, 5., 2.25, float("nan"), float("inf"), 1e200, 1e-200, -1.])

    def fxn():
        if kind <= 4:
            h.amplitude[i, j] = value if kind else 3.5
        elif kind == 5:
            h.amplitude[i] *= 1.5
        elif kind == 6:
            h.amplitude = np.asfortranarray(h.amplitude)
        elif kind == 7:
            h.amplitude = h.amplitude.astype(np.float32)
        elif kind == 8:
            h.amplitude = np.array(h.amplitude)[:, ::-1]
        elif kind == 9:
            h.amplitude = np.vstack([h.amplitude, h.amplitude[:1]*1.1])
        elif kind == 10:
            h.amplitude = np.array(h.amplitude)[:, :-1]
        else:
            h.amplitude = np.array(h.amplitude).tolist()
    run(f"{tag}.amplitude_edit[{kind},{i},{j},{value!r}]", fxn, h)


def op_frequency_edit(rng, h, tag):
    kind = int(rng.integers(7))

    def fxn():
        if kind == 0:
            h.frequency[int(rng.integers(len(h.frequency)))] *= 1.01
        elif kind == 1:
            h.frequency = np.array(h.frequency)*2
        elif kind == 2:
            h.frequency = np.array(h.frequency)[:-1]
        elif kind == 3:
            h.frequency = np.array(h.frequency).astype(np.float32)
        elif kind == 4:
            h.frequency = list(np.array(h.frequency))
        elif kind == 5:
            h.frequency[0] = float("inf")
        else:
            h.frequency = np.concatenate([h.frequency, [h.frequency[-1]*2]])
    run(f"{tag}.frequency_edit[{kind}]", fxn, h)


def op_fdwra(rng, h, tag):
    try:
        frequency = np.asarray(h.frequency, dtype=float)
        srange = pick_search_range(rng, frequency) if rng.random() < 0.5 else (None, None)
        kwargs = pick_find_peaks_kwargs(rng, len(frequency)) if rng.random() < 0.4 else None
    except Exception:
        srange, kwargs = (None, None), None
    if hasattr(srange, "send"):
        srange = (None, None)
    n = pick(rng, [2, 2, 1, 1.5, 0.5, 3, 0, -1, np.float64(2.)])
    max_iterations = pick(rng, [50, 50, 1, 2, 3, 0, 10])
    d_fn, d_mc = pick_distribution(rng), pick_distribution(rng)
    if rng.random() < 0.6:
        d_fn, d_mc = pick(rng, ["lognormal", "normal"]), pick(rng, ["lognormal", "normal"])
    held = _held_masks(h)
    with errstate_or_not(rng) as es:
        label = f"{tag}.fdwra(n={n!r},it={max_iterations},{d_fn!r},{d_mc!r},{canon(srange)},{canon(kwargs)},{es})"
        run(label, lambda: hvsrpy.frequency_domain_window_rejection(
            h, n=n, max_iterations=max_iterations, distribution_fn=d_fn,
            distribution_mc=d_mc, search_range_in_hz=srange, find_peaks_kwargs=kwargs), h)
    _check_held_masks(h, held, tag)


def op_copies(rng, h, tag):
    kind = int(rng.integers(4))
    if kind == 0:
        other = run(f"{tag}.deepcopy", lambda: copy.deepcopy(h))
    elif kind == 1:
        protocol = int(rng.integers(0, pickle.HIGHEST_PROTOCOL+1))
        other = run(f"{tag}.pickle[{protocol}]", lambda: pickle.loads(pickle.dumps(h, protocol=protocol)))
    elif kind == 2:
        other = run(f"{tag}.copy", lambda: copy.copy(h))
    else:
        def rebuild():
            if isinstance(h, HvsrAzimuthal):
                return HvsrAzimuthal(h.hvsrs, h.azimuths, meta=h.meta)
            return HvsrTraditional(h.frequency, h.amplitude, meta=h.meta)
        other = run(f"{tag}.rebuild", rebuild)
    if other is None:
        return h
    run(f"{tag}.eq", lambda: (h == other, other == h, h != other, h.is_similar(other)), h, other)
    # diverge the copy, then evaluate both.
    target = other.hvsrs[0] if isinstance(other, HvsrAzimuthal) else other

    def diverge():
        mask = np.array(target.valid_window_boolean_mask)
        mask[int(rng.integers(len(mask)))] ^= True
        target.valid_window_boolean_mask = mask
        target.valid_peak_boolean_mask = mask.copy()
    run(f"{tag}.diverge", diverge, h, other)
    for obj, name in ((h, "orig"), (other, "copy"), (h, "orig")):
        run(f"{tag}.{name}.mean_curve", lambda: obj.mean_curve(), obj)
        run(f"{tag}.{name}.std_fn_frequency", lambda: obj.std_fn_frequency("normal"), obj)
        run(f"{tag}.{name}.mean_curve_peak", lambda: obj.mean_curve_peak(), obj)
    return other if rng.random() < 0.3 else h


def op_misc(rng, h, tag):
    run(f"{tag}.repr", lambda: hashlib.sha256(repr(h).encode()).hexdigest())
    run(f"{tag}.str", lambda: str(h).startswith(type(h).__name__ + " at "))
    run(f"{tag}.hash", lambda: hash(h))
    run(f"{tag}.eq_self", lambda: (h == h, h == 5, h.is_similar(None)))
    run(f"{tag}.has", lambda: (hasattr(h, "valid_window_boolean_mask"),
                               isinstance(h, HvsrTraditional), isinstance(h, HvsrAzimuthal)))


TRADITIONAL_OPS = ([op_stat]*9 + [op_update_peaks]*3 + [op_mask_edit]*3 + [op_mask_assign]*2
                   + [op_fdwra]*3 + [op_props, op_amplitude_edit, op_frequency_edit, op_copies, op_misc])


def scenario_traditional(seed):
    rng = np.random.default_rng(seed)
    tag = f"T{seed}"
    h = run(f"{tag}.init", lambda: make_traditional(rng, max_curves=60 if seed % 10 == 0 else 14))
    if h is None:
        return
    REC.feed("S|" + snapshot(h))
    n_ops = int(rng.integers(6, 22))
    for k in range(n_ops):
        op = pick(rng, TRADITIONAL_OPS)
        out = op(rng, h, f"{tag}.{k}")
        if isinstance(out, HvsrTraditional):
            h = out
    if rng.random() < 0.1:
        run(f"{tag}.del", lambda: delattr(h, "valid_window_boolean_mask"))
        run(f"{tag}.after_del", lambda: h.mean_curve())
        run(f"{tag}.after_del2", lambda: h.valid_window_boolean_mask)
        run(f"{tag}.del_again", lambda: delattr(h, "valid_window_boolean_mask"))

        def restore():
            h.valid_window_boolean_mask = np.ones(h.n_curves, dtype=bool)
        run(f"{tag}.restore", restore, h)
        run(f"{tag}.after_restore", lambda: h.mean_curve(), h)


# --------------------------------------------------------------------------
# operations on HvsrAzimuthal
# --------------------------------------------------------------------------

AZ_STATS_0 = STATS_0 + ["mean_curve_by_azimuth", "mean_curve_peak_by_azimuth"]


def make_azimuthal(rng, big=False):
    n_az = int(rng.integers(1, 6))
    n_freq = int(rng.integers(3, 30))
    frequency = make_frequency(rng, n_freq)
    same_count = rng.random() < 0.6
    n_curves = int(rng.integers(1, 90 if big else 9))
    kind = pick(rng, [None, None, None, "plain", "plain", "flat_rows", "zeros"])
    hvsrs, azimuths = [], []
    for k in range(n_az):
        n = n_curves if same_count else int(rng.integers(1, 9))
        hvsrs.append(HvsrTraditional(frequency, make_amplitude(rng, n, n_freq, kind=kind),
                                     meta={"azimuth index": k}))
        azimuths.append(float(k*180/n_az) if rng.random() < 0.9 else int(k*180/n_az))
    meta = pick(rng, [None, {"site": "b"}])
    return HvsrAzimuthal(hvsrs, azimuths, meta=meta)


def op_az_stat(rng, h, tag):
    name = pick(rng, AZ_STATS_0 + STATS_N)
    dist = pick_distribution(rng)
    use_default = rng.random() < 0.2
    with errstate_or_not(rng) as es:
        if name in STATS_N:
            n = pick(rng, NS)
            fxn = (lambda: getattr(h, name)(n)) if use_default else (lambda: getattr(h, name)(n, dist))
            label = f"{tag}.{name}({n!r},{dist!r},{use_default},{es})"
        else:
            fxn = (lambda: getattr(h, name)()) if use_default else (lambda: getattr(h, name)(dist))
            label = f"{tag}.{name}({dist!r},{use_default},{es})"
        if name.endswith("_by_azimuth") and len(h.hvsrs) < len(h.azimuths):
            # rows beyond the last member are never written by the package
            # (uninitialised memory, before and after), do not record them.
            inner, n_rows = fxn, len(h.hvsrs)

            def fxn():
                out = inner()
                if isinstance(out, tuple):
                    return tuple(o[:n_rows].copy() for o in out)
                return out[:n_rows].copy()
        first = run(label, fxn, h)
        if rng.random() < 0.6:
            if isinstance(first, np.ndarray) and first.size:
                first[...] = -7.
            second = run(label + "#again", fxn, h)
            if isinstance(first, np.ndarray) and isinstance(second, np.ndarray):
                REC.feed(f"shares:{np.shares_memory(first, second)}")


def op_az_props(rng, h, tag):
    run(f"{tag}.props", lambda: (h.peak_frequencies, h.peak_amplitudes, h.n_azimuths, h.amplitude,
                                 h.frequency, h.frequency is h.hvsrs[0].frequency,
                                 h._search_range_in_hz, h._find_peaks_kwargs), h)
    run(f"{tag}.weights", lambda: (h._compute_statistical_weights(),
                                   h._compute_statistical_weights(for_curves=True)))


def op_az_child(rng, h, tag):
    if not h.hvsrs:
        return
    k = int(rng.integers(len(h.hvsrs)))
    child = h.hvsrs[k]
    op = pick(rng, [op_mask_edit]*4 + [op_mask_assign]*3 + [op_amplitude_edit, op_frequency_edit,
                                                          op_update_peaks, op_stat, op_fdwra])
    op(rng, child, f"{tag}.child{k}")
    REC.feed("S|" + snapshot(h))


def op_az_structure(rng, h, tag):
    kind = int(rng.integers(5))

    def fxn():
        if kind == 0 and len(h.hvsrs) > 1:
            h.hvsrs.pop()
        elif kind == 1 and len(h.hvsrs) > 1:
            h.hvsrs.pop()
            h.azimuths.pop()
        elif kind == 2:
            h.hvsrs.append(copy.deepcopy(h.hvsrs[0]))
            h.azimuths.append(179.)
        elif kind == 3:
            h.hvsrs[0], h.hvsrs[-1] = h.hvsrs[-1], h.hvsrs[0]
        else:
            h.hvsrs[-1] = HvsrTraditional(h.hvsrs[-1].frequency, h.hvsrs[-1].amplitude*1.1)
    run(f"{tag}.structure[{kind}]", fxn, h)


AZIMUTHAL_OPS = ([op_az_stat]*10 + [op_az_child]*6 + [op_update_peaks]*3 + [op_fdwra]*3
                 + [op_az_props, op_az_structure, op_copies, op_misc])


def scenario_azimuthal(seed):
    rng = np.random.default_rng(10_000 + seed)
    tag = f"A{seed}"
    h = run(f"{tag}.init", lambda: make_azimuthal(rng, big=(seed % 8 == 0)))
    if h is None:
        return
    REC.feed("S|" + snapshot(h))
    n_ops = int(rng.integers(5, 18))
    for k in range(n_ops):
        op = pick(rng, AZIMUTHAL_OPS)
        out = op(rng, h, f"{tag}.{k}")
        if isinstance(out, HvsrAzimuthal):
            h = out
    if rng.random() < 0.1:
        run(f"{tag}.clear", lambda: h.hvsrs.clear())
        for name in ("mean_fn_frequency", "std_fn_amplitude", "mean_curve", "cov_fn"):
            run(f"{tag}.after_clear.{name}", lambda: getattr(h, name)())
        run(f"{tag}.after_clear.weights", lambda: h._compute_statistical_weights())


def scenario_constructors(seed):
    rng = np.random.default_rng(20_000 + seed)
    tag = f"C{seed}"
    n_freq = int(rng.integers(3, 20))
    frequency = make_frequency(rng, n_freq)
    amplitude = make_amplitude(rng, int(rng.integers(1, 6)), n_freq)
    bad = pick(rng, ["none", "nan", "negative", "shape", "text", "1d", "empty", "zero_rows", "inf"])
    f, a = frequency, amplitude
    if bad == "nan":
        a = a.copy()
        a[0, 0] = np.nan
    elif bad == "negative":
        f = -f
    elif bad == "shape":
        a = a[:, :-1]
    elif bad == "text":
        a = [["a"]*n_freq]
    elif bad == "1d":
        a = a[0]
    elif bad == "empty":
        f, a = [], []
    elif bad == "zero_rows":
        a = np.empty((0, n_freq))
    elif bad == "inf":
        a = a.copy()
        a[0, 1] = np.inf
    h = run(f"{tag}.traditional[{bad}]", lambda: HvsrTraditional(f, a, meta={"x": 1}))
    if h is not None:
        REC.feed("S|" + snapshot(h))
        run(f"{tag}.owns", lambda: (np.shares_memory(h.amplitude, np.asarray(a, dtype=float)),
                                    h.valid_window_boolean_mask is h.valid_peak_boolean_mask,
                                    "_masks_unpublished" in vars(h)))
        for name in STATS_0:
            run(f"{tag}.{name}", lambda: getattr(h, name)(), h)
        run(f"{tag}.update", lambda: h.update_peaks_bounded((None, 3.)), h)
        run(f"{tag}.fdwra", lambda: hvsrpy.frequency_domain_window_rejection(h), h)

    # HvsrCurve and from_hvsr_curves.
    curves = run(f"{tag}.curves", lambda: [HvsrCurve(frequency, row, meta={"i": 1}) for row in amplitude])
    if curves:
        c = curves[0]
        run(f"{tag}.curve.update", lambda: c.update_peaks_bounded(pick_search_range(rng, frequency),
                                                                  pick_find_peaks_kwargs(rng, n_freq)), c)
        run(f"{tag}.curve.update2", lambda: c.update_peaks_bounded(), c)
        run(f"{tag}.curve.eq", lambda: (c == curves[-1], c == c, c == 5, c.is_similar(curves[-1])))
        run(f"{tag}.from_curves", lambda: HvsrTraditional.from_hvsr_curves(curves, meta={"y": 2}))
        run(f"{tag}.from_curves.tuple", lambda: HvsrTraditional.from_hvsr_curves(tuple(curves)))
        other = HvsrCurve(frequency*1.5, amplitude[0])
        run(f"{tag}.from_curves.dissimilar", lambda: HvsrTraditional.from_hvsr_curves(curves + [other]))
        run(f"{tag}.from_curves.empty", lambda: HvsrTraditional.from_hvsr_curves([]))
        run(f"{tag}.from_curves.wrong", lambda: HvsrTraditional.from_hvsr_curves([1, 2]))

    # HvsrAzimuthal constructor.
    if h is not None:
        run(f"{tag}.az.bad_azimuth", lambda: HvsrAzimuthal([h, h], [0, 190]))
        run(f"{tag}.az.bad_type", lambda: HvsrAzimuthal([h, 5], [0, 10]))
        run(f"{tag}.az.empty", lambda: HvsrAzimuthal([], []))
        run(f"{tag}.az.short", lambda: HvsrAzimuthal([h, h, h], ["10", 20.5]))
        if len(h.frequency):
            other = HvsrTraditional(np.array(h.frequency)*1.3, h.amplitude)
        else:
            other = HvsrTraditional([1., 2.], [[1., 2.]])
        run(f"{tag}.az.dissimilar", lambda: HvsrAzimuthal([h, other], [0, 10]))

        def masks_not_copied():
            h.valid_window_boolean_mask[:] = False
            az = HvsrAzimuthal([h], [0])
            return (az.hvsrs[0] is h, az.hvsrs[0].valid_window_boolean_mask)
        run(f"{tag}.az.masks", masks_not_copied)


# --------------------------------------------------------------------------
# time-domain rejection, manual rejection and files
# --------------------------------------------------------------------------

def make_records(rng, n_records):
    dt = pick(rng, [0.01, 0.02, 0.005])
    n_samples = int(rng.integers(400, 1500))
    records = []
    for k in range(n_records):
        components = []
        for _ in range(3):
            x = rng.normal(0, 1, n_samples)
            if rng.random() < 0.25:
                start = int(rng.integers(0, n_samples-20))
                x[start:start+20] *= rng.uniform(3, 30)
            if rng.random() < 0.05:
                x[:] = 0.
            components.append(hvsrpy.TimeSeries(x, dt))
        records.append(hvsrpy.SeismicRecording3C(*components, degrees_from_north=0))
    return records, dt, n_samples


def scenario_time_domain(seed):
    rng = np.random.default_rng(30_000 + seed)
    tag = f"D{seed}"
    n_records = int(rng.integers(1, 12))
    records, dt, n_samples = make_records(rng, n_records)
    duration = dt*n_samples
    container = pick(rng, ["list", "tuple", "list"])
    given = records if container == "list" else tuple(records)

    n_curves = n_records if rng.random() < 0.8 else n_records + 1
    n_freq = int(rng.integers(4, 25))
    frequency = make_frequency(rng, n_freq)
    target = pick(rng, ["none", "traditional", "traditional", "azimuthal", "azimuthal", "wrong", "curve"])
    if target == "traditional":
        hvsr = HvsrTraditional(frequency, make_amplitude(rng, n_curves, n_freq, kind="plain"))
    elif target == "azimuthal":
        hvsr = HvsrAzimuthal([HvsrTraditional(frequency, make_amplitude(rng, n_curves, n_freq, kind="plain"))
                              for _ in range(3)], [0, 60, 120])
    elif target == "wrong":
        hvsr = "not an hvsr"
    elif target == "curve":
        hvsr = HvsrCurve(frequency, make_amplitude(rng, 1, n_freq, kind="plain")[0])
    else:
        hvsr = None
    held = _held_masks(hvsr) if target in ("traditional", "azimuthal") else []

    def identify(passing):
        return [next(i for i, r in enumerate(records) if r is p) for p in passing], type(passing).__name__

    if rng.random() < 0.7:
        sta = pick(rng, [0.5, 1, 1, 2, 0.1, duration*2, 0.001, duration/3])
        lta = pick(rng, [duration/2, duration*0.9, duration, duration*2, 3])
        lo = pick(rng, [0.2, 0.5, 0.05, 0.])
        hi = pick(rng, [2.5, 1.5, 4., 10.])
        components = pick(rng, [("ns", "ew", "vt"), ("vt",), ["ns", "ew"], (), ("ns", "bogus")])
        kwargs = dict(sta_seconds=sta, lta_seconds=lta, min_sta_lta_ratio=lo, max_sta_lta_ratio=hi,
                      components=components)
        if hvsr is not None or rng.random() < 0.5:
            kwargs["hvsr"] = hvsr
        run(f"{tag}.sta_lta({sta!r},{lta!r},{lo},{hi},{components!r},{target},{container})",
            lambda: identify(hvsrpy.sta_lta_window_rejection(given, **kwargs)),
            *([hvsr] if target != "none" and target != "wrong" else []))
    else:
        threshold = pick(rng, [0.9, 0.5, 0.3, 1.0, 4., 20.])
        normalized = bool(rng.random() < 0.6)
        components = pick(rng, [("ns", "ew", "vt"), ("vt",), ["ns", "ew"], ()])
        run(f"{tag}.max_value({threshold},{normalized},{components!r},{target},{container})",
            lambda: identify(hvsrpy.maximum_value_window_rejection(given, maximum_value_threshold=threshold,
                                                                   normalized=normalized, components=components,
                                                                   hvsr=hvsr)),
            *([hvsr] if target != "none" and target != "wrong" else []))
    if held:
        _check_held_masks(hvsr, held, tag)
        members = hvsr.hvsrs if target == "azimuthal" else [hvsr]
        run(f"{tag}.distinct", lambda: [m.valid_window_boolean_mask is m.valid_peak_boolean_mask for m in members]
            + [members[0].valid_window_boolean_mask is members[-1].valid_window_boolean_mask
               if len(members) > 1 else None])
        for name in ("mean_curve", "std_curve", "mean_fn_frequency", "std_fn_frequency", "mean_curve_peak"):
            run(f"{tag}.after.{name}", lambda: getattr(hvsr, name)(), hvsr)
        run(f"{tag}.after.fdwra", lambda: hvsrpy.frequency_domain_window_rejection(hvsr), hvsr)
        run(f"{tag}.after.update", lambda: hvsr.update_peaks_bounded((None, None)), hvsr)
        _check_held_masks(hvsr, held, tag)


def scenario_manual(seed):
    rng = np.random.default_rng(40_000 + seed)
    tag = f"M{seed}"
    n_freq = int(rng.integers(8, 25))
    frequency = np.geomspace(0.2, 20, n_freq)
    kind = pick(rng, ["traditional", "azimuthal", "wrong"])
    if kind == "traditional":
        hvsr = HvsrTraditional(frequency, make_amplitude(rng, int(rng.integers(3, 9)), n_freq, kind="plain"))
    elif kind == "azimuthal":
        hvsr = HvsrAzimuthal([HvsrTraditional(frequency, make_amplitude(rng, int(rng.integers(3, 7)), n_freq, kind="plain"))
                              for _ in range(2)], [0, 90])
    else:
        hvsr = HvsrCurve(frequency, make_amplitude(rng, 1, n_freq, kind="plain")[0])
    held = _held_masks(hvsr) if kind != "wrong" else []
    script = []
    for _ in range(int(rng.integers(0, 3))):
        x0, x1 = sorted(rng.uniform(0.3, 15, 2))
        y0, y1 = sorted(rng.uniform(1.5, 6, 2))
        script.append(((x0, x1), (y0, y1)))
    script.append(((1e-9, 1.1e-9), (1e3, 1.1e3)))  # selects nothing and is not the button.
    script.append("continue")
    calls = []

    def fake_ginput_session(fig, ax, **kwargs):
        action = script.pop(0)
        calls.append(sorted(kwargs.items()))
        if action == "continue":
            x = interact._relative_to_absolute(0.06, ax.get_xlim(), scale=ax.get_xscale())
            y = interact._relative_to_absolute(0.94, ax.get_ylim(), scale=ax.get_yscale())
            return ((x, x), (y, y))
        return action

    original = wr.ginput_session
    wr.ginput_session = fake_ginput_session
    try:
        kwargs = dict(distribution_mc=pick(rng, ["lognormal", "normal"]),
                      distribution_fn=pick(rng, ["lognormal", "normal"]),
                      search_range_in_hz=pick(rng, [(None, None), (0.5, 10.)]),
                      find_peaks_kwargs=pick(rng, [None, dict(height=1.1)]),
                      y_limit=pick(rng, [None, 8.]))
        run(f"{tag}.manual({kind},{canon(kwargs)})",
            lambda: (wr.manual_window_rejection(hvsr, **kwargs), len(script), calls), hvsr)
    finally:
        wr.ginput_session = original
        plt.close("all")
    if held:
        _check_held_masks(hvsr, held, tag)


def scenario_files(seed, tmpdir):
    rng = np.random.default_rng(50_000 + seed)
    tag = f"F{seed}"
    if seed % 2:
        hvsr = make_azimuthal(rng)
    else:
        hvsr = make_traditional(rng)
    hvsr.meta = {"site": "c"} if not isinstance(hvsr.meta, dict) else hvsr.meta
    run(f"{tag}.fdwra", lambda: hvsrpy.frequency_domain_window_rejection(hvsr, n=pick(rng, [1, 2])), hvsr)
    target = hvsr.hvsrs[-1] if isinstance(hvsr, HvsrAzimuthal) else hvsr
    target.valid_window_boolean_mask[:int(rng.integers(0, target.n_curves))] = False
    fname = os.path.join(tmpdir, f"{tag}.csv")
    d_mc, d_fn = pick(rng, ["lognormal", "normal"]), pick(rng, ["lognormal", "normal", "bogus"])

    def write():
        hvsrpy.object_io.write_hvsr_object_to_file(hvsr, fname, distribution_mc=d_mc, distribution_fn=d_fn)
        with open(fname, "rb") as f:
            return hashlib.sha256(f.read()).hexdigest()
    run(f"{tag}.write({d_mc},{d_fn})", write, hvsr)
    run(f"{tag}.write_again", write, hvsr)
    if os.path.exists(fname):
        back = run(f"{tag}.read", lambda: hvsrpy.object_io.read_hvsr_object_from_file(fname))
        if back is not None:
            run(f"{tag}.read.eq", lambda: (back == hvsr, hvsr == back))
            run(f"{tag}.read.stats", lambda: (back.mean_curve(), back.std_curve(), back.mean_fn_frequency(),
                                              back.mean_curve_peak()), back)
        os.remove(fname)


def scenario_long_sequences(seed):
    """Many evaluations of the same object, masks edited in place between them."""
    rng = np.random.default_rng(60_000 + seed)
    tag = f"L{seed}"
    n_curves, n_freq = int(rng.integers(20, 200)), int(rng.integers(10, 60))
    frequency = np.geomspace(0.1, 50, n_freq)
    if seed % 2:
        h = HvsrTraditional(frequency, make_amplitude(rng, n_curves, n_freq, kind="plain"))
        members = [h]
    else:
        h = HvsrAzimuthal([HvsrTraditional(frequency, make_amplitude(rng, n_curves, n_freq, kind="plain"))
                           for _ in range(int(rng.integers(1, 5)))],
                          list(np.arange(4)*40.))
        members = h.hvsrs
    for k in range(150 if seed < 2 else 40):
        m = pick(rng, members)
        i = int(rng.integers(m.n_curves))
        m.valid_window_boolean_mask[i] = not m.valid_window_boolean_mask[i]
        if rng.random() < 0.7:
            m.valid_peak_boolean_mask[i] = m.valid_window_boolean_mask[i]
        if rng.random() < 0.2:
            m.amplitude[i, int(rng.integers(n_freq))] *= 1.25
        if rng.random() < 0.1 and seed >= 2:
            h.update_peaks_bounded(pick(rng, [(None, None), (0.5, 20.), (1, None)]),
                                   pick(rng, [None, dict(height=1.2), dict(prominence=0.3)]))
        dist = pick(rng, ["lognormal", "normal"])
        for name in pick(rng, [("mean_curve", "std_curve"), ("mean_fn_frequency", "std_fn_frequency"),
                               ("mean_curve_peak", "mean_curve"), ("nth_std_curve",), ("cov_fn", "std_fn_amplitude")]):
            if name == "nth_std_curve":
                run(f"{tag}.{k}.{name}({dist})", lambda: h.nth_std_curve(-1, dist))
            else:
                run(f"{tag}.{k}.{name}({dist})", lambda: getattr(h, name)(dist))
    run(f"{tag}.final", lambda: hvsrpy.frequency_domain_window_rejection(h), h)


def _follow_ups(rng, h, tag, follow_up):
    """What is observable after masks or amplitudes were replaced or edited."""
    held = _held_masks(h)
    members = h.hvsrs if isinstance(h, HvsrAzimuthal) else [h]
    if follow_up == 0:
        run(f"{tag}.update", lambda: h.update_peaks_bounded(), h)
    elif follow_up == 1:
        run(f"{tag}.update", lambda: h.update_peaks_bounded((0.3, 12.), dict(height=1.2)), h)
    elif follow_up == 2:
        run(f"{tag}.update", lambda: h.update_peaks_bounded((None, 9), dict(prominence=0.3)), h)
    elif follow_up == 3:
        run(f"{tag}.fdwra", lambda: hvsrpy.frequency_domain_window_rejection(h, n=1.5), h)
    elif follow_up == 4:
        run(f"{tag}.fdwra", lambda: hvsrpy.frequency_domain_window_rejection(
            h, n=1, distribution_fn="normal", distribution_mc="normal",
            search_range_in_hz=(0.5, None), find_peaks_kwargs=dict(distance=2)), h)
    elif follow_up == 5:
        # all curves flat.
        def flatten():
            for member in members:
                member.amplitude[:] = 2.
            h.update_peaks_bounded((None, 11.))
        run(f"{tag}.flat", flatten, h)
    _check_held_masks(h, held, tag)
    for dist in ("lognormal", "normal"):
        for name in STATS_0:
            run(f"{tag}.{name}({dist})", lambda: getattr(h, name)(dist))
            run(f"{tag}.{name}({dist})#again", lambda: getattr(h, name)(dist))
        run(f"{tag}.nth({dist})", lambda: (h.nth_std_curve(1, dist), h.nth_std_fn_frequency(-1, dist),
                                           h.nth_std_fn_amplitude(2, dist)))
    with np.errstate(all="raise"):
        run(f"{tag}.strict", lambda: (h.mean_curve(), h.std_curve(), h.mean_fn_frequency(), h.std_fn_frequency()))
    run(f"{tag}.relaxed", lambda: (h.mean_curve(), h.std_curve(), h.mean_fn_frequency(), h.std_fn_frequency()), h)
    _check_held_masks(h, held, tag)


def scenario_directed(seed):
    """Every kind of mask replacement (amplitude edit) times every follow up."""
    rng = np.random.default_rng(70_000 + seed)
    tag = f"X{seed}"
    n_freq = int(rng.integers(6, 25))
    frequency = np.geomspace(0.2, 20, n_freq)
    for kind in range(16):
        for follow_up in range(6):
            for flavour in ("traditional", "azimuthal"):
                n_curves = int(rng.integers(2, 10))
                amplitude_kind = pick(rng, ["plain", "plain", "flat_rows", "zeros"])
                if flavour == "traditional":
                    h = HvsrTraditional(frequency, make_amplitude(rng, n_curves, n_freq, kind=amplitude_kind))
                    member = h
                else:
                    h = HvsrAzimuthal([HvsrTraditional(frequency, make_amplitude(rng, n_curves, n_freq,
                                                                                kind=amplitude_kind))
                                       for _ in range(int(rng.integers(1, 4)))], [0, 60, 120])
                    member = pick(rng, h.hvsrs)
                label = f"{tag}.{flavour}.{kind}.{follow_up}"
                run(f"{label}.warm", lambda: (h.mean_curve(), h.mean_fn_frequency(), h.mean_curve_peak()))
                if seed % 2:
                    if kind >= 12:
                        continue
                    op_amplitude_edit(rng, member, label, kind=kind)
                else:
                    op_mask_assign(rng, member, label, kind=kind)
                REC.feed("S|" + snapshot(h))
                _follow_ups(rng, h, label, follow_up)


def scenario_warnings_as_errors(seed):
    """Warnings turned into errors part way through an update or a statistic."""
    rng = np.random.default_rng(80_000 + seed)
    tag = f"W{seed}"
    n_curves, n_freq = int(rng.integers(3, 10)), int(rng.integers(8, 25))
    frequency = np.geomspace(0.2, 20, n_freq)
    amplitude = make_amplitude(rng, n_curves, n_freq, kind=pick(rng, ["plateau", "zeros", "plain", "flat_rows"]))
    # a wide plateau in some (not the first) curve makes find_peaks warn.
    k = int(rng.integers(1, n_curves))
    amplitude[k, 2:7] = amplitude[k].max() + 1
    if seed % 2:
        h = HvsrTraditional(frequency, amplitude)
    else:
        h = HvsrAzimuthal([HvsrTraditional(frequency, amplitude), HvsrTraditional(frequency, amplitude[::-1])], [0, 90])
    held = _held_masks(h)

    def strictly(fxn):
        def wrapped():
            with warnings.catch_warnings():
                warnings.simplefilter("error")
                return fxn()
        return wrapped
    kwargs = pick(rng, [dict(prominence=0, wlen=2), dict(prominence=0.1, wlen=3), dict(width=0, wlen=2),
                        dict(height=1.), dict(prominence=(None, 0.5), wlen=3.5)])
    srange = pick(rng, [(None, None), (0.3, 15.)])
    run(f"{tag}.update({canon(kwargs)},{canon(srange)})", strictly(lambda: h.update_peaks_bounded(srange, kwargs)), h)
    _check_held_masks(h, held, tag)
    for name in STATS_0:
        run(f"{tag}.{name}", strictly(lambda: getattr(h, name)()), h)
        run(f"{tag}.{name}#relaxed", lambda: getattr(h, name)(), h)
    run(f"{tag}.fdwra", strictly(lambda: hvsrpy.frequency_domain_window_rejection(
        h, find_peaks_kwargs=kwargs, search_range_in_hz=srange)), h)
    run(f"{tag}.update#relaxed", lambda: h.update_peaks_bounded(srange, kwargs), h)
    run(f"{tag}.fdwra#relaxed", lambda: hvsrpy.frequency_domain_window_rejection(h), h)
    _check_held_masks(h, held, tag)


# --------------------------------------------------------------------------
# interrupted peak searches, one-shot components, infinite limits
# --------------------------------------------------------------------------

import hvsrpy.hvsr_curve as _hc
from hvsrpy import HvsrDiffuseField


class _Interrupting():
    """Stand-in for ``find_peaks`` whose k-th call raises."""

    def __init__(self, original, k, error):
        self.original, self.k, self.error, self.n_calls = original, k, error, 0

    def __call__(self, *args, **kwargs):
        n = self.n_calls
        self.n_calls += 1
        if n == self.k:
            raise self.error("interrupted on purpose")
        return self.original(*args, **kwargs)


def run_base(tag, fxn, *state):
    """Like ``run`` but also records BaseException (KeyboardInterrupt)."""
    def wrapped():
        try:
            return fxn()
        except Exception:
            raise
        except BaseException as e:
            return f"base-exception:{type(e).__name__}:{e}"
    return run(tag, wrapped, *state)


def _full_state(h, tag):
    """Everything that is observable of ``h``."""
    REC.feed("S|" + snapshot(h))
    if isinstance(h, HvsrAzimuthal):
        members = h.hvsrs
    elif isinstance(h, HvsrTraditional):
        members = [h]
    else:
        members = []
    for i, m in enumerate(members):
        run(f"{tag}.m{i}.raw", lambda: (m._main_peak_frq, m._main_peak_amp, m.valid_window_boolean_mask,
                                       m.valid_peak_boolean_mask, m._search_range_in_hz, m._find_peaks_kwargs,
                                       m.meta, m.peak_frequencies, m.peak_amplitudes))
    run(f"{tag}.meta", lambda: (h.meta.get("search_range_in_hz", "<missing>"),
                                h.meta.get("find_peaks_kwargs", "<missing>"),
                                h._search_range_in_hz, h._find_peaks_kwargs))
    if isinstance(h, HvsrCurve):
        run(f"{tag}.curve", lambda: (h.peak_frequency, h.peak_amplitude))
        if isinstance(h, HvsrDiffuseField):
            run(f"{tag}.df.mean_curve", lambda: h.mean_curve())
            run(f"{tag}.df.mean_curve_peak", lambda: h.mean_curve_peak())
            run(f"{tag}.df.mean_curve_peak2", lambda: h.mean_curve_peak(None, (0.5, 9.), dict(height=1.1)))
        return
    for dist in ("lognormal", "normal"):
        for name in STATS_0:
            run(f"{tag}.{name}({dist})", lambda: getattr(h, name)(dist))
            run(f"{tag}.{name}({dist})#again", lambda: getattr(h, name)(dist))
        run(f"{tag}.nth({dist})", lambda: (h.nth_std_curve(1, dist), h.nth_std_fn_frequency(-1, dist),
                                           h.nth_std_fn_amplitude(2, dist)))
    run(f"{tag}.peaks", lambda: (h.peak_frequencies, h.peak_amplitudes))
    if isinstance(h, HvsrAzimuthal):
        run(f"{tag}.by_azimuth", lambda: (h.mean_curve_by_azimuth(), h.mean_curve_peak_by_azimuth()))


INTERRUPT_KWARGS = [None, {}, {"prominence": 0.1}, {"height": 1.1}, {"distance": 2},
                    {"height": 1.1, "distance": 2}, {"prominence": 0.1, "wlen": 3}]


def _interrupt_ranges(rng, frequency):
    lo, hi = float(np.min(frequency)), float(np.max(frequency))
    a, b = sorted(float(x) for x in rng.uniform(lo, hi, 2))
    inf = float("inf")
    return [(a, b), (None, b), (a, None), [a, b], (None, None), (-inf, b), (a, inf), (-inf, inf),
            (inf, None), (None, -inf), (np.float64(a), b), (int(a), int(b)+1), (inf, -inf)]


def _build_interrupt_object(rng, flavour, variant):
    n_freq = int(rng.integers(8, 24))
    frequency = np.geomspace(0.2, 20, n_freq) if rng.random() < 0.7 else np.linspace(0, 25, n_freq)
    kind = pick(rng, ["plain", "plain", "plain", "flat_rows", "all_flat", "plateau", "monotonic"])
    if flavour == "curve":
        return HvsrCurve(frequency, make_amplitude(rng, 1, n_freq, kind="plain")[0], meta={"a": 1})
    if flavour == "diffuse":
        return HvsrDiffuseField(frequency, make_amplitude(rng, 1, n_freq, kind="plain")[0], meta={"a": 1})
    if flavour == "traditional":
        h = HvsrTraditional(frequency, make_amplitude(rng, int(rng.integers(1, 8)), n_freq, kind=kind),
                            meta={"b": 2})
        members = [h]
    else:
        n_curves = int(rng.integers(1, 6))
        h = HvsrAzimuthal([HvsrTraditional(frequency, make_amplitude(rng, n_curves if variant % 2 else
                                                                     int(rng.integers(1, 6)), n_freq, kind=kind))
                           for _ in range(int(rng.integers(1, 4)))], [0, 60, 120], meta={"c": 3})
        members = h.hvsrs
    # several kinds of masks (plain, one array for both, lists, read-only, overlapping).
    m = pick(rng, members)
    n = m.n_curves
    base = rng.random(n) < 0.7
    if variant == 1:
        one = base.copy()
        m.valid_window_boolean_mask = one
        m.valid_peak_boolean_mask = one
    elif variant == 2:
        m.valid_window_boolean_mask = base.tolist()
        m.valid_peak_boolean_mask = base.tolist()
    elif variant == 3:
        buf = np.concatenate([base, [True]])
        m.valid_window_boolean_mask = buf[:n]
        m.valid_peak_boolean_mask = buf[1:]
    elif variant == 4:
        m.valid_window_boolean_mask = base.copy()
        m.valid_peak_boolean_mask = base & (rng.random(n) < 0.7)
    elif variant == 5:
        m.valid_window_boolean_mask = base.astype(int)
        m.valid_peak_boolean_mask = base.copy()
    elif variant == 6:
        m.amplitude = np.asfortranarray(m.amplitude)
    return h


def scenario_interrupted(seed):
    tag0 = f"I{seed}"
    flavours = ["curve", "diffuse", "traditional", "azimuthal", "traditional", "azimuthal"]
    flavour = flavours[seed % len(flavours)]
    variant = (seed // len(flavours)) % 7
    error = KeyboardInterrupt if seed % 5 == 4 else MemoryError
    probe_rng = np.random.default_rng(90_000 + seed)
    probe = _build_interrupt_object(probe_rng, flavour, variant)
    ranges = _interrupt_ranges(probe_rng, np.asarray(probe.frequency, dtype=float))
    if isinstance(probe, HvsrAzimuthal):
        n_searches = sum(m.n_curves for m in probe.hvsrs)
    elif isinstance(probe, HvsrTraditional):
        n_searches = probe.n_curves
    else:
        n_searches = 1
    case = 0
    for kwargs in INTERRUPT_KWARGS:
        for k in range(n_searches + 2):
            case += 1
            rng = np.random.default_rng(90_000 + seed)
            h = _build_interrupt_object(rng, flavour, variant)
            case_rng = np.random.default_rng([seed, case])
            previous = pick(case_rng, ranges)
            srange = pick(case_rng, ranges)
            previous_kwargs = pick(case_rng, INTERRUPT_KWARGS)
            tag = f"{tag0}.{flavour}.{variant}.{canon(kwargs)}.k{k}"
            # the object held another range before and is warm.
            run(f"{tag}.previous({canon(previous)},{canon(previous_kwargs)})",
                lambda: h.update_peaks_bounded(previous, previous_kwargs), h)
            _full_state(h, f"{tag}.warm")
            held = _held_masks(h) if not isinstance(h, HvsrCurve) else None

            original = _hc.find_peaks
            fake = _Interrupting(original, k, error)
            _hc.find_peaks = fake
            try:
                run_base(f"{tag}.interrupted({canon(srange)})", lambda: h.update_peaks_bounded(srange, kwargs), h)
            finally:
                _hc.find_peaks = original
            REC.feed(f"[{tag}] n_calls={fake.n_calls}")
            if held is not None:
                _check_held_masks(h, held, tag)
            # partially updated state (half of the cases also evaluate the
            # statistics in that state, which may warm the caches).
            if case % 2:
                _full_state(h, f"{tag}.partial")
            else:
                REC.feed("S|" + snapshot(h))

            style = case % 3
            if style == 0:
                run(f"{tag}.repeated", lambda: h.update_peaks_bounded(srange, kwargs), h)
            elif style == 1:
                run(f"{tag}.repeated", lambda: h.update_peaks_bounded(search_range_in_hz=srange,
                                                                      find_peaks_kwargs=kwargs), h)
            else:
                # equal, not identical, arguments.
                again = None if kwargs is None else dict(kwargs)
                run(f"{tag}.repeated", lambda: h.update_peaks_bounded(
                    tuple(srange) if case % 2 else list(srange), again), h)
            if held is not None:
                _check_held_masks(h, held, tag)
            _full_state(h, f"{tag}.final")
            # and once more (early return or not), then another range.
            run(f"{tag}.third", lambda: h.update_peaks_bounded(srange, kwargs), h)
            if case % 4 == 0:
                run(f"{tag}.fdwra", lambda: hvsrpy.frequency_domain_window_rejection(
                    h, search_range_in_hz=srange, find_peaks_kwargs=kwargs), h) if not isinstance(h, HvsrCurve) else None
                _full_state(h, f"{tag}.after_fdwra") if not isinstance(h, HvsrCurve) else None


def scenario_interrupted_twice(seed):
    """Two interruptions in a row, then back to the previous range."""
    rng = np.random.default_rng(95_000 + seed)
    tag = f"J{seed}"
    flavour = pick(rng, ["traditional", "azimuthal"])
    h = _build_interrupt_object(rng, flavour, int(rng.integers(7)))
    ranges = _interrupt_ranges(rng, np.asarray(h.frequency, dtype=float))
    previous, srange = pick(rng, ranges), pick(rng, ranges)
    kwargs = pick(rng, INTERRUPT_KWARGS)
    run(f"{tag}.previous", lambda: h.update_peaks_bounded(previous, kwargs), h)
    _full_state(h, f"{tag}.warm")
    original = _hc.find_peaks
    for attempt in range(2):
        fake = _Interrupting(original, int(rng.integers(0, 6)), MemoryError)
        _hc.find_peaks = fake
        try:
            run_base(f"{tag}.interrupted{attempt}({canon(srange)},{canon(kwargs)})",
                     lambda: h.update_peaks_bounded(srange, kwargs), h)
        finally:
            _hc.find_peaks = original
        REC.feed(f"[{tag}] n_calls={fake.n_calls}")
        if attempt:
            _full_state(h, f"{tag}.partial")
    # interrupted search through the rejection algorithm; the interruption
    # is placed inside the peak search of the first member's update (a range
    # no member holds), because further calls of find_peaks are those of
    # mean_curve_peak, which the refactoring memoises on purpose.
    first = h.hvsrs[0] if isinstance(h, HvsrAzimuthal) else h
    fresh = (float(h.frequency[1]), float(h.frequency[-2]))
    fake = _Interrupting(original, int(rng.integers(0, first.n_curves)), MemoryError)
    _hc.find_peaks = fake
    try:
        run_base(f"{tag}.fdwra.interrupted", lambda: hvsrpy.frequency_domain_window_rejection(
            h, search_range_in_hz=fresh, find_peaks_kwargs=kwargs), h)
    finally:
        _hc.find_peaks = original
    REC.feed(f"[{tag}] n_calls={fake.n_calls}")
    _full_state(h, f"{tag}.fdwra.partial")
    run(f"{tag}.fdwra.repeated", lambda: hvsrpy.frequency_domain_window_rejection(
        h, search_range_in_hz=fresh, find_peaks_kwargs=kwargs), h)
    _full_state(h, f"{tag}.fdwra.final")
    run(f"{tag}.back", lambda: h.update_peaks_bounded(previous, kwargs), h)
    _full_state(h, f"{tag}.back")
    run(f"{tag}.forth", lambda: h.update_peaks_bounded(srange, kwargs), h)
    _full_state(h, f"{tag}.forth")
    run(f"{tag}.fdwra", lambda: hvsrpy.frequency_domain_window_rejection(
        h, search_range_in_hz=srange, find_peaks_kwargs=kwargs), h)
    _full_state(h, f"{tag}.after_fdwra")


def scenario_interrupted_init(seed):
    """Interruption while the object is being constructed."""
    rng = np.random.default_rng(97_000 + seed)
    tag = f"K{seed}"
    n_freq = int(rng.integers(6, 15))
    frequency = np.geomspace(0.2, 20, n_freq)
    amplitude = make_amplitude(rng, int(rng.integers(1, 6)), n_freq, kind=pick(rng, ["plain", "flat_rows"]))
    original = _hc.find_peaks
    for k in range(len(amplitude) + 1):
        for builder in ("traditional", "azimuthal", "curve", "from_curves"):
            fake = _Interrupting(original, k, MemoryError)
            grabbed = []

            def build():
                if builder == "traditional":
                    return HvsrTraditional(frequency, amplitude)
                if builder == "curve":
                    return HvsrCurve(frequency, amplitude[0])
                _hc.find_peaks = original
                members = [HvsrTraditional(frequency, amplitude), HvsrTraditional(frequency, amplitude*1.1)]
                curves = [HvsrCurve(frequency, row) for row in amplitude]
                _hc.find_peaks = fake
                if builder == "azimuthal":
                    return HvsrAzimuthal(members, [0, 90])
                return HvsrTraditional.from_hvsr_curves(curves)
            _hc.find_peaks = fake
            try:
                run_base(f"{tag}.{builder}.k{k}", build)
            finally:
                _hc.find_peaks = original
            REC.feed(f"[{tag}] n_calls={fake.n_calls}")


def scenario_one_shot_components(seed):
    """One-shot iterables as ``components`` of the time-domain rejections."""
    rng = np.random.default_rng(98_000 + seed)
    tag = f"O{seed}"
    n_records = int(rng.integers(1, 9))
    records, dt, n_samples = make_records(rng, n_records)
    duration = dt*n_samples
    n_freq = int(rng.integers(4, 20))
    frequency = make_frequency(rng, n_freq)
    target = pick(rng, ["none", "traditional", "azimuthal"])
    if target == "traditional":
        hvsr = HvsrTraditional(frequency, make_amplitude(rng, n_records, n_freq, kind="plain"))
    elif target == "azimuthal":
        hvsr = HvsrAzimuthal([HvsrTraditional(frequency, make_amplitude(rng, n_records, n_freq, kind="plain"))
                              for _ in range(2)], [0, 90])
    else:
        hvsr = None
    held = _held_masks(hvsr) if hvsr is not None else []
    names = pick(rng, [("ns", "ew", "vt"), ("vt",), ("ns", "ew"), (), ("ns", "bogus"), ("ew", "ew")])
    shape = pick(rng, ["generator", "iter", "map", "dict_keys", "set", "str_iter", "zip"])

    def components():
        if shape == "generator":
            return (c for c in names)
        if shape == "iter":
            return iter(list(names))
        if shape == "map":
            return map(str, names)
        if shape == "dict_keys":
            return dict.fromkeys(names).keys()
        if shape == "set":
            return frozenset(names[:1])
        if shape == "zip":
            return (c for c, _ in zip(names, range(10)))
        return iter("".join(names[:1]))

    def identify(passing):
        return [next(i for i, r in enumerate(records) if r is p) for p in passing], type(passing).__name__

    state = [hvsr] if hvsr is not None else []
    sta, lta = pick(rng, [0.5, 1, 0.1]), pick(rng, [duration/2, duration*0.9, 3])
    lo, hi = pick(rng, [0.2, 0.5, 0.]), pick(rng, [2.5, 1.5, 4.])
    run(f"{tag}.sta_lta({names!r},{shape},{target})",
        lambda: identify(hvsrpy.sta_lta_window_rejection(records, sta_seconds=sta, lta_seconds=lta,
                                                         min_sta_lta_ratio=lo, max_sta_lta_ratio=hi,
                                                         components=components(), hvsr=hvsr)), *state)
    if held:
        _check_held_masks(hvsr, held, tag)
    threshold, normalized = pick(rng, [0.9, 0.5, 0.3, 4.]), bool(rng.random() < 0.6)
    run(f"{tag}.max_value({names!r},{shape},{target})",
        lambda: identify(hvsrpy.maximum_value_window_rejection(records, maximum_value_threshold=threshold,
                                                               normalized=normalized, components=components(),
                                                               hvsr=hvsr)), *state)
    if held:
        _check_held_masks(hvsr, held, tag)
        _full_state(hvsr, f"{tag}.after")


def scenario_infinite_limits(seed):
    """Search ranges with infinite limits on every kind of object."""
    rng = np.random.default_rng(99_000 + seed)
    tag = f"N{seed}"
    inf = float("inf")
    flavour = pick(rng, ["curve", "diffuse", "traditional", "azimuthal"])
    h = _build_interrupt_object(rng, flavour, int(rng.integers(7)))
    frequency = np.asarray(h.frequency, dtype=float)
    a, b = sorted(float(x) for x in rng.uniform(frequency.min(), frequency.max(), 2))
    for srange in [(-inf, inf), (-inf, None), (None, inf), (inf, None), (None, -inf), (a, inf), (-inf, b),
                   (inf, inf), (-inf, -inf), (inf, -inf), (np.float64(inf), None), (-np.inf, np.float32(b)),
                   [-inf, b], (a, b)]:
        kwargs = pick(rng, INTERRUPT_KWARGS)
        run(f"{tag}.update({canon(srange)},{canon(kwargs)})", lambda: h.update_peaks_bounded(srange, kwargs), h)
        _full_state(h, f"{tag}.{canon(srange)}")
        run(f"{tag}.index_range", lambda: HvsrCurve._search_range_to_index_range(frequency, srange))
        if not isinstance(h, HvsrCurve) and rng.random() < 0.4:
            run(f"{tag}.fdwra", lambda: hvsrpy.frequency_domain_window_rejection(
                h, search_range_in_hz=srange, find_peaks_kwargs=kwargs), h)
            _full_state(h, f"{tag}.after_fdwra")


def main_extension():
    for seed in range(84):
        scenario_interrupted(seed)
    for seed in range(60):
        scenario_interrupted_twice(seed)
    for seed in range(12):
        scenario_interrupted_init(seed)
    for seed in range(80):
        scenario_one_shot_components(seed)
    for seed in range(40):
        scenario_infinite_limits(seed)


def main():
    tmpdir = tempfile.mkdtemp(prefix="equiv_", dir=os.path.dirname(os.path.abspath(__file__)))
    try:
        for seed in range(260):
            scenario_traditional(seed)
        for seed in range(200):
            scenario_azimuthal(seed)
        for seed in range(60):
            scenario_constructors(seed)
        for seed in range(90):
            scenario_time_domain(seed)
        for seed in range(12):
            scenario_manual(seed)
        for seed in range(30):
            scenario_files(seed, tmpdir)
        for seed in range(16):
            scenario_long_sequences(seed)
        for seed in range(4):
            scenario_directed(seed)
        for seed in range(40):
            scenario_warnings_as_errors(seed)
        if '--base-only' not in sys.argv:
            main_extension()
    finally:
        shutil.rmtree(tmpdir, ignore_errors=True)
    sys.stderr.write(f"items={REC.n_items} exceptions={REC.n_exceptions} "
                     f"warnings={REC.n_warnings} logs={REC.n_logs}\n")
    print(f"DIGEST {REC.sha.hexdigest()}")


if __name__ == "__main__":
    main()
