"""Equivalence digest for the smoothing / processing refactoring.

Run as
    cd /tmp/r14/ctlS && PYTHONPATH=<tree> MPLBACKEND=Agg /venv/bin/python _control/equiv.py
and compare the single ``DIGEST <sha256>`` line between trees.

Everything observable goes into the digest: returned values (exact bytes,
NaN canonicalised, so NaN / inf patterns are kept), exception types and
messages (numba typing errors: type only, their text quotes source lines),
warnings (category + text), text printed to stdout, log records (object ids
masked), files written, lines drawn, and whether the caller's records,
settings and arrays were left untouched and are independent of the results.
No arithmetic was reordered by the patch, so nothing is rounded.
"""

import contextlib
import copy
import hashlib
import io
import logging
import os
import re
import shutil
import sys
import tempfile
import warnings

import numpy as np

import hvsrpy
from hvsrpy import smoothing as sm
from hvsrpy import processing as pr

VERBOSE = "-v" in sys.argv
H = hashlib.sha256()
N_EMIT = [0]


def emit(*parts):
    line = " | ".join(str(p) for p in parts)
    if VERBOSE:
        print(line)
    N_EMIT[0] += 1
    H.update((line + "\n").encode())


# --------------------------------------------------------------------------
# canonical descriptions
# --------------------------------------------------------------------------
def arr(a):
    a = np.asarray(a)
    if a.dtype.kind == "f":
        b = np.where(np.isnan(a), np.nan, a)      # canonical NaN, inf kept
        b = np.ascontiguousarray(b)
        extra = f"nan={int(np.isnan(a).sum())} pinf={int(np.isposinf(a).sum())} ninf={int(np.isneginf(a).sum())}"
    elif a.dtype.kind == "O":
        return f"objarr{a.shape}:" + desc(a.tolist())
    else:
        b = np.ascontiguousarray(a)
        extra = ""
    return f"nd[{a.dtype.str}{a.shape} {hashlib.sha256(b.tobytes()).hexdigest()[:20]} {extra}]"


def desc(o):
    if isinstance(o, np.ndarray):
        return arr(o)
    if isinstance(o, (np.floating, float)):
        return f"{type(o).__name__}:{float(o)!r}"
    if isinstance(o, (np.integer, int, bool, np.bool_)):
        return f"{type(o).__name__}:{o!r}"
    if isinstance(o, (str, bytes, type(None), complex)):
        return repr(o)
    if isinstance(o, dict):
        return "{" + ", ".join(f"{k!r}: {desc(v)}" for k, v in o.items()) + "}"
    if isinstance(o, (list, tuple)):
        return type(o).__name__ + "(" + ", ".join(desc(v) for v in o) + ")"
    if isinstance(o, hvsrpy.HvsrTraditional):
        return ("HvsrTraditional(" + ", ".join([
            arr(o.frequency), arr(o.amplitude), desc(o.meta), f"n={o.n_curves}",
            arr(o.valid_window_boolean_mask), arr(o.valid_peak_boolean_mask),
            arr(o._main_peak_frq), arr(o._main_peak_amp), type(o).__name__]) + ")")
    if isinstance(o, hvsrpy.HvsrAzimuthal):
        return ("HvsrAzimuthal(" + desc(list(o.hvsrs)) + ", " + desc(list(o.azimuths))
                + ", " + desc(o.meta) + ")")
    if isinstance(o, hvsrpy.HvsrDiffuseField):
        return ("HvsrDiffuseField(" + arr(o.frequency) + ", " + arr(o.amplitude) + ", "
                + desc(o.meta) + ")")
    if type(o).__name__ == "Psd":
        return "Psd(" + arr(o.frequency) + ", " + arr(o.amplitude) + ")"
    if isinstance(o, hvsrpy.TimeSeries):
        return f"TimeSeries({arr(o.amplitude)}, {o.dt_in_seconds!r})"
    if isinstance(o, hvsrpy.SeismicRecording3C):
        return ("Rec(" + desc(o.ns) + desc(o.ew) + desc(o.vt) + repr(o.degrees_from_north)
                + desc(o.meta) + ")")
    if hasattr(o, "attr_dict") and hasattr(o, "attrs"):
        return (type(o).__name__ + "(" + desc(list(o.attrs)) + ", "
                + desc({k: getattr(o, k, "<missing>") for k in o.attrs}) + ")")
    return f"<{type(o).__name__}>"


class _Collector(logging.Handler):
    def __init__(self):
        super().__init__(level=logging.DEBUG)
        self.lines = []

    def emit(self, record):
        msg = re.sub(r"at \d+", "at <id>", record.getMessage())
        msg = re.sub(r"0x[0-9a-fA-F]+", "<addr>", msg)
        self.lines.append(f"{record.name}:{record.levelname}:{msg}")


LOGGER = logging.getLogger("hvsrpy")
LOGGER.setLevel(logging.DEBUG)
COLLECTOR = _Collector()
LOGGER.addHandler(COLLECTOR)


def observe(tag, fn, describe=desc):
    """Run fn, put everything observable into the digest, return the value."""
    COLLECTOR.lines = []
    out = io.StringIO()
    value, status = None, ""
    with warnings.catch_warnings(record=True) as caught:
        warnings.simplefilter("always")
        with contextlib.redirect_stdout(out):
            try:
                value = fn()
                status = "OK " + describe(value)
            except Exception as e:       # noqa
                name = type(e).__name__
                module = type(e).__module__
                text = "" if module.startswith("numba") else str(e)
                status = f"EXC {module}.{name}: " + re.sub(r"0x[0-9a-fA-F]+", "<addr>", text)
    wtxt = [f"{w.category.__name__}:{w.message}" for w in caught
            if not w.category.__module__.startswith("numba")]
    logs = hashlib.sha256("\n".join(COLLECTOR.lines).encode()).hexdigest()[:16]
    emit(tag, status, "WARN", wtxt, "OUT", repr(out.getvalue()),
         "LOG", len(COLLECTOR.lines), logs)
    return value


# --------------------------------------------------------------------------
# part 1: the seven kernels called directly
# --------------------------------------------------------------------------
OPS = ["konno_and_ohmachi", "parzen", "savitzky_and_golay", "linear_rectangular",
       "log_rectangular", "linear_triangular", "log_triangular"]
BWS = {"konno_and_ohmachi": [40., 40, 10.5, 200., 1e-3, -40., 0, 0., np.nan, np.inf, 1e6],
       "parzen": [0.5, 1, 2.5, 0.01, -0.5, 0, np.nan, np.inf, 1e-9],
       "savitzky_and_golay": [9, 9.7, 3, 1, 5, 21, 4, 0, -3, "7", np.nan, None, 101],
       "linear_rectangular": [0.5, 1, 3, 0, 0., -1., np.nan, np.inf, 1e-12],
       "log_rectangular": [0.05, 1, 0.3, 0, 0., -0.1, np.nan, np.inf],
       "linear_triangular": [0.5, 1, 3, 0, 0., -1., np.nan, np.inf, 1e-12],
       "log_triangular": [0.05, 1, 0.3, 0, 0., -0.1, np.nan, np.inf]}
FKINDS = ["rfft_even", "rfft_odd", "unsorted", "dups", "descending", "withnan",
          "withinf", "int", "neg", "log", "f32", "nearly_sorted"]
CKINDS = ["geom", "lin0", "unsorted", "weird", "exact", "int", "empty", "f32",
          "strided", "above"]
SKINDS = ["rand", "signed", "dead", "naninf", "fortran", "view", "int", "f32",
          "bool", "huge", "i32", "u8", "allzero"]


def make_freq(rng, kind, n):
    base = np.fft.rfftfreq(2*(n-1), 0.01)
    if kind == "rfft_even":
        return base
    if kind == "rfft_odd":
        return np.fft.rfftfreq(2*(n-1)+1, 0.013)
    if kind == "unsorted":
        return rng.permutation(base)
    if kind == "dups":
        return np.sort(rng.choice(np.linspace(0, 50, max(n//3, 2)), size=n))
    if kind == "descending":
        return base[::-1]
    if kind == "withnan":
        f = base.copy()
        f[rng.integers(0, n)] = np.nan
        return f
    if kind == "withinf":
        f = base.copy()
        f[-1] = np.inf
        return f
    if kind == "int":
        return np.arange(n)
    if kind == "neg":
        return np.linspace(-5, 45, n)
    if kind == "log":
        return np.geomspace(0.01, 60, n)
    if kind == "f32":
        return base.astype(np.float32)
    if kind == "nearly_sorted":
        f = base.copy()
        i = int(rng.integers(0, n-1))
        f[i], f[i+1] = f[i+1], f[i]
        return f
    raise KeyError(kind)


def make_fcs(rng, kind, fmax, f):
    fmax = max(float(fmax), 1.)
    if kind == "geom":
        return np.geomspace(0.1, fmax*0.9, 37)
    if kind == "lin0":
        return np.linspace(0, fmax, 23)
    if kind == "unsorted":
        return rng.permutation(np.concatenate([np.geomspace(0.2, fmax*1.5, 20), [0., 1e-7, 5., 5.]]))
    if kind == "weird":
        return np.array([np.nan, np.inf, -np.inf, -1., 0., 1e-6, 1e-6*(1-1e-9), 3., 1e300, 1e-300])
    if kind == "exact":
        g = f[np.isfinite(f)]
        return g[::max(len(g)//9, 1)].astype(float).copy()
    if kind == "int":
        return np.array([0, 1, 3, 10, 10, 49, 70, -2])
    if kind == "empty":
        return np.array([])
    if kind == "f32":
        return np.geomspace(0.3, fmax, 15).astype(np.float32)
    if kind == "strided":
        return np.geomspace(0.1, fmax, 40)[::3]
    if kind == "above":
        return np.array([fmax*0.99, fmax, fmax*1.0001, fmax*2, fmax*100])
    raise KeyError(kind)


def make_spec(rng, kind, nrows, n):
    if nrows == 0 and kind in ("dead", "naninf"):
        kind = "rand"
    if kind == "rand":
        return rng.random((nrows, n))*10
    if kind == "signed":
        return rng.standard_normal((nrows, n))
    if kind == "dead":
        s = rng.random((nrows, n))
        s[rng.integers(0, nrows)] = 0.
        return s
    if kind == "allzero":
        return np.zeros((nrows, n))
    if kind == "naninf":
        s = rng.random((nrows, n))
        s[0, rng.integers(0, n)] = np.nan
        s[-1, rng.integers(0, n)] = np.inf
        return s
    if kind == "fortran":
        return np.asfortranarray(rng.random((nrows, n)))
    if kind == "view":
        return rng.random((n, nrows*2)).T[::2]
    if kind == "int":
        return rng.integers(-1000, 1000, (nrows, n))
    if kind == "f32":
        return rng.random((nrows, n)).astype(np.float32)
    if kind == "bool":
        return rng.random((nrows, n)) > 0.5
    if kind == "huge":
        return rng.random((nrows, n))*1e307
    if kind == "i32":
        return rng.integers(2**30, 2**31-1, (nrows, n)).astype(np.int32)
    if kind == "u8":
        return rng.integers(0, 255, (nrows, n)).astype(np.uint8)
    raise KeyError(kind)


def kernels():
    rng = np.random.default_rng(20240607)
    for op in OPS:
        fn = getattr(sm, op)
        emit("registered", op, sm.SMOOTHING_OPERATORS[op] is fn)
        for rep in range(72):
            fk = FKINDS[rep % len(FKINDS)] if rep < 48 else str(rng.choice(FKINDS))
            ck = str(rng.choice(CKINDS))
            sk = str(rng.choice(SKINDS))
            n = int(rng.choice([2, 3, 17, 64, 129, 500, 1025]))
            nrows = int(rng.choice([0, 1, 2, 5]))
            bw = BWS[op][rep % len(BWS[op])] if rep < 2*len(BWS[op]) else BWS[op][0]
            f = make_freq(rng, fk, n)
            n = len(f)
            finite = f[np.isfinite(f)]
            fcs = make_fcs(rng, ck, finite.max() if finite.size else 1., f)
            spec = make_spec(rng, sk, nrows, n)
            before = (arr(f), arr(spec), arr(fcs))
            out = observe(f"K {op} {rep} f={fk} c={ck} s={sk} n={n} r={nrows} bw={bw!r}",
                          lambda: fn(f, spec, fcs, bw))
            emit("inputs kept", before == (arr(f), arr(spec), arr(fcs)))
            if isinstance(out, np.ndarray):
                emit("layout", out.flags["C_CONTIGUOUS"], out.flags["OWNDATA"], out.flags["WRITEABLE"],
                     np.shares_memory(out, spec) if spec.dtype == out.dtype else False)
                # centre frequencies are independent of each other and of their order.
                if fcs.size and op != "savitzky_and_golay" or (fcs.size and isinstance(bw, int)):
                    perm = rng.permutation(fcs.size)
                    try:
                        again = fn(f, spec, fcs[perm], bw)
                        one = fn(f, spec, fcs[perm][:1], bw)
                        emit("order", np.array_equal(out[:, perm], again, equal_nan=True),
                             np.array_equal(again[:, :1], one, equal_nan=True))
                    except Exception as e:  # noqa
                        emit("order EXC", type(e).__name__)
                # no state kept between calls.
                emit("repeat", np.array_equal(out, fn(f, spec, fcs, bw), equal_nan=True))

        f = np.fft.rfftfreq(128, 0.01)
        spec = rng.random((3, len(f)))
        fcs = np.geomspace(0.5, 40, 11)
        bw0 = BWS[op][0]
        observe(f"K {op} default", lambda: fn(f, spec, fcs))
        observe(f"K {op} keywords", lambda: fn(frequencies=f, spectrum=spec, fcs=fcs, bandwidth=bw0))
        observe(f"K {op} list frequencies", lambda: fn(list(f), spec, fcs, bw0))
        observe(f"K {op} tuple frequencies", lambda: fn(tuple(f), spec, fcs, bw0))
        observe(f"K {op} list fcs", lambda: fn(f, spec, list(fcs), bw0))
        observe(f"K {op} list spectrum", lambda: fn(f, spec.tolist(), fcs, bw0))
        observe(f"K {op} 1d spectrum", lambda: fn(f, spec[0], fcs, bw0))
        if op not in ("konno_and_ohmachi", "parzen"):
            # (the two read outside of the array for 3-D input, before and after.)
            observe(f"K {op} 3d spectrum", lambda: fn(f, spec[None], fcs, bw0))
        observe(f"K {op} 2d fcs", lambda: fn(f, spec, fcs[None], bw0))
        observe(f"K {op} 0d fcs", lambda: fn(f, spec, np.array(3.), bw0))
        observe(f"K {op} scalar fcs", lambda: fn(f, spec, 3., bw0))
        observe(f"K {op} 2d frequencies", lambda: fn(f[None], spec, fcs, bw0))
        observe(f"K {op} complex spectrum", lambda: fn(f, spec*(1+1j), fcs, bw0))
        observe(f"K {op} few frequencies", lambda: fn(f[:20], spec, fcs, bw0))
        observe(f"K {op} no frequencies", lambda: fn(f[:0], spec[:, :0], fcs, bw0))
        observe(f"K {op} one frequency", lambda: fn(f[5:6], spec[:, 5:6], fcs, bw0))
        observe(f"K {op} all float32", lambda: fn(f.astype(np.float32), spec.astype(np.float32),
                                                  fcs.astype(np.float32), np.float32(bw0)))
        observe(f"K {op} float16 spectrum", lambda: fn(f, spec.astype(np.float16), fcs, bw0))
        observe(f"K {op} int64 scalar bw", lambda: fn(f, spec, fcs, np.int64(9)))
        observe(f"K {op} float64 scalar bw", lambda: fn(f, spec, fcs, np.float64(bw0)))
        observe(f"K {op} str bw", lambda: fn(f, spec, fcs, "a"))
        observe(f"K {op} None bw", lambda: fn(f, spec, fcs, None))
        observe(f"K {op} bool bw", lambda: fn(f, spec, fcs, True))
        observe(f"K {op} 0d array bw", lambda: fn(f, spec, fcs, np.array(0.5)))
        observe(f"K {op} readonly", lambda: fn(*[_readonly(x) for x in (f, spec, fcs)], bw0))
        if hasattr(fn, "py_func"):
            observe(f"K {op} py_func", lambda: fn.py_func(f[:40], spec[:, :40], fcs[:4], bw0))
        # an interrupted call followed by the same call and by a good one.
        observe(f"K {op} zero bw", lambda: fn(f, spec, f[3:9].copy(), 0))
        observe(f"K {op} zero bw again", lambda: fn(f, spec, f[3:9].copy(), 0))
        observe(f"K {op} after error", lambda: fn(f, spec, fcs, bw0))


def _readonly(a):
    a = a.copy()
    a.setflags(write=False)
    return a


# --------------------------------------------------------------------------
# part 2: processing
# --------------------------------------------------------------------------
def make_records(rng, n_records, kinds=("plain",), dts=(0.01,), n_samples=None):
    records = []
    for i in range(n_records):
        dt = float(dts[i % len(dts)])
        n = int(n_samples if n_samples is not None else rng.integers(300, 1500))
        t = np.arange(n)*dt
        comps = []
        for c in range(3):
            a = rng.standard_normal(n) + (2 + c)*np.sin(2*np.pi*(1.5 + c)*t + rng.random())
            comps.append(a)
        kind = kinds[i % len(kinds)]
        if kind == "dead_vt":
            comps[2][:] = 0.
        elif kind == "dead_ns":
            comps[0][:] = 0.
        elif kind == "dead_ew":
            comps[1][:] = 0.
        elif kind == "dead_h":
            comps[0][:] = 0.
            comps[1][:] = 0.
        elif kind == "dead_all":
            for a in comps:
                a[:] = 0.
        elif kind == "ints":
            comps = [np.round(a*100).astype(int) for a in comps]
        elif kind == "lists":
            comps = [a.tolist() for a in comps]
        elif kind == "constant":
            comps = [np.full(n, 3.), np.full(n, -2.), np.full(n, 0.5)]
        elif kind == "huge":
            comps = [a*1e150 for a in comps]
        elif kind == "tiny":
            comps = [a*1e-160 for a in comps]
        ns, ew, vt = [hvsrpy.TimeSeries(a, dt) for a in comps]
        meta = {"file name(s)": f"rec{i}.mseed", "nested": {"list": [1, 2, [3]], "i": i}}
        records.append(hvsrpy.SeismicRecording3C(ns, ew, vt, degrees_from_north=float(rng.integers(0, 360)),
                                                 meta=meta if i % 2 == 0 else None))
    return records


def make_smoothing(rng, fnyq, operator=None, fcs_kind=None):
    operator = operator or str(rng.choice(OPS))
    bandwidth = {"konno_and_ohmachi": [40, 40., 20., 80.5],
                 "parzen": [0.5, 1, 0.2],
                 "savitzky_and_golay": [9, 3, 21, 7.9],
                 "linear_rectangular": [0.5, 1, 0.05],
                 "log_rectangular": [0.05, 0.2, 1],
                 "linear_triangular": [0.5, 1, 0.05],
                 "log_triangular": [0.05, 0.2, 1]}[operator]
    bandwidth = bandwidth[int(rng.integers(0, len(bandwidth)))]
    fcs_kind = fcs_kind or str(rng.choice(["geom", "geom", "lin", "lin0", "unsorted", "repeated", "list",
                                           "tuple", "int", "descending", "single", "nyquist"]))
    top = min(fnyq, 45.)
    if fcs_kind == "geom":
        fcs = np.geomspace(0.2, top*0.9, int(rng.integers(5, 50)))
    elif fcs_kind == "lin":
        fcs = np.linspace(0.3, top*0.8, int(rng.integers(5, 50)))
    elif fcs_kind == "lin0":
        fcs = np.linspace(0, top*0.8, int(rng.integers(5, 40)))
    elif fcs_kind == "unsorted":
        fcs = rng.permutation(np.geomspace(0.2, top*0.9, 25))
    elif fcs_kind == "repeated":
        fcs = np.repeat(np.geomspace(0.5, top*0.5, 8), 2)
    elif fcs_kind == "list":
        fcs = np.geomspace(0.2, top*0.9, 12).tolist()
    elif fcs_kind == "tuple":
        fcs = tuple(np.linspace(1, top*0.7, 9).tolist())
    elif fcs_kind == "int":
        fcs = np.arange(1, int(top), 2)
    elif fcs_kind == "descending":
        fcs = np.geomspace(0.2, top*0.9, 17)[::-1]
    elif fcs_kind == "single":
        fcs = np.array([3.3])
    elif fcs_kind == "nyquist":
        fcs = np.array([1., fnyq/2, fnyq])
    else:
        raise KeyError(fcs_kind)
    return dict(operator=operator, bandwidth=bandwidth, center_frequencies_in_hz=fcs), fcs_kind


SETTINGS = {
    "traditional": hvsrpy.HvsrTraditionalProcessingSettings,
    "single_azimuth": hvsrpy.HvsrTraditionalSingleAzimuthProcessingSettings,
    "rotdpp": hvsrpy.HvsrTraditionalRotDppProcessingSettings,
    "azimuthal": hvsrpy.HvsrAzimuthalProcessingSettings,
    "diffuse_field": hvsrpy.HvsrDiffuseFieldProcessingSettings,
    "psd": hvsrpy.PsdProcessingSettings,
}
COMBINE = ["arithmetic_mean", "squared_average", "quadratic_mean", "root_mean_square",
           "effective_amplitude_spectrum", "geometric_mean", "total_horizontal_energy",
           "vector_summation", "maximum_horizontal_value"]


def make_settings(rng, flavour, fnyq, operator=None, fcs_kind=None, **overrides):
    smoothing, fcs_kind = make_smoothing(rng, fnyq, operator, fcs_kind)
    kwargs = dict(smoothing=smoothing)
    kwargs["window_type_and_width"] = [["tukey", 0.1], ("tukey", 0.), ["tukey", 1], ["tukey", 0.37],
                                       ["tukey", 0.1]][int(rng.integers(0, 5))]
    kwargs["fft_settings"] = [None, None, dict(n=None), dict(n=1000), dict(n=40001), dict(n=65536),
                              dict(), dict(n=33000, norm="ortho")][int(rng.integers(0, 8))]
    if flavour == "traditional":
        kwargs["method_to_combine_horizontals"] = str(rng.choice(COMBINE))
    elif flavour == "single_azimuth":
        kwargs["azimuth_in_degrees"] = [20., 0, 90, -45.5, 400, np.float32(33)][int(rng.integers(0, 6))]
        if rng.random() < 0.3:
            kwargs["method_to_combine_horizontals"] = "directional_energy"
    elif flavour == "rotdpp":
        kwargs["azimuths_in_degrees"] = [np.arange(0, 180, 45), [0, 90], (10., 20., 30.), np.array([77.]),
                                         np.arange(0, 180, 30)][int(rng.integers(0, 5))]
        kwargs["ppth_percentile_for_rotdpp_computation"] = [50., 0, 100, 37.5][int(rng.integers(0, 4))]
    elif flavour == "azimuthal":
        kwargs["azimuths_in_degrees"] = [np.arange(0, 180, 60), [0, 90], (15., 75.), np.array([5.])][int(rng.integers(0, 4))]
    kwargs.update(overrides)
    settings = SETTINGS[flavour](**kwargs)
    return settings, f"{flavour} op={smoothing['operator']} bw={smoothing['bandwidth']!r} fcs={fcs_kind} " \
                     f"win={kwargs['window_type_and_width']!r} fft={kwargs['fft_settings']!r} " \
                     f"extra={ {k: desc(v) for k, v in kwargs.items() if k not in ('smoothing', 'window_type_and_width', 'fft_settings')} }"


def snapshot(records, settings):
    if isinstance(records, (list, tuple, np.ndarray)):
        records = list(records)
    return hashlib.sha256((desc(records) + desc(settings)).encode()).hexdigest()[:20]


def run_process(tag, records, settings, fn=None):
    fn = fn or hvsrpy.process
    before = snapshot(records, settings)
    result = observe(tag, lambda: fn(records, settings))
    emit("caller's records and settings kept", before == snapshot(records, settings))
    return result


def scramble(records, settings):
    """Edit everything the caller still holds, in place."""
    for record in records:
        for c in (record.ns, record.ew, record.vt):
            c.amplitude[:] = -7.
        record.meta["file name(s)"] = "edited"
        if "nested" in record.meta:
            record.meta["nested"]["list"][2].append("edited")
    smoothing = getattr(settings, "smoothing", None)
    if isinstance(smoothing, dict):
        fcs = smoothing.get("center_frequencies_in_hz")
        if isinstance(fcs, np.ndarray) and fcs.dtype.kind == "f":
            fcs[:] = 1.234
        elif isinstance(fcs, list):
            fcs[:] = [1.234]*len(fcs)
        smoothing["operator"] = "edited"
    if isinstance(settings.window_type_and_width, list):
        settings.window_type_and_width[0] = "edited"
    if isinstance(settings.fft_settings, dict):
        settings.fft_settings["n"] = 7
    az = getattr(settings, "azimuths_in_degrees", None)
    if isinstance(az, np.ndarray):
        az[:] = 1
    elif isinstance(az, list):
        az[:] = [1]*len(az)


def edit_result(result):
    if isinstance(result, dict):
        for psd in result.values():
            psd.frequency[:] = -1
            psd.amplitude[:] = -1
    elif isinstance(result, hvsrpy.HvsrAzimuthal):
        for h in result.hvsrs:
            h.frequency[:] = -1
            h.amplitude[:] = -1
            h.meta.clear()
        result.meta.clear()
    elif result is not None:
        result.frequency[:] = -1
        result.amplitude[:] = -1
        for v in result.meta.values():
            if isinstance(v, (list, dict)):
                v.clear()
        result.meta.clear()


def processing():
    rng = np.random.default_rng(77001)
    tmpdir = tempfile.mkdtemp(prefix="equiv_", dir=os.path.dirname(os.path.abspath(__file__)))
    try:
        flavours = list(SETTINGS)
        # ---- broad randomised sweep --------------------------------------
        for case in range(150):
            flavour = flavours[case % len(flavours)]
            dts = [(0.01,), (0.01,), (0.005,), (0.02, 0.01, 0.01), (0.01, 0.005), (0.004, 0.01, 0.004, 0.02)][int(rng.integers(0, 6))]
            kinds = [("plain",), ("plain",), ("plain", "ints"), ("lists", "plain"), ("constant", "plain"),
                     ("tiny", "plain")][int(rng.integers(0, 6))]
            n_records = int(rng.integers(1, 6))
            n_samples = [None, None, 1024, 777, 4096][int(rng.integers(0, 5))]
            records = make_records(rng, n_records, kinds, dts, n_samples)
            fnyq = 1/(2*max(dts[:n_records]))
            overrides = {}
            if rng.random() < 0.5:
                overrides["handle_dissimilar_time_steps_by"] = str(rng.choice(
                    ["frequency_domain_resampling", "keeping_smallest_time_step", "keeping_majority_time_step"]))
            operator = OPS[case % len(OPS)] if case < 84 else None
            settings, label = make_settings(rng, flavour, fnyq, operator=operator, **overrides)
            if flavour == "psd" and rng.random() < 0.25:
                settings.smoothing = None
                label += " smoothing=None"
            tag = f"P {case} {label} nrec={n_records} dts={dts} kinds={kinds} ns={n_samples}"
            with warnings.catch_warnings():
                warnings.simplefilter("ignore")
                first = run_process(tag, records, settings)
                # same objects again: no state kept in records, settings or the package.
                second = run_process(tag + " again", records, settings)
                emit("repeatable", desc(first) == desc(second))
                if case % 3 == 0:
                    # results are independent of what the caller holds, and vice versa.
                    kept = desc(first)
                    r2, s2 = copy.deepcopy(records), copy.deepcopy(settings)
                    held = snapshot(r2, s2)
                    scramble(records, settings)
                    emit("result independent of inputs", kept == desc(first))
                    edit_result(first)
                    third = observe(tag + " copies", lambda: hvsrpy.process(r2, s2))
                    emit("inputs independent of result", held == snapshot(r2, s2), desc(third) == desc(second))
                if case % 10 == 0 and second is not None and not isinstance(second, dict):
                    fname = os.path.join(tmpdir, f"out.{case}.hv")
                    observe(tag + " write", lambda: hvsrpy.write_hvsr_object_to_file(second, fname))
                    if os.path.exists(fname):
                        with open(fname, "rb") as f:
                            emit("file", hashlib.sha256(f.read()).hexdigest())
                        observe(tag + " read", lambda: hvsrpy.read_hvsr_object_from_file(fname))
                if case % 25 == 0 and isinstance(second, hvsrpy.HvsrTraditional):
                    drawn = observe(tag + " plot", lambda: hvsrpy.plot_single_panel_hvsr_curves(second),
                                    describe=lambda v: "figure")
                    if drawn is not None:
                        fig, ax = drawn
                        emit("drawn", [arr(np.asarray(line.get_xydata(), dtype=float)) for line in ax.get_lines()],
                             ax.get_xlabel(), ax.get_ylabel(), ax.get_xscale())
                        import matplotlib.pyplot as plt
                        plt.close("all")

        # ---- every operator with every entry point, fixed data -------------
        records = make_records(rng, 3, ("plain",), (0.01,), 900)
        for operator in OPS:
            for flavour in flavours:
                settings, label = make_settings(rng, flavour, 50., operator=operator, fcs_kind="geom")
                run_process(f"G {label}", records, settings)
        for method in COMBINE:
            settings, label = make_settings(rng, "traditional", 50., method_to_combine_horizontals=method)
            run_process(f"C {label}", records, settings)

        # ---- dead channels: inf / NaN and the errors raised for them ---------
        for case, kinds in enumerate([("dead_vt",), ("dead_ns",), ("dead_ew",), ("dead_h",), ("dead_all",),
                                      ("plain", "dead_vt", "plain"), ("plain", "dead_h"), ("dead_all", "plain"),
                                      ("constant",), ("huge",), ("huge", "tiny")]):
            for flavour in flavours:
                records = make_records(rng, len(kinds), kinds, (0.01, 0.02) if case % 2 else (0.01,), 600)
                settings, label = make_settings(rng, flavour, 25.)
                run_process(f"D {case} {kinds} {label}", records, settings)
                run_process(f"D {case} {kinds} {label} again", records, settings)

        # ---- direct calls of the module-level functions (settings are edited) --
        direct = {"traditional": pr.traditional_hvsr_processing,
                  "single_azimuth": pr.traditional_single_azimuth_hvsr_processing,
                  "rotdpp": pr.traditional_rotdpp_hvsr_processing,
                  "azimuthal": pr.azimuthal_hvsr_processing,
                  "diffuse_field": pr.diffuse_field_hvsr_processing,
                  "psd": pr.rpsd}
        for case in range(36):
            flavour = flavours[case % len(flavours)]
            dts = [(0.01,), (0.01, 0.02), (0.005, 0.01, 0.005)][case % 3]
            records = make_records(rng, 1 + case % 4, ("plain",), dts, [512, None, 2000][case % 3])
            settings, label = make_settings(rng, flavour, 1/(2*max(dts)))
            rec_before = desc(records)
            result = observe(f"M {case} {label}", lambda: direct[flavour](records, settings))
            emit("records kept", rec_before == desc(records), "settings now", desc(settings))
            result = observe(f"M {case} {label} again", lambda: direct[flavour](records, settings))
            emit("records kept", rec_before == desc(records), "settings now", desc(settings))
            if flavour in ("traditional", "single_azimuth", "rotdpp"):
                observe(f"M {case} base {label}", lambda: pr.traditional_hvsr_processing_base(records, settings))
            # tuple of records, records of a subclass
            observe(f"M {case} tuple {label}", lambda: hvsrpy.process(tuple(records), settings))

        # ---- helpers that exist in both trees --------------------------------
        records = make_records(rng, 4, ("plain",), (0.01, 0.02, 0.01, 0.005), None)
        for how in ["frequency_domain_resampling", "keeping_smallest_time_step", "keeping_majority_time_step", "other"]:
            settings, _ = make_settings(rng, "traditional", 25., handle_dissimilar_time_steps_by=how)
            observe(f"H prepare {how}", lambda: pr.prepare_records_with_inconsistent_dt(records, settings),
                    describe=lambda v: desc(v) if v is None else f"{len(v[0])} {[records.index(r) for r in v[0]]} {v[1]!r}")
        for fft in [None, dict(), dict(n=None), dict(n=5), dict(n=2**16), dict(n=2**15), dict(n=2**15 + 1), dict(n=1.5)]:
            settings, _ = make_settings(rng, "traditional", 25., fft_settings=fft)
            observe(f"H fft {fft!r}", lambda: (pr.prepare_fft_settings(records, settings), settings.fft_settings)[1])
        for n in [0, 1, 32767, 32768, 32769, 10**6]:
            observe(f"H nextpow2 {n}", lambda: pr.nextpow2(n))
        observe("H nyquist ok", lambda: pr.check_nyquist_frequency(0.01, np.array([1., 50.])))
        observe("H nyquist high", lambda: pr.check_nyquist_frequency(0.01, np.array([1., 50.001])))
        observe("H nyquist list", lambda: pr.check_nyquist_frequency(0.01, [60, 1]))
        observe("H nyquist empty", lambda: pr.check_nyquist_frequency(0.01, np.array([])))
        settings, _ = make_settings(rng, "psd", 25., fft_settings=dict(n=2048))
        observe("H rpds", lambda: pr._rpds_single_component([r.vt for r in records], settings))
        observe("H rpds empty", lambda: pr._rpds_single_component([], settings))
        settings.fft_settings = {}
        observe("H rpds no n", lambda: pr._rpds_single_component([records[0].ns, records[2].ns], settings))
        a, b = rng.random(7), rng.random(7)
        for name, fn in pr.COMBINE_HORIZONTAL_REGISTER.items():
            observe(f"H combine {name}", lambda: fn(a, b, None))
        observe("H single_azimuth", lambda: pr.single_azimuth(a, b, 33.))
        emit("registers", sorted(pr.TRADITIONAL_PROCESSING_REGISTER), sorted(pr.PROCESSING_METHODS),
             sorted(sm.SMOOTHING_OPERATORS),
             [pr.TRADITIONAL_PROCESSING_REGISTER[k].__name__ for k in sorted(pr.TRADITIONAL_PROCESSING_REGISTER)],
             [pr.PROCESSING_METHODS[k].__name__ for k in sorted(pr.PROCESSING_METHODS)])

        # ---- error paths; each followed by the same call and by a repaired one --
        records = make_records(rng, 3, ("plain",), (0.01, 0.01, 0.02), 700)
        good_fcs = np.geomspace(0.3, 20, 15)

        def broken(flavour, edit):
            settings, label = make_settings(rng, flavour, 25., operator="konno_and_ohmachi", fcs_kind="geom")
            repaired = copy.deepcopy(settings)
            edit(settings)
            return settings, repaired, label

        def set_smoothing(**kw):
            def edit(s):
                for k, v in kw.items():
                    if v is KeyError:
                        del s.smoothing[k]
                    else:
                        s.smoothing[k] = v
            return edit

        def set_attr(**kw):
            def edit(s):
                for k, v in kw.items():
                    setattr(s, k, v)
            return edit

        edits = {
            "above nyquist": set_smoothing(center_frequencies_in_hz=np.array([1., 26., 3.])),
            "at nyquist": set_smoothing(center_frequencies_in_hz=np.array([1., 25., 3.])),
            "unknown operator": set_smoothing(operator="boxcar"),
            "operator None": set_smoothing(operator=None),
            "no operator": set_smoothing(operator=KeyError),
            "no bandwidth": set_smoothing(bandwidth=KeyError),
            "no fcs": set_smoothing(center_frequencies_in_hz=KeyError),
            "no operator, no fcs": set_smoothing(operator=KeyError, center_frequencies_in_hz=KeyError),
            "scalar fcs": set_smoothing(center_frequencies_in_hz=3.),
            "empty fcs": set_smoothing(center_frequencies_in_hz=[]),
            "2d fcs": set_smoothing(center_frequencies_in_hz=np.array([[1., 2.], [3., 4.]])),
            "nan fcs": set_smoothing(center_frequencies_in_hz=np.array([1., np.nan, 3.])),
            "negative fcs": set_smoothing(center_frequencies_in_hz=np.array([-1., 2., 3.])),
            "string fcs": set_smoothing(center_frequencies_in_hz=["1", "2"]),
            "ragged fcs": set_smoothing(center_frequencies_in_hz=[[1., 2.], [3.]]),
            "zero bandwidth": set_smoothing(bandwidth=0),
            "string bandwidth": set_smoothing(bandwidth="40"),
            "None bandwidth": set_smoothing(bandwidth=None),
            "nan bandwidth": set_smoothing(bandwidth=np.nan),
            "negative bandwidth": set_smoothing(bandwidth=-40.),
            "even savitzky": set_smoothing(operator="savitzky_and_golay", bandwidth=8),
            "negative savitzky": set_smoothing(operator="savitzky_and_golay", bandwidth=-3),
            "zero triangular": set_smoothing(operator="linear_triangular", bandwidth=0,
                                             center_frequencies_in_hz=np.fft.rfftfreq(32768, 0.01)[100:110]),
            "zero log triangular": set_smoothing(operator="log_triangular", bandwidth=0,
                                                 center_frequencies_in_hz=np.fft.rfftfreq(32768, 0.01)[100:110]),
            "zero rectangular": set_smoothing(operator="linear_rectangular", bandwidth=0,
                                              center_frequencies_in_hz=np.fft.rfftfreq(32768, 0.01)[100:110]),
            "smoothing None": set_attr(smoothing=None),
            "smoothing list": set_attr(smoothing=["konno_and_ohmachi", 40, good_fcs]),
            "window type": set_attr(window_type_and_width=["hann", 0.1]),
            "window width": set_attr(window_type_and_width=["tukey", "wide"]),
            "window short": set_attr(window_type_and_width=["tukey"]),
            "window long": set_attr(window_type_and_width=["tukey", 0.1, 3]),
            "window None": set_attr(window_type_and_width=None),
            "window width 2": set_attr(window_type_and_width=["tukey", 2.]),
            "fft kwarg": set_attr(fft_settings=dict(n=None, bogus=1)),
            "fft float n": set_attr(fft_settings=dict(n=70000.)),
            "fft str n": set_attr(fft_settings=dict(n="many")),
            "fft list": set_attr(fft_settings=[("n", 4096)]),
            "dissimilar": set_attr(handle_dissimilar_time_steps_by="anyhow"),
            "dissimilar None": set_attr(handle_dissimilar_time_steps_by=None),
            "method": set_attr(processing_method="other"),
            "combine": set_attr(method_to_combine_horizontals="other"),
            "azimuth str": set_attr(azimuth_in_degrees="north"),
            "azimuth None": set_attr(azimuth_in_degrees=None),
            "azimuths None": set_attr(azimuths_in_degrees=None),
            "azimuths empty": set_attr(azimuths_in_degrees=[]),
            "azimuths scalar": set_attr(azimuths_in_degrees=30.),
            "percentile": set_attr(ppth_percentile_for_rotdpp_computation=150),
            "percentile None": set_attr(ppth_percentile_for_rotdpp_computation=None),
        }
        for name, edit in edits.items():
            for flavour in flavours:
                settings, repaired, label = broken(flavour, edit)
                run_process(f"E {name} {flavour}", records, settings)
                run_process(f"E {name} {flavour} again", records, settings)
                run_process(f"E {name} {flavour} repaired", records, repaired)
                if name in ("combine", "above nyquist", "no operator, no fcs", "unknown operator", "window type"):
                    s2 = copy.deepcopy(settings)
                    observe(f"E {name} {flavour} direct", lambda: direct[flavour](records, s2))
                    emit("settings now", desc(s2))

        # ---- unusual records arguments ----------------------------------------
        for flavour in flavours:
            settings, label = make_settings(rng, flavour, 25., operator="parzen", fcs_kind="lin")
            run_process(f"R empty list {flavour}", [], settings)
            run_process(f"R none {flavour}", None, settings)
            run_process(f"R single record {flavour}", records[0], settings)
            run_process(f"R generator {flavour}", (r for r in records), settings)
            run_process(f"R array of records {flavour}", np.array(records, dtype=object), settings)
            run_process(f"R same record twice {flavour}", [records[0], records[0]], settings)
            run_process(f"R settings None {flavour}", records, None)
            short = make_records(rng, 2, ("plain",), (0.01,), 2)
            run_process(f"R two samples {flavour}", short, settings)
            one = make_records(rng, 1, ("plain",), (0.01,), 1)
            run_process(f"R one sample {flavour}", one, settings)
            # a recording whose components were edited to dissimilar lengths.
            odd = make_records(rng, 2, ("plain",), (0.01,), 500)
            odd[1].ew.amplitude = odd[1].ew.amplitude[:300]
            run_process(f"R ew shorter {flavour}", odd, settings)
            odd[1].vt.amplitude = odd[1].vt.amplitude[:0]
            run_process(f"R vt empty {flavour}", odd, settings)
            odd = make_records(rng, 2, ("plain",), (0.01,), 500)
            odd[0].vt.amplitude[100] = np.nan
            odd[1].ns.amplitude[7] = np.inf
            run_process(f"R nan and inf samples {flavour}", odd, settings)

        # ---- long request sequences sharing objects -----------------------------
        records = make_records(rng, 4, ("plain", "ints"), (0.01, 0.02), 800)
        shared_fcs = np.geomspace(0.4, 20, 21)
        pool = {}
        for flavour in flavours:
            pool[flavour], _ = make_settings(rng, flavour, 25., operator="log_rectangular", fcs_kind="geom")
            pool[flavour].smoothing["center_frequencies_in_hz"] = shared_fcs     # shared by all settings
        for step in range(60):
            flavour = flavours[int(rng.integers(0, len(flavours)))]
            settings = pool[flavour]
            action = int(rng.integers(0, 6))
            if action == 0:
                settings.smoothing["operator"] = str(rng.choice(OPS))
                settings.smoothing["bandwidth"] = {"savitzky_and_golay": 5}.get(settings.smoothing["operator"], 0.6)
            elif action == 1:
                shared_fcs[:] = rng.permutation(shared_fcs)
            elif action == 2:
                settings.fft_settings = [None, dict(n=None), dict(n=50000)][int(rng.integers(0, 3))]
            elif action == 3:
                settings.smoothing["operator"] = "nope"      # interrupted call ...
            elif action == 4:
                records = records[1:] + records[:1]
            run_process(f"S {step} {flavour} action={action} op={settings.smoothing['operator']}", records, settings)
            if action == 3:
                settings.smoothing["operator"] = "konno_and_ohmachi"   # ... repeated after repair
                settings.smoothing["bandwidth"] = 30
                run_process(f"S {step} {flavour} repaired", records, settings)
    finally:
        shutil.rmtree(tmpdir, ignore_errors=True)


def main():
    with warnings.catch_warnings():
        warnings.simplefilter("ignore")
        kernels()
    processing()
    print(f"DIGEST {H.hexdigest()}")
    if VERBOSE:
        print(f"({N_EMIT[0]} observations)", file=sys.stderr)


if __name__ == "__main__":
    main()
