"""Equivalence harness for the window-rejection / peak-search refactoring.

Usage
-----
    python _refactor/equivalence.py run OUT.json        # exercise the tree this file lives in
    python _refactor/equivalence.py compare A.json B.json

``run`` imports hvsrpy from the parent directory of ``_refactor`` and writes
every result of a large, seeded set of scenarios to ``OUT.json``. Each result
is stored either as ``exact`` (discrete outcomes: masks, indices, iteration
counts, meta, exception types and messages, selected grid values) or as
``num`` (floating-point quantities together with the scale of the data they
were derived from). ``compare`` requires exact entries to be identical and
numeric entries to agree to rtol=1e-12, atol=1e-12*scale.

"""

import json
import logging
import os
import sys
import warnings

HERE = os.path.dirname(os.path.abspath(__file__))
sys.path.insert(0, os.path.dirname(HERE))

import numpy as np  # noqa: E402

RTOL = 1e-12

NUMERIC_LOG_LABELS = ("mean_fn_before", "std_fn_before", "mc_peak_frq_before",
                      "diff_before", "mean_fn_after", "std_fn_after",
                      "mc_peak_frq_after", "d_after", "d_diff", "s_diff")


# --------------------------------------------------------------------------
# recording helpers
# --------------------------------------------------------------------------

def _plain(obj):
    """Make obj json serialisable without losing discrete information."""
    if isinstance(obj, dict):
        return {str(k): _plain(v) for k, v in obj.items()}
    if isinstance(obj, (list, tuple)):
        return [_plain(v) for v in obj]
    if isinstance(obj, np.ndarray):
        return _plain(obj.tolist())
    if isinstance(obj, (np.bool_, bool)):
        return bool(obj)
    if isinstance(obj, np.integer):
        return int(obj)
    if isinstance(obj, np.floating):
        return float(obj)
    if obj is None or isinstance(obj, (int, float, str)):
        return obj
    return repr(obj)


class Recorder():
    def __init__(self):
        self.entries = []

    def exact(self, name, value):
        self.entries.append(dict(name=name, kind="exact", value=_plain(value)))

    def num(self, name, value, scale):
        value = np.asarray(value, dtype=float)
        self.entries.append(dict(name=name, kind="num", shape=list(value.shape),
                                 value=[float(v) for v in value.ravel()],
                                 scale=float(scale)))

    def call(self, name, fxn, *args, **kwargs):
        """Call fxn, record the exception (if any), return (ok, result)."""
        try:
            result = fxn(*args, **kwargs)
        except Exception as e:  # noqa: BLE001
            self.exact(name + ":exception", [type(e).__name__, str(e)])
            return (False, None)
        self.exact(name + ":exception", None)
        return (True, result)


class LogCapture(logging.Handler):
    def __init__(self):
        super().__init__(level=logging.DEBUG)
        self.records = []

    def emit(self, record):
        self.records.append((record.levelname, record.getMessage()))


def record_log(rec, name, records, scale):
    """Numeric debug values are compared numerically, everything else exactly."""
    structure = []
    numbers = []
    for level, message in records:
        label, sep, value = message.strip().partition(": ")
        if sep and label in NUMERIC_LOG_LABELS:
            structure.append([level, label])
            numbers.append(float(value))
        else:
            structure.append([level, message])
    rec.exact(name + ":log_structure", structure)
    rec.num(name + ":log_values", numbers, scale)


# --------------------------------------------------------------------------
# synthetic data
# --------------------------------------------------------------------------

def make_frequency(rng):
    n = int(rng.integers(24, 200))
    kind = rng.integers(0, 3)
    if kind == 0:
        return np.geomspace(0.1, 50, n)
    elif kind == 1:
        return np.linspace(0.2, 25, n)
    else:
        return np.sort(rng.uniform(0.1, 40, n))


def make_curves(rng, frequency, n_windows, sigma, outlier_fraction=0.15,
                no_peak_fraction=0.0, quantize=None, noise=0.03):
    f_center = np.exp(rng.uniform(np.log(0.8), np.log(8)))
    amplitude = np.empty((n_windows, len(frequency)))
    for idx in range(n_windows):
        f0 = f_center*np.exp(sigma*rng.standard_normal())
        if rng.random() < outlier_fraction:
            f0 *= np.exp(rng.choice([-1, 1])*rng.uniform(0.8, 1.8))
        width = rng.uniform(0.15, 0.5)
        height = rng.uniform(1.5, 6)
        curve = 1 + height*np.exp(-0.5*((np.log(frequency) - np.log(f0))/width)**2)
        # secondary bump.
        f1 = f0*np.exp(rng.uniform(0.8, 1.5))
        curve += 0.4*height*rng.random()*np.exp(-0.5*((np.log(frequency) - np.log(f1))/0.2)**2)
        curve *= np.exp(noise*rng.standard_normal(len(frequency)))
        if rng.random() < no_peak_fraction:
            curve = np.linspace(1, 2, len(frequency)) if rng.random() < 0.5 else np.full(len(frequency), 1.5)
        amplitude[idx] = curve
    if quantize is not None:
        amplitude = np.round(amplitude/quantize)*quantize + quantize
    return amplitude


def record_hvsr_state(rec, name, hvsr, scale):
    """Everything observable on an HvsrTraditional after a call."""
    rec.exact(name + ":valid_window_boolean_mask", hvsr.valid_window_boolean_mask)
    rec.exact(name + ":valid_peak_boolean_mask", hvsr.valid_peak_boolean_mask)
    rec.exact(name + ":meta", hvsr.meta)
    # peaks are grid values selected by index -> must be identical.
    rec.exact(name + ":_main_peak_frq", [repr(float(v)) for v in hvsr._main_peak_frq])
    rec.exact(name + ":_main_peak_amp", [repr(float(v)) for v in hvsr._main_peak_amp])
    for distribution in ("lognormal", "normal"):
        for attr in ("mean_fn_frequency", "std_fn_frequency", "mean_fn_amplitude",
                     "std_fn_amplitude", "mean_curve", "std_curve", "mean_curve_peak", "cov_fn"):
            ok, value = rec.call(f"{name}:{attr}:{distribution}", getattr(hvsr, attr), distribution)
            if ok:
                rec.num(f"{name}:{attr}:{distribution}", value, scale)
        for n in (-1, 1.5):
            ok, value = rec.call(f"{name}:nth_std_fn_frequency:{n}:{distribution}",
                                 hvsr.nth_std_fn_frequency, n, distribution)
            if ok:
                rec.num(f"{name}:nth_std_fn_frequency:{n}:{distribution}", value, scale)


# --------------------------------------------------------------------------
# scenarios
# --------------------------------------------------------------------------

def scenario_peak_search(rec, hvsrpy, rng):
    HvsrCurve = hvsrpy.HvsrCurve
    for case in range(1500):
        n = int(rng.integers(1, 40))
        kind = case % 6
        if kind == 0:
            amplitude = rng.integers(0, 4, n).astype(float)        # many plateaus
        elif kind == 1:
            amplitude = rng.random(n)
        elif kind == 2:
            amplitude = np.round(rng.random(n)*5)/5
        elif kind == 3:
            amplitude = rng.integers(0, 3, n).astype(float)
            amplitude[rng.random(n) < 0.1] = np.inf
        elif kind == 4:
            amplitude = np.abs(np.cumsum(rng.integers(-1, 2, n))).astype(float)
        else:
            amplitude = rng.integers(0, 50, n)                     # integer dtype
        grid = rng.integers(0, 4)
        if grid == 0:
            frequency = np.geomspace(0.1, 20, n)
        elif grid == 1:
            frequency = np.sort(rng.integers(1, 12, n)).astype(float)   # repeated values
        elif grid == 2:
            frequency = np.arange(n)
        else:
            frequency = np.sort(rng.uniform(0.1, 20, n))
        name = f"peak_search:{case}"

        ok, value = rec.call(name + ":unbounded", HvsrCurve._find_peak_unbounded, frequency, amplitude)
        if ok:
            rec.exact(name + ":unbounded", [repr(v) for v in value])

        for sub in range(4):
            lo = rng.choice([None, float(rng.uniform(0, 22)), float(frequency[rng.integers(0, n)]),
                             float(rng.integers(0, 13)), float(rng.integers(0, 25))/2])
            hi = rng.choice([None, float(rng.uniform(0, 22)), float(frequency[rng.integers(0, n)]),
                             float(rng.integers(0, 13)), float(rng.integers(0, 25))/2])
            search_range = (lo, hi)
            kwargs = [None, {}, dict(prominence=0.2), dict(height=1.0, distance=2)][sub]
            ok, value = rec.call(f"{name}:{sub}:index_range", HvsrCurve._search_range_to_index_range,
                                 frequency, search_range)
            if ok:
                rec.exact(f"{name}:{sub}:index_range", [int(v) for v in value])
            ok, value = rec.call(f"{name}:{sub}:bounded", HvsrCurve._find_peak_bounded,
                                 frequency, amplitude, search_range, kwargs)
            if ok:
                rec.exact(f"{name}:{sub}:bounded", [repr(v) for v in value])

        # object level, with a call sequence.
        ok, curve = rec.call(name + ":init", HvsrCurve, frequency, amplitude, dict(a=1))
        if not ok:
            continue
        rec.exact(name + ":init:peak", [repr(curve.peak_frequency), repr(curve.peak_amplitude)])
        for step, (search_range, kwargs) in enumerate([((None, float(frequency[n//2])), None),
                                                       ((None, float(frequency[n//2])), None),
                                                       ((float(frequency[n//3]), None), dict(prominence=0.1)),
                                                       ((None, None), {})]):
            ok, _ = rec.call(f"{name}:update:{step}", curve.update_peaks_bounded, search_range, kwargs)
            rec.exact(f"{name}:update:{step}:peak", [repr(curve.peak_frequency), repr(curve.peak_amplitude)])
            rec.exact(f"{name}:update:{step}:meta", curve.meta)

    # special index-range cases: unsorted, descending, nan / inf limits.
    for case in range(200):
        n = int(rng.integers(1, 15))
        frequency = rng.uniform(0.1, 20, n)
        if case % 2:
            frequency = np.sort(frequency)[::-1].copy()
        for limit in (float(rng.uniform(0, 22)), np.inf, -np.inf, np.nan, 1e17, -5.):
            with warnings.catch_warnings():
                warnings.simplefilter("ignore")
                ok, value = rec.call(f"index_range_special:{case}:{limit}",
                                     hvsrpy.HvsrCurve._search_range_to_index_range,
                                     frequency, (limit, limit))
            if ok:
                rec.exact(f"index_range_special:{case}:{limit}", [int(v) for v in value])
    ok, _ = rec.call("index_range_special:empty", hvsrpy.HvsrCurve._search_range_to_index_range,
                     np.array([]), (1., 2.))
    ok, _ = rec.call("index_range_special:2d", hvsrpy.HvsrCurve._find_peak_unbounded,
                     np.arange(4.), np.ones((2, 4)))


def run_rejection(rec, name, hvsrpy, hvsr, scale, **kwargs):
    handler = LogCapture()
    wr_logger = logging.getLogger("hvsrpy.window_rejection")
    previous_level = wr_logger.level
    wr_logger.setLevel(logging.DEBUG)
    wr_logger.addHandler(handler)
    try:
        ok, value = rec.call(name + ":fdwra", hvsrpy.frequency_domain_window_rejection, hvsr, **kwargs)
    finally:
        wr_logger.removeHandler(handler)
        wr_logger.setLevel(previous_level)
    if ok:
        rec.exact(name + ":iterations", value)
    record_log(rec, name, handler.records, scale)
    hvsrs = hvsr.hvsrs if isinstance(hvsr, hvsrpy.HvsrAzimuthal) else [hvsr]
    for idx, _hvsr in enumerate(hvsrs):
        record_hvsr_state(rec, f"{name}:state:{idx}", _hvsr, scale)
    if isinstance(hvsr, hvsrpy.HvsrAzimuthal):
        rec.exact(name + ":azimuthal_meta", hvsr.meta)
        for distribution in ("lognormal", "normal"):
            for attr in ("mean_fn_frequency", "std_fn_frequency", "mean_curve_peak"):
                ok, value = rec.call(f"{name}:az:{attr}:{distribution}", getattr(hvsr, attr), distribution)
                if ok:
                    rec.num(f"{name}:az:{attr}:{distribution}", value, scale)


def scenario_rejection_traditional(rec, hvsrpy, rng):
    for case in range(400):
        frequency = make_frequency(rng)
        scale = float(np.max(frequency))
        n_windows = int(rng.choice([2, 3, 4, 5, 8, 15, 30, 60, 120, 300]))
        sigma = float(rng.choice([0.05, 0.15, 0.3, 0.6]))
        quantize = [None, None, 0.1, 0.5][case % 4]
        amplitude = make_curves(rng, frequency, n_windows, sigma,
                                outlier_fraction=float(rng.choice([0, 0.1, 0.3])),
                                no_peak_fraction=float(rng.choice([0, 0, 0.1])),
                                quantize=quantize)
        name = f"fdwra_traditional:{case}"
        ok, hvsr = rec.call(name + ":init", hvsrpy.HvsrTraditional, frequency, amplitude, dict(case=case))
        if not ok:
            continue
        record_hvsr_state(rec, name + ":initial", hvsr, scale)

        kwargs = dict(n=float(rng.choice([1, 1.37, 2, 2.5, 3])),
                      max_iterations=int(rng.choice([1, 2, 3, 50, 50, 50])),
                      distribution_fn=str(rng.choice(["lognormal", "normal", "log-normal"])),
                      distribution_mc=str(rng.choice(["lognormal", "normal"])))
        if case % 3 == 1:
            kwargs["search_range_in_hz"] = (float(rng.uniform(0.2, 1)), float(rng.uniform(8, 30)))
        if case % 5 == 2:
            kwargs["find_peaks_kwargs"] = dict(prominence=0.05)
        with warnings.catch_warnings():
            warnings.simplefilter("ignore")
            run_rejection(rec, name + ":first", hvsrpy, hvsr, scale, **kwargs)
            # call sequence: again with other arguments on the same object.
            if case % 2 == 0:
                run_rejection(rec, name + ":second", hvsrpy, hvsr, scale, n=1.5,
                              distribution_fn="normal", distribution_mc="lognormal")
            if case % 4 == 0:
                hvsr.update_peaks_bounded(search_range_in_hz=(0.5, 20), find_peaks_kwargs={})
                record_hvsr_state(rec, name + ":after_update", hvsr, scale)
                # masks set by hand (as the time-domain rejections do) survive
                # the peak update when the arguments are unchanged.
                manual = rng.random(hvsr.n_curves) < 0.8
                hvsr.valid_window_boolean_mask = np.array(manual)
                hvsr.valid_peak_boolean_mask = np.array(manual)
                run_rejection(rec, name + ":third", hvsrpy, hvsr, scale, n=2,
                              search_range_in_hz=(0.5, 20), find_peaks_kwargs={})


def scenario_rejection_azimuthal(rec, hvsrpy, rng):
    for case in range(40):
        frequency = make_frequency(rng)
        scale = float(np.max(frequency))
        n_windows = int(rng.choice([3, 10, 40]))
        n_azimuths = int(rng.choice([2, 4, 6]))
        hvsrs = [hvsrpy.HvsrTraditional(frequency,
                                        make_curves(rng, frequency, n_windows, 0.3))
                 for _ in range(n_azimuths)]
        azimuths = list(np.linspace(0, 180, n_azimuths, endpoint=False))
        name = f"fdwra_azimuthal:{case}"
        ok, hvsr = rec.call(name + ":init", hvsrpy.HvsrAzimuthal, hvsrs, azimuths, dict(case=case))
        if not ok:
            continue
        with warnings.catch_warnings():
            warnings.simplefilter("ignore")
            run_rejection(rec, name + ":first", hvsrpy, hvsr, scale,
                          n=float(rng.choice([1.5, 2, 2.5])),
                          distribution_fn=str(rng.choice(["lognormal", "normal"])),
                          distribution_mc=str(rng.choice(["lognormal", "normal"])),
                          search_range_in_hz=(None, None) if case % 2 else (0.3, 30))


def scenario_rejection_edge_cases(rec, hvsrpy, rng):
    frequency = np.geomspace(0.1, 50, 80)
    scale = 50.

    def bump(f0, height=4.):
        return 1 + height*np.exp(-0.5*((np.log(frequency) - np.log(f0))/0.3)**2)

    cases = {}
    cases["single_window"] = np.array([bump(2.)])
    cases["two_identical"] = np.array([bump(2.), bump(2.)])
    cases["many_identical_peaks"] = np.array([bump(2., h) for h in (2, 3, 4, 5, 6, 7, 8)])
    cases["two_different"] = np.array([bump(1.), bump(4.)])
    cases["all_flat"] = np.ones((4, len(frequency)))
    cases["increasing_and_decreasing"] = np.array([np.linspace(1, 3, len(frequency)),
                                                   np.linspace(3, 1, len(frequency))**2])
    cases["some_without_peak"] = np.array([bump(2.), bump(2.2), bump(1.9), np.linspace(1, 2, len(frequency)),
                                           bump(2.1), np.full(len(frequency), 2.), bump(9.)])
    cases["one_outlier_of_four"] = np.array([bump(2.), bump(2.), bump(2.), bump(6.)])
    cases["wide_scatter"] = np.array([bump(f) for f in np.geomspace(0.3, 30, 25)])

    variants = [dict(),
                dict(n=1), dict(n=0), dict(n=-2), dict(n=np.inf), dict(n=0.5, max_iterations=3),
                dict(max_iterations=0), dict(max_iterations=1),
                dict(distribution_fn="normal"), dict(distribution_mc="normal"),
                dict(distribution_fn="LogNormal"), dict(distribution_fn="exponential"),
                dict(distribution_mc="exponential"), dict(distribution_mc="Log-Normal"),
                dict(distribution_fn=None),
                dict(search_range_in_hz=(5, 40)), dict(search_range_in_hz=(1., None)),
                dict(find_peaks_kwargs=dict(height=3.5))]
    for label, amplitude in cases.items():
        for v_idx, kwargs in enumerate(variants):
            name = f"edge:{label}:{v_idx}"
            hvsr = hvsrpy.HvsrTraditional(frequency, amplitude)
            with warnings.catch_warnings():
                warnings.simplefilter("ignore")
                run_rejection(rec, name, hvsrpy, hvsr, scale, **kwargs)
                run_rejection(rec, name + ":again", hvsrpy, hvsr, scale, **kwargs)

    # peak mask valid for a window that has no peak (as after a time-domain
    # rejection that overwrote the masks), both masks being the same object, etc.
    for v_idx in range(6):
        hvsr = hvsrpy.HvsrTraditional(frequency, cases["some_without_peak"])
        hvsr.update_peaks_bounded(search_range_in_hz=(None, None), find_peaks_kwargs={})
        if v_idx == 0:
            hvsr.valid_window_boolean_mask = np.ones(hvsr.n_curves, dtype=bool)
            hvsr.valid_peak_boolean_mask = np.ones(hvsr.n_curves, dtype=bool)
        elif v_idx == 1:
            mask = np.ones(hvsr.n_curves, dtype=bool)
            hvsr.valid_window_boolean_mask = mask
            hvsr.valid_peak_boolean_mask = mask
        elif v_idx == 2:
            hvsr.valid_window_boolean_mask = np.zeros(hvsr.n_curves, dtype=bool)
            hvsr.valid_peak_boolean_mask = np.zeros(hvsr.n_curves, dtype=bool)
        elif v_idx == 3:
            hvsr.valid_peak_boolean_mask = np.zeros(hvsr.n_curves, dtype=bool)
        elif v_idx == 4:
            hvsr.valid_window_boolean_mask[:] = [True, False, True, True, False, True, True]
            hvsr.valid_peak_boolean_mask[:] = [True, False, True, True, False, True, True]
        else:
            hvsr.valid_peak_boolean_mask[:] = [True, False, False, False, False, False, False]
        window_mask_object = hvsr.valid_window_boolean_mask
        peak_mask_object = hvsr.valid_peak_boolean_mask
        with warnings.catch_warnings():
            warnings.simplefilter("ignore")
            run_rejection(rec, f"edge:manual_masks:{v_idx}", hvsrpy, hvsr, scale,
                          search_range_in_hz=(None, None), find_peaks_kwargs={})
        rec.exact(f"edge:manual_masks:{v_idx}:mutated_in_place",
                  [window_mask_object is hvsr.valid_window_boolean_mask,
                   peak_mask_object is hvsr.valid_peak_boolean_mask])

    ok, _ = rec.call("edge:wrong_type", hvsrpy.frequency_domain_window_rejection,
                     hvsrpy.HvsrCurve(frequency, bump(2.)))


def scenario_large(rec, hvsrpy, rng):
    """Heavy-tailed window sets on fine grids: many iterations."""
    for case in range(12):
        frequency = np.geomspace(0.1, 50, 512)
        scale = 50.
        n_windows = int(rng.choice([200, 500, 1000]))
        f0 = 2*np.exp(0.25*rng.standard_t(2, n_windows))
        f0 = np.clip(f0, 0.2, 40)
        amplitude = 1 + 4*np.exp(-0.5*((np.log(frequency)[np.newaxis, :] - np.log(f0)[:, np.newaxis])/0.3)**2)
        amplitude *= np.exp(0.02*rng.standard_normal(amplitude.shape))
        hvsr = hvsrpy.HvsrTraditional(frequency, amplitude)
        with warnings.catch_warnings():
            warnings.simplefilter("ignore")
            run_rejection(rec, f"large:{case}", hvsrpy, hvsr, scale,
                          n=float(rng.choice([1, 1.5, 2, 3])),
                          distribution_fn=str(rng.choice(["lognormal", "normal"])))


def run(path):
    with warnings.catch_warnings():
        warnings.simplefilter("ignore")
        import hvsrpy
    tree = os.path.dirname(os.path.dirname(os.path.abspath(hvsrpy.__file__)))
    assert tree == os.path.dirname(HERE), f"imported hvsrpy from {tree}"
    rec = Recorder()
    rng = np.random.default_rng(20240607)
    with warnings.catch_warnings():
        # degenerate window sets (no / one valid peak) divide by zero on purpose.
        warnings.simplefilter("ignore")
        scenario_peak_search(rec, hvsrpy, rng)
        scenario_rejection_traditional(rec, hvsrpy, rng)
        scenario_rejection_azimuthal(rec, hvsrpy, rng)
        scenario_rejection_edge_cases(rec, hvsrpy, rng)
        scenario_large(rec, hvsrpy, rng)
    with open(path, "w") as f:
        json.dump(rec.entries, f)
    n_num = sum(len(e["value"]) for e in rec.entries if e["kind"] == "num")
    print(f"wrote {len(rec.entries)} entries ({n_num} floating-point values) to {path}")


# --------------------------------------------------------------------------
# comparison
# --------------------------------------------------------------------------

def compare(path_a, path_b):
    with open(path_a) as f:
        a_entries = json.load(f)
    with open(path_b) as f:
        b_entries = json.load(f)

    failures = []
    if len(a_entries) != len(b_entries):
        failures.append(f"number of entries differs: {len(a_entries)} vs {len(b_entries)}")

    max_rel, max_rel_name = 0., None
    n_exact = n_num = n_num_different = 0
    for a, b in zip(a_entries, b_entries):
        if a["name"] != b["name"] or a["kind"] != b["kind"]:
            failures.append(f"entry mismatch: {a['name']} vs {b['name']}")
            break
        if a["kind"] == "exact":
            n_exact += 1
            # nan != nan in python, compare the serialised form.
            if json.dumps(a["value"], sort_keys=True) != json.dumps(b["value"], sort_keys=True):
                failures.append(f"exact entry differs: {a['name']}: {a['value']!r} vs {b['value']!r}")
            continue
        if a["shape"] != b["shape"]:
            failures.append(f"shape differs: {a['name']}")
            continue
        va, vb = np.array(a["value"], dtype=float), np.array(b["value"], dtype=float)
        n_num += va.size
        # non-finite values must be the same kind of non-finite value.
        finite = np.isfinite(va) & np.isfinite(vb)
        if not np.array_equal(va[~finite], vb[~finite], equal_nan=True):
            failures.append(f"non-finite values differ: {a['name']}")
        va, vb = va[finite], vb[finite]
        if va.size == 0:
            continue
        atol = RTOL*a["scale"]
        err = np.abs(va - vb)
        if np.any(err > atol + RTOL*np.maximum(np.abs(va), np.abs(vb))):
            worst = int(np.argmax(err))
            failures.append(f"numeric entry differs: {a['name']}: {va[worst]!r} vs {vb[worst]!r}")
        n_num_different += int(np.sum(err > 0))
        denominator = np.maximum(np.abs(va), np.abs(vb))
        rel = np.where(denominator > 0, err/np.where(denominator > 0, denominator, 1), 0)
        if rel.max() > max_rel:
            max_rel, max_rel_name = float(rel.max()), a["name"]

    print(f"exact entries compared: {n_exact}")
    print(f"floating-point values compared: {n_num} ({n_num_different} not bit-identical)")
    print(f"largest relative difference: {max_rel:.3e} ({max_rel_name})")
    if failures:
        print(f"FAILURES: {len(failures)}")
        for failure in failures[:40]:
            print("  " + failure[:400])
        return 1
    print("EQUIVALENT: all exact entries identical, all numeric entries within "
          f"rtol={RTOL:g}, atol={RTOL:g}*scale")
    return 0


if __name__ == "__main__":
    if len(sys.argv) == 3 and sys.argv[1] == "run":
        run(sys.argv[2])
    elif len(sys.argv) == 4 and sys.argv[1] == "compare":
        sys.exit(compare(sys.argv[2], sys.argv[3]))
    else:
        print(__doc__)
        sys.exit(2)
