"""Behavioural fingerprint of hvsrpy's file-reading dispatch and CLI.

Run as

    cd /tmp/r9/ctlK && PYTHONPATH=/tmp/r9/ctlK MPLBACKEND=Agg \
        /venv/bin/python _control/equiv.py [--dump transcript.txt]

Prints exactly one line ``DIGEST <sha256>``.  The digest covers everything
observable of several hundred seeded, randomised calls of

* ``hvsrpy.read_single`` / ``hvsrpy.read`` / the private ``_read_*``
  functions (returned recordings bit for bit, exception types and messages,
  log records, warnings, mutation of the caller's ``obspy_read_kwargs``,
  positions of caller supplied streams, consumption of caller supplied
  iterators, behaviour under a modified ``READ_FUNCTION_DICT``),
* ``hvsrpy.cli._process_hvsr`` called in-process (files written, printed
  line, open figures left behind, exception types), and
* the click command ``hvsrpy.cli.cli`` run with a real process pool (files
  written, exception types), including inputs for which the result depends
  on which tasks share one unpickled copy of the settings.

With ``--dump`` the full transcript that is hashed is also written to a file
(handy to diff two trees).
"""

import contextlib
import hashlib
import io
import itertools
import json
import logging
import os
import pathlib
import random
import re
import shutil
import sys
import tempfile
import warnings
from collections import namedtuple

import numpy as np
import obspy
import matplotlib
matplotlib.use("Agg")
import matplotlib.pyplot as plt

import hvsrpy
import hvsrpy.cli as hcli
from hvsrpy import data_wrangler as dw

HERE = os.path.dirname(os.path.abspath(__file__))
TMP = tempfile.mkdtemp(prefix="equiv_tmp_", dir=HERE)
TMP_REAL = os.path.realpath(TMP)

TRANSCRIPT = []


# --------------------------------------------------------------------------
# canonical descriptions
# --------------------------------------------------------------------------

_hex_re = re.compile(r"0x[0-9a-fA-F]+")
_tmpfile_re = re.compile(r"/tmp/(?!r9/)[^\s'\"\]\)]*")
_secs_re = re.compile(r"completed in \d+\.\d+ seconds")
_id_re = re.compile(r"samples at \d+")


def norm(text):
    text = str(text)
    text = text.replace(TMP_REAL, "<TMP>").replace(TMP, "<TMP>")
    text = _hex_re.sub("0x?", text)
    text = _tmpfile_re.sub("<SYSTMP>", text)
    text = _secs_re.sub("completed in ? seconds", text)
    text = _id_re.sub("samples at ?", text)
    return text


def arr(a):
    a = np.asarray(a)
    digest = hashlib.sha256(np.ascontiguousarray(a).tobytes()).hexdigest()[:20]
    return f"arr({a.dtype},{a.shape},{digest})"


def desc(obj):
    if isinstance(obj, hvsrpy.SeismicRecording3C):
        parts = []
        for name in ("ns", "ew", "vt"):
            ts = getattr(obj, name)
            parts.append(f"{name}={arr(ts.amplitude)}@{ts.dt_in_seconds!r}")
        parts.append(f"dfn={obj.degrees_from_north!r}:{type(obj.degrees_from_north).__name__}")
        parts.append(f"meta={norm(sorted(obj.meta.items(), key=lambda kv: str(kv[0])))}")
        return "SR3C(" + ", ".join(parts) + ")"
    if isinstance(obj, BaseException):
        cause = type(obj.__cause__).__name__ if obj.__cause__ is not None else None
        return f"EXC<{type(obj).__module__}.{type(obj).__qualname__}|{norm(obj)}|cause={cause}>"
    if isinstance(obj, np.ndarray):
        return arr(obj)
    if isinstance(obj, (list, tuple)):
        return type(obj).__name__ + "[" + ", ".join(desc(o) for o in obj) + "]"
    if isinstance(obj, dict):
        return "{" + ", ".join(f"{norm(repr(k))}: {desc(v)}" for k, v in obj.items()) + "}"
    return norm(repr(obj))


def emit(*items):
    TRANSCRIPT.append(" | ".join(item if isinstance(item, str) else desc(item) for item in items))


class _ListHandler(logging.Handler):
    def __init__(self):
        super().__init__(level=logging.DEBUG)
        self.records = []

    def emit(self, record):
        self.records.append(f"{record.name}:{record.levelname}:{norm(record.getMessage())}")


@contextlib.contextmanager
def observed():
    """Capture log records and warnings of everything run inside."""
    handler = _ListHandler()
    logger = logging.getLogger("hvsrpy")
    old_level = logger.level
    logger.setLevel(logging.DEBUG)
    logger.addHandler(handler)
    box = {}
    try:
        with warnings.catch_warnings(record=True) as caught:
            warnings.simplefilter("always")
            yield box
    finally:
        logger.removeHandler(handler)
        logger.setLevel(old_level)
        box["logs"] = handler.records
        box["warnings"] = [f"{w.category.__name__}:{os.path.basename(w.filename)}:{norm(w.message)}"
                           for w in caught
                           if "hvsrpy" in w.filename]


def call(label, function, *args, **kwargs):
    """Call and emit the outcome, logs and hvsrpy warnings."""
    with observed() as box:
        try:
            outcome = function(*args, **kwargs)
        except Exception as e:
            outcome = e
    emit(label, outcome, "LOGS", *box["logs"], "WARN", *box["warnings"])
    return outcome


# --------------------------------------------------------------------------
# synthetic data files
# --------------------------------------------------------------------------

def tmp(*parts):
    return os.path.join(TMP, *parts)


def make_traces(n, fs, channels, seed, station="STN"):
    rng = np.random.default_rng(seed)
    traces = []
    for channel in channels:
        data = (rng.standard_normal(n) * 1000).astype(np.int32)
        header = {"channel": channel, "station": station, "network": "XX",
                  "sampling_rate": fs,
                  "starttime": obspy.UTCDateTime(2020, 1, 1)}
        traces.append(obspy.Trace(data, header=header))
    return traces


def write_mseed(path, n=600, fs=100., channels=("HHE", "HHN", "HHZ"), seed=0):
    obspy.Stream(make_traces(n, fs, channels, seed)).write(path, format="MSEED")
    return path


def write_mseed_individual(prefix, n=600, fs=100., channels=("HHE", "HHN", "HHZ"), seed=0):
    paths = []
    for trace in make_traces(n, fs, channels, seed):
        path = f"{prefix}_{trace.stats.channel}.mseed"
        obspy.Stream([trace]).write(path, format="MSEED")
        paths.append(path)
    return paths


def write_sac(prefix, byteorder, n=500, fs=50., channels=("HHE", "HHN", "HHZ"), seed=0):
    paths = []
    for trace in make_traces(n, fs, channels, seed):
        trace.data = trace.data.astype(np.float32)
        path = f"{prefix}_{trace.stats.channel}.sac"
        trace.write(path, format="SAC", byteorder=byteorder)
        paths.append(path)
    return paths


def write_gcf(path, n=1000, fs=100., channels=("HHE", "HHN", "HHZ"), seed=0):
    traces = make_traces(n, fs, channels, seed, station="ABC")
    obspy.Stream(traces).write(path, format="GCF")
    return path


def saf_text(n=300, fs=100, seed=0, north_rot=0, order=("V", "N", "E"),
             newline="\n", npts_header=None, version=True):
    rng = np.random.default_rng(seed)
    lines = []
    if version:
        lines.append("SESAME ASCII data format (saf) v. 1    (this line must not be modified)")
    lines.append(f"SAMP_FREQ = {fs}")
    lines.append(f"NDAT = {n if npts_header is None else npts_header}")
    lines.append("START_TIME = 2021 11 22 13 31 10.000")
    if north_rot is not None:
        lines.append(f"NORTH_ROT = {north_rot}")
    lines.append("UNITS = Counts")
    for idx, comp in enumerate(order):
        lines.append(f"CH{idx}_ID = {comp}")
    lines.append("####--------------------------------")
    data = rng.integers(-30000, 30000, size=(n, 3))
    for row in data:
        lines.append(f"{row[0]} {row[1]} {row[2]}")
    return newline.join(lines) + newline


def minishark_text(n=300, fs=250, gain=4, conversion=6400, seed=0, npts_header=None):
    rng = np.random.default_rng(seed)
    lines = ["#File name:\tsynthetic",
             f"#Sample number:\t{n if npts_header is None else npts_header}",
             f"#Sample rate (sps):\t{fs}",
             f"#Gain:\t{gain}",
             f"#Conversion factor:\t{conversion}",
             "#Recording start time:\tX"]
    data = rng.integers(-30000, 30000, size=(n, 3))
    for row in data:
        lines.append(f"{row[0]}\t{row[1]}\t{row[2]}")
    return "\n".join(lines) + "\n"


def peer_text(direction, n=250, dt=".0200", seed=0):
    rng = np.random.default_rng(seed)
    lines = ["PEER NGA STRONG MOTION DATABASE RECORD",
             f"Synthetic-01, 1/17/1994, Somewhere - School, {direction}",
             "VELOCITY TIME SERIES IN UNITS OF CM/S",
             f"NPTS=   {n}, DT=   {dt} SEC"]
    data = rng.standard_normal(n)
    for start in range(0, n, 5):
        lines.append("".join(f"  {('%.7E' % v).replace('0.', '.')}"
                             if abs(v) < 1 else f"  {'%.7E' % v}" for v in data[start:start + 5]))
    return "\n".join(lines) + "\n"


def write_text(path, text):
    with open(path, "w", newline="") as f:
        f.write(text)
    return path


def build_files():
    F = {}
    F["mseed"] = write_mseed(tmp("comb.mseed"), seed=1)
    F["mseed_perm"] = write_mseed(tmp("comb_perm.mseed"), channels=("BHZ", "BHE", "BHN"), seed=2)
    F["mseed_badch"] = write_mseed(tmp("comb_badch.mseed"), channels=("HH1", "HH2", "HHZ"), seed=3)
    F["mseed_two"] = write_mseed(tmp("comb_two.mseed"), channels=("HHE", "HHZ"), seed=4)
    F["mseed_four"] = write_mseed(tmp("comb_four.mseed"), channels=("HHE", "HHN", "HHZ", "LHZ"), seed=5)
    F["mseed_dupe"] = write_mseed(tmp("comb_dupe.mseed"), channels=("HHE", "BHE", "HHZ"), seed=6)
    F["mseed_ind"] = write_mseed_individual(tmp("ind"), seed=7)
    F["mseed_ind_zne"] = write_mseed_individual(tmp("indzne"), channels=("EHZ", "EHN", "EHE"), seed=8)
    F["sac_little"] = write_sac(tmp("sl"), "<", seed=9)
    F["sac_big"] = write_sac(tmp("sb"), ">", seed=10)
    F["gcf"] = write_gcf(tmp("sample.gcf"), seed=11)
    F["saf"] = write_text(tmp("a.saf"), saf_text(seed=12, north_rot=0))
    F["saf_rot"] = write_text(tmp("rot.saf"), saf_text(seed=13, north_rot=25))
    F["saf_ven"] = write_text(tmp("ven.saf"), saf_text(seed=14, north_rot=10, order=("V", "E", "N")))
    F["saf_nve"] = write_text(tmp("nve.saf"), saf_text(seed=15, north_rot=10, order=("N", "V", "E")))
    F["saf_norot"] = write_text(tmp("norot.saf"), saf_text(seed=16, north_rot=None))
    F["saf_crlf"] = write_text(tmp("crlf.saf"), saf_text(seed=17, newline="\r\n"))
    F["saf_short"] = write_text(tmp("short.saf"), saf_text(seed=18, npts_header=400))
    F["saf_nover"] = write_text(tmp("nover.saf"), saf_text(seed=19, version=False))
    F["mshark"] = write_text(tmp("a.minishark"), minishark_text(seed=20))
    F["mshark_bad"] = write_text(tmp("bad.minishark"), minishark_text(seed=21, npts_header=299))
    F["peer_num"] = [write_text(tmp(f"pn_{d}.vt2"), peer_text(d, seed=22 + i))
                     for i, d in enumerate(("90", "360", "UP"))]
    F["peer_num2"] = [write_text(tmp(f"pm_{d}.vt2"), peer_text(d, seed=25 + i))
                      for i, d in enumerate(("VER", "275", "5"))]
    F["peer_abc"] = [write_text(tmp(f"pa_{d}.vt2"), peer_text(d, seed=28 + i))
                     for i, d in enumerate(("HNE", "HNZ", "HNN"))]
    F["peer_dupe"] = [write_text(tmp(f"pd_{i}.vt2"), peer_text(d, seed=31 + i))
                      for i, d in enumerate(("90", "90", "UP"))]
    F["peer_unknown"] = [write_text(tmp(f"pu_{i}.vt2"), peer_text(d, seed=34 + i))
                         for i, d in enumerate(("HNE", "HNN", "HNE"))]
    F["peer_dt"] = [write_text(tmp(f"pt_{i}.vt2"), peer_text(d, seed=37 + i, dt=dt))
                    for i, (d, dt) in enumerate((("90", ".0200"), ("360", ".0100"), ("UP", ".0200")))]
    F["peer_len"] = [write_text(tmp(f"pl_{i}.vt2"), peer_text(d, seed=40 + i, n=n))
                     for i, (d, n) in enumerate((("90", 250), ("360", 200), ("UP", 225)))]
    F["empty"] = write_text(tmp("empty.dat"), "")
    F["text"] = write_text(tmp("plain.txt"), "hello world\n1 2 3\n")
    rng = np.random.default_rng(99)
    with open(tmp("random.bin"), "wb") as f:
        f.write(rng.integers(0, 256, 4096, dtype=np.uint8).tobytes())
    F["binary"] = tmp("random.bin")
    F["missing"] = tmp("does_not_exist.mseed")
    F["dir"] = TMP
    return F


def slurp(path, mode="rb"):
    with open(path, mode) as f:
        return f.read()


# --------------------------------------------------------------------------
# random inputs for read_single / read
# --------------------------------------------------------------------------

class MyList(list):
    pass


Triple = namedtuple("Triple", "a b c")


def source_catalog(F, rng):
    """name -> factory() -> (argument, list of streams to probe afterwards)."""
    def as_path(p):
        return pathlib.Path(p)

    def bytesio(p, pos=None):
        b = io.BytesIO(slurp(p))
        if pos == "mid":
            b.seek(len(b.getvalue()) // 2)
        elif pos == "end":
            b.seek(0, 2)
        return b

    def stringio(p, pos=None):
        s = io.StringIO(slurp(p, "r"))
        if pos == "end":
            s.seek(0, 2)
        return s

    cat = {}

    def simple(name, value):
        cat[name] = lambda value=value: (value, [])

    single_files = ["mseed", "mseed_perm", "mseed_badch", "mseed_two", "mseed_four", "mseed_dupe",
                    "gcf", "saf", "saf_rot", "saf_ven", "saf_nve", "saf_norot", "saf_crlf",
                    "saf_short", "saf_nover", "mshark", "mshark_bad", "empty", "text", "binary",
                    "missing", "dir"]
    for key in single_files:
        simple(f"{key}:str", F[key])
        simple(f"{key}:path", as_path(F[key]))
        simple(f"{key}:list1", [F[key]])
        simple(f"{key}:tuple1", (as_path(F[key]),))
    for key in ["mseed", "mseed_perm", "gcf", "binary", "saf", "empty", "sac_little"]:
        for pos in (None, "mid", "end"):
            def factory(key=key, pos=pos):
                path = F[key][0] if isinstance(F[key], list) else F[key]
                b = bytesio(path, pos)
                return b, [b]
            cat[f"{key}:bytesio:{pos}"] = factory
    for key in ["saf", "saf_rot", "saf_norot", "saf_short", "mshark", "mshark_bad", "text", "empty"]:
        for pos in (None, "end"):
            def factory(key=key, pos=pos):
                s = stringio(F[key], pos)
                return s, [s]
            cat[f"{key}:stringio:{pos}"] = factory
    multi = ["mseed_ind", "mseed_ind_zne", "sac_little", "sac_big", "peer_num", "peer_num2",
             "peer_abc", "peer_dupe", "peer_unknown", "peer_dt", "peer_len"]
    for key in multi:
        simple(f"{key}:list", list(F[key]))
        simple(f"{key}:tuple", tuple(as_path(p) for p in F[key]))
        simple(f"{key}:mylist", MyList(F[key]))
        simple(f"{key}:namedtuple", Triple(*F[key]))
        simple(f"{key}:rev", list(reversed(F[key])))
        simple(f"{key}:two", list(F[key][:2]))
        simple(f"{key}:four", list(F[key]) + [F[key][0]])
    for key in ["mseed_ind", "sac_little", "sac_big"]:
        def factory(key=key):
            bs = [bytesio(p) for p in F[key]]
            return bs, bs
        cat[f"{key}:bytesios"] = factory
    for key in ["peer_num", "peer_abc", "peer_len"]:
        def factory(key=key):
            ss = [stringio(p, "end") for p in F[key]]
            return ss, ss
        cat[f"{key}:stringios"] = factory
    simple("mixed:sac_lb", [F["sac_little"][0], F["sac_big"][1], F["sac_little"][2]])
    simple("mixed:sac_text", [F["sac_little"][0], F["text"], F["sac_little"][2]])
    simple("mixed:sac_missing", [F["sac_little"][0], F["sac_little"][1], F["missing"]])
    simple("mixed:mseed_sac", [F["mseed_ind"][0], F["sac_little"][1], F["mseed_ind"][2]])
    simple("mixed:peer_saf", [F["peer_num"][0], F["saf"], F["peer_num"][2]])
    simple("mixed:three_combined", [F["mseed"], F["mseed"], F["mseed"]])
    simple("odd:none", None)
    simple("odd:int", 5)
    simple("odd:float", 2.5)
    simple("odd:bytes", os.fsencode(F["saf"]))
    simple("odd:bytes_mseed", os.fsencode(F["mseed"]))
    simple("odd:dict", {"a": F["mseed"]})
    simple("odd:set", {F["mseed"]})
    simple("odd:emptylist", [])
    simple("odd:emptytuple", ())
    simple("odd:emptystr", "")
    simple("odd:nested", [[F["mseed"]]])
    simple("odd:listnone", [None, None, None])
    simple("odd:gen", None)
    cat["odd:gen"] = lambda: ((p for p in F["mseed_ind"]), [])
    return cat


def kwargs_catalog():
    return {
        "none": lambda: None,
        "empty": lambda: {},
        "mseed": lambda: {"format": "MSEED"},
        "sac": lambda: {"format": "SAC"},
        "gcf": lambda: {"format": "GCF"},
        "auto": lambda: {"format": None},
        "headonly": lambda: {"headonly": False},
        "byteorder": lambda: {"format": "SAC", "byteorder": "big"},
        "bogusfmt": lambda: {"format": "NOPE"},
        "notadict": lambda: [("format", "MSEED")],
    }


def dfn_catalog():
    return {
        "none": None, "zero": 0, "int": 15, "float": 12.5, "neg": -30.0, "big": 725.25,
        "npf64": np.float64(20.5), "npf32": np.float32(10.0), "npi64": np.int64(45),
        "true": True, "str": "abc", "nan": float("nan"), "list": [10],
    }


def kwargs_state(kw):
    if isinstance(kw, dict):
        return "kw=" + norm(sorted(kw.items(), key=lambda kv: str(kv[0])))
    return "kw=" + norm(repr(kw))


def probes_state(probes):
    out = []
    for p in probes:
        try:
            out.append(f"{type(p).__name__}@{p.tell()}:closed={p.closed}")
        except Exception as e:
            out.append(f"{type(p).__name__}@{type(e).__name__}")
    return "streams=" + ",".join(out)


def run_read_single(F, n_cases, seed):
    rng = random.Random(seed)
    sources = source_catalog(F, rng)
    kws = kwargs_catalog()
    dfns = dfn_catalog()
    names = sorted(sources)
    # every source once with defaults, then random combinations.
    plan = [(name, "none", "none") for name in names]
    for _ in range(n_cases):
        plan.append((rng.choice(names),
                     rng.choice(sorted(kws)) if rng.random() < 0.6 else "none",
                     rng.choice(sorted(dfns)) if rng.random() < 0.5 else "none"))
    for idx, (sname, kname, dname) in enumerate(plan):
        arg, probes = sources[sname]()
        kw = kws[kname]()
        dfn = dfns[dname]
        function = dw.read_single if idx % 3 else hvsrpy.read_single
        if idx % 5 == 0 and kw is None and dfn is None:
            call(f"read_single#{idx} {sname} positional", function, arg)
        elif idx % 7 == 0:
            call(f"read_single#{idx} {sname} {kname} {dname} positional", function, arg, kw, dfn)
        else:
            call(f"read_single#{idx} {sname} {kname} {dname}", function, arg,
                 obspy_read_kwargs=kw, degrees_from_north=dfn)
        emit(f"  after#{idx}", kwargs_state(kw), probes_state(probes))


class CountingIter:
    """Iterator that counts how many items were taken from it."""

    def __init__(self, items):
        self._it = iter(items)
        self.taken = 0

    def __iter__(self):
        return self

    def __next__(self):
        value = next(self._it)
        self.taken += 1
        return value


def run_read(F, n_cases, seed):
    rng = random.Random(seed)
    sources = source_catalog(F, rng)
    good = ["mseed:str", "mseed:path", "mseed_perm:list1", "gcf:str", "saf:path", "saf_rot:str",
            "mshark:str", "mseed_ind:list", "sac_little:tuple", "sac_big:list", "peer_num:list",
            "peer_abc:tuple", "saf:stringio:None", "mseed:bytesio:None", "mseed:tuple1",
            "saf_norot:str", "peer_len:mylist", "mseed_ind:namedtuple"]
    bad = ["text:str", "missing:str", "odd:none", "odd:emptylist", "mseed_two:str",
           "peer_dupe:list", "mixed:sac_text", "odd:nested", "saf_short:list1"]
    kws = kwargs_catalog()

    for idx in range(n_cases):
        n = rng.choice([0, 1, 1, 2, 2, 3, 4])
        entries, probes, labels = [], [], []
        for _ in range(n):
            name = rng.choice(bad) if rng.random() < 0.15 else rng.choice(good)
            arg, pr = sources[name]()
            entries.append(arg)
            probes.extend(pr)
            labels.append(name)
        container = rng.choice(["list", "tuple", "mylist", "bare"])
        if container == "tuple":
            fnames = tuple(entries)
        elif container == "mylist":
            fnames = MyList(entries)
        elif container == "bare":
            # not a list/tuple: a single entry (str, Path, stream, ...) or a generator.
            if entries and rng.random() < 0.8:
                fnames = entries[0] if not isinstance(entries[0], (list, tuple)) else entries[0][0]
                labels = labels[:1]
            else:
                fnames = iter(entries)
        else:
            fnames = entries

        counters = []
        kw_mode = rng.choice(["none", "dict", "list", "tuple", "short", "long", "iter", "int", "mixed"])
        if kw_mode == "none":
            kw = None
        elif kw_mode == "dict":
            kw = kws[rng.choice(["empty", "mseed", "auto", "sac"])]()
        elif kw_mode in ("list", "tuple", "mixed"):
            kw = [kws[rng.choice(["none", "empty", "auto"])]() for _ in range(n)]
            kw = tuple(kw) if kw_mode == "tuple" else kw
        elif kw_mode == "short":
            kw = [None] * max(0, n - 1)
        elif kw_mode == "long":
            kw = [None] * (n + 2)
        elif kw_mode == "iter":
            kw = CountingIter([None, {}, None, {}, None, {}])
            counters.append(kw)
        else:
            kw = 7

        dfn_mode = rng.choice(["none", "int", "float", "bool", "list", "tuple", "array", "short",
                               "iter", "count", "npf64", "npi64", "npf32", "str", "nested"])
        if dfn_mode == "none":
            dfn = None
        elif dfn_mode == "int":
            dfn = rng.choice([0, 15, -20, 400])
        elif dfn_mode == "float":
            dfn = rng.choice([0.0, 12.5, -0.0, 359.999])
        elif dfn_mode == "bool":
            dfn = rng.choice([True, False])
        elif dfn_mode == "list":
            dfn = [rng.choice([None, 5, 7.5, np.float32(3)]) for _ in range(n)]
        elif dfn_mode == "tuple":
            dfn = tuple(float(i * 10) for i in range(n + 1))
        elif dfn_mode == "array":
            dfn = np.arange(n, dtype=rng.choice([float, int])) * 11
        elif dfn_mode == "short":
            dfn = [1.0] * max(0, n - 1)
        elif dfn_mode == "iter":
            dfn = CountingIter([10, 20.0, None, 40, 50, 60])
            counters.append(dfn)
        elif dfn_mode == "count":
            dfn = itertools.count(5, 5)
        elif dfn_mode == "npf64":
            dfn = np.float64(33.25)
        elif dfn_mode == "npi64":
            dfn = np.int64(33)
        elif dfn_mode == "npf32":
            dfn = np.float32(33.5)
        elif dfn_mode == "str":
            dfn = "12"
        else:
            dfn = [[1.0]] * n

        function = hvsrpy.read if idx % 2 else dw.read
        label = f"read#{idx} {container}{labels} kw={kw_mode} dfn={dfn_mode}"
        if idx % 4 == 0:
            call(label + " positional", function, fnames, kw, dfn)
        else:
            call(label, function, fnames, obspy_read_kwargs=kw, degrees_from_north=dfn)
        state = [probes_state(probes), "taken=" + ",".join(str(c.taken) for c in counters)]
        if isinstance(kw, (list, tuple)):
            state.append("kws=" + ";".join(kwargs_state(k) for k in kw))
        else:
            state.append(kwargs_state(kw) if not isinstance(kw, CountingIter) else "kw=iter")
        if isinstance(dfn, itertools.count):
            state.append(f"count_next={next(dfn)}")
        emit(f"  after#{idx}", *state)


def run_private_readers(F, seed):
    rng = random.Random(seed)
    sources = source_catalog(F, rng)
    readers = ["_read_mseed", "_read_saf", "_read_minishark", "_read_sac", "_read_gcf", "_read_peer"]
    picks = ["mseed:str", "mseed:list1", "mseed_ind:list", "mseed_ind:tuple", "saf:str", "saf:path",
             "saf:stringio:end", "saf:list1", "mshark:str", "mshark:stringio:None", "mshark:tuple1",
             "sac_little:list", "sac_big:tuple", "sac_little:two", "gcf:str", "gcf:list1",
             "gcf:bytesio:None", "peer_num:list", "peer_num:two", "peer_abc:stringios", "odd:none",
             "odd:int", "odd:emptylist", "odd:emptytuple", "mixed:sac_text", "text:str", "missing:str",
             "peer_len:mylist", "peer_num:namedtuple", "odd:dict"]
    idx = 0
    for reader in readers:
        for pick in picks:
            arg, probes = sources[pick]()
            kw = rng.choice([None, None, {}, {"format": "SAC"}])
            dfn = rng.choice([None, None, 30, 1.5])
            call(f"{reader}#{idx} {pick}", getattr(dw, reader), arg, kw, dfn)
            emit(f"  after#{idx}", kwargs_state(kw), probes_state(probes))
            idx += 1


def run_modified_table(F, seed):
    """read_single consults READ_FUNCTION_DICT when called; exercise that."""
    rng = random.Random(seed)
    sources = source_catalog(F, rng)
    original = dict(dw.READ_FUNCTION_DICT)
    emit("table", list(original.keys()), [f.__name__ for f in original.values()],
         type(dw.READ_FUNCTION_DICT).__name__)
    calls = []

    def spy(name, wrapped):
        def reader(fnames, obspy_read_kwargs=None, degrees_from_north=None):
            calls.append(name)
            return wrapped(fnames, obspy_read_kwargs=obspy_read_kwargs,
                           degrees_from_north=degrees_from_north)
        return reader

    def accept_all(fnames, obspy_read_kwargs=None, degrees_from_north=None):
        calls.append("accept_all")
        return ("accepted", type(fnames).__name__, obspy_read_kwargs, degrees_from_north)

    def refuse(fnames, obspy_read_kwargs=None, degrees_from_north=None):
        calls.append("refuse")
        raise KeyError("refused")

    def returns_none(fnames, obspy_read_kwargs=None, degrees_from_north=None):
        calls.append("returns_none")
        return None

    def variants():
        yield "spied", {k: spy(k, v) for k, v in original.items()}
        yield "no_peer", {k: v for k, v in original.items() if k != "peer"}
        yield "peer_first", {"peer": original["peer"], **{k: v for k, v in original.items() if k != "peer"}}
        yield "extra_after_peer", {**original, "custom": accept_all}
        yield "extra_before", {"custom": accept_all, **original}
        yield "saf_replaced", {**original, "saf": accept_all}
        yield "gcf_refuses", {**original, "gcf": refuse}
        yield "peer_is_saf", {**{k: v for k, v in original.items() if k != "peer"}, "peer": original["saf"]}
        yield "swapped", {**original, "saf": original["sac"], "sac": original["saf"]}
        yield "none_reader", {"mseed": original["mseed"], "nothing": returns_none, "peer": original["peer"]}
        yield "empty", {}
        yield "int_keys", {i: v for i, v in enumerate(original.values())}
        yield "only_refuse", {"a": refuse, "b": refuse}

    picks = ["mseed:str", "saf:path", "mshark:str", "gcf:str", "mseed_ind:list", "sac_big:list",
             "peer_num:tuple", "peer_dupe:list", "text:str", "odd:none", "odd:emptylist",
             "saf:stringio:None", "missing:str", "peer_abc:mylist"]
    try:
        for vname, table in variants():
            dw.READ_FUNCTION_DICT.clear()
            dw.READ_FUNCTION_DICT.update(table)
            for pick in picks:
                arg, probes = sources[pick]()
                kw = rng.choice([None, {}, {"format": None}])
                del calls[:]
                call(f"table[{vname}] {pick}", dw.read_single, arg, kw, rng.choice([None, 40]))
                emit("  calls", list(calls), kwargs_state(kw), probes_state(probes))
            # rebinding the module attribute to a different dict is honoured as well.
            saved = dw.READ_FUNCTION_DICT
            dw.READ_FUNCTION_DICT = dict(table)
            try:
                arg, _ = sources["saf:str"]()
                call(f"table-rebound[{vname}]", hvsrpy.read, [arg, [arg]])
            finally:
                dw.READ_FUNCTION_DICT = saved
    finally:
        dw.READ_FUNCTION_DICT.clear()
        dw.READ_FUNCTION_DICT.update(original)

    # read() goes through the module level read_single.
    seen = []
    real = dw.read_single

    def fake_read_single(fnames, obspy_read_kwargs=None, degrees_from_north=None):
        seen.append((type(fnames).__name__, obspy_read_kwargs, degrees_from_north))
        return "fake"
    dw.read_single = fake_read_single
    try:
        call("read via patched read_single", dw.read, [F["mseed"], [F["saf"]], (F["gcf"], F["gcf"])],
             obspy_read_kwargs={"a": 1}, degrees_from_north=[1, 2, 3])
        emit("  seen", seen)
    finally:
        dw.read_single = real


def run_lifetimes(F, seed):
    """With the cyclic collector off: is the argument released right away?"""
    import gc
    import weakref
    rng = random.Random(seed)
    sources = source_catalog(F, rng)
    picks = ["mseed:bytesio:None", "mseed:bytesio:end", "binary:bytesio:None", "gcf:bytesio:None",
             "saf:stringio:None", "text:stringio:None", "mshark_bad:stringio:end",
             "mseed_ind:mylist", "peer_num:mylist", "peer_dupe:mylist", "sac_big:mylist",
             "peer_unknown:mylist", "sac_little:bytesios", "peer_abc:stringios"]
    gc.collect()
    gc.disable()
    try:
        for pick in picks:
            for via in ("read_single", "read"):
                arg, probes = sources[pick]()
                if isinstance(arg, MyList):
                    arg = MyList(arg)  # the catalog keeps the original alive.
                watched = [weakref.ref(arg)] if not isinstance(arg, list) or isinstance(arg, MyList) else []
                watched += [weakref.ref(p) for p in probes if p is not arg]
                kw = {"format": None}
                try:
                    if via == "read_single":
                        outcome = dw.read_single(arg, obspy_read_kwargs=kw)
                    else:
                        outcome = dw.read([arg, arg], obspy_read_kwargs=kw)
                except Exception as e:
                    outcome = type(e).__name__
                else:
                    outcome = type(outcome).__name__
                del arg, probes
                emit(f"lifetime {via} {pick}", outcome,
                     "released=" + str([ref() is None for ref in watched]))
    finally:
        gc.enable()


# --------------------------------------------------------------------------
# CLI
# --------------------------------------------------------------------------

def write_settings(F):
    cf = np.geomspace(0.5, 20, 16)
    smoothing = dict(operator="konno_and_ohmachi", bandwidth=40, center_frequencies_in_hz=cf)
    S = {}

    def save(name, obj):
        path = tmp(f"settings_{name}.json")
        hvsrpy.write_settings_object_to_file(obj, path)
        S[name] = path

    save("pre_hvsr", hvsrpy.HvsrPreProcessingSettings(window_length_in_seconds=5.,
                                                      filter_corner_frequencies_in_hz=[None, None]))
    save("pre_hvsr_filt", hvsrpy.HvsrPreProcessingSettings(window_length_in_seconds=4.,
                                                           filter_corner_frequencies_in_hz=[0.5, 20.],
                                                           detrend="constant",
                                                           orient_to_degrees_from_north=20.))
    save("pre_psd_diff", hvsrpy.PsdPreProcessingSettings(window_length_in_seconds=5.,
                                                         differentiate=True))
    save("pre_psd_diff_n", hvsrpy.PsdPreProcessingSettings(window_length_in_seconds=6.,
                                                           differentiate=True,
                                                           fft_settings=dict(n=2**14)))
    save("proc_trad", hvsrpy.HvsrTraditionalProcessingSettings(smoothing=smoothing))
    save("proc_trad_n", hvsrpy.HvsrTraditionalProcessingSettings(smoothing=smoothing,
                                                                 fft_settings=dict(n=2**13),
                                                                 method_to_combine_horizontals="squared_average"))
    save("proc_single", hvsrpy.HvsrTraditionalSingleAzimuthProcessingSettings(smoothing=smoothing,
                                                                              azimuth_in_degrees=35.))
    save("proc_az", hvsrpy.HvsrAzimuthalProcessingSettings(smoothing=smoothing,
                                                           azimuths_in_degrees=np.arange(0, 180, 60)))
    save("proc_df", hvsrpy.HvsrDiffuseFieldProcessingSettings(smoothing=smoothing))
    save("proc_psd", hvsrpy.PsdProcessingSettings())
    S["garbage"] = write_text(tmp("settings_garbage.json"), "{not json")
    S["unknown"] = write_text(tmp("settings_unknown.json"), json.dumps({"processing_method": "magic"}))
    S["nokey"] = write_text(tmp("settings_nokey.json"), json.dumps({"foo": 1}))
    S["missing"] = tmp("settings_missing.json")
    return S


def build_cli_inputs():
    """Recordings with different lengths / sampling rates; some share a stem."""
    C = {}
    os.makedirs(tmp("cli", "d1"), exist_ok=True)
    os.makedirs(tmp("cli", "d2"), exist_ok=True)
    C["long"] = write_mseed(tmp("cli", "long.mseed"), n=40000, fs=100., seed=101)
    C["short"] = write_mseed(tmp("cli", "short.mseed"), n=3000, fs=100., seed=102)
    C["mid"] = write_mseed(tmp("cli", "mid.rec.mseed"), n=9000, fs=200., seed=103)
    C["saf"] = write_text(tmp("cli", "site.saf"), saf_text(n=4000, fs=100, seed=104, north_rot=15))
    C["gcf"] = write_gcf(tmp("cli", "gur.gcf"), n=3000, fs=100., seed=105)
    C["noext"] = write_mseed(tmp("cli", "noext"), n=2500, fs=100., seed=106)
    C["dot"] = write_mseed(tmp("cli", ".hidden.mseed"), n=2500, fs=100., seed=107)
    C["same1"] = write_mseed(tmp("cli", "d1", "same.mseed"), n=35000, fs=100., seed=108)
    C["same2"] = write_mseed(tmp("cli", "d2", "same.mseed"), n=3500, fs=100., seed=109)
    C["bad"] = write_text(tmp("cli", "broken.mseed"), "this is not a recording\n")
    C["missing"] = tmp("cli", "nothing_here.mseed")
    return C


def snapshot_dir(directory):
    out = []
    for name in sorted(os.listdir(directory)):
        path = os.path.join(directory, name)
        data = slurp(path)
        if name.endswith(".csv"):
            data = norm(data.decode("utf-8")).encode("utf-8")
        out.append(f"{name}:{len(data)}:{hashlib.sha256(data).hexdigest()[:20]}")
    return "files=" + ";".join(out)


@contextlib.contextmanager
def working_directory(path):
    old = os.getcwd()
    os.makedirs(path, exist_ok=True)
    os.chdir(path)
    try:
        yield
    finally:
        os.chdir(old)


@contextlib.contextmanager
def silenced_fd1():
    """Workers print to file descriptor 1; keep our stdout to one line."""
    sys.stdout.flush()
    saved = os.dup(1)
    sink = os.open(os.devnull, os.O_WRONLY)
    try:
        os.dup2(sink, 1)
        yield
    finally:
        sys.stdout.flush()
        os.dup2(saved, 1)
        os.close(saved)
        os.close(sink)


def run_process_hvsr_direct(S, C, seed):
    rng = random.Random(seed)
    load = hvsrpy.read_settings_object_from_file
    pres = ["pre_hvsr", "pre_hvsr_filt", "pre_psd_diff", "pre_psd_diff_n"]
    procs = ["proc_trad", "proc_trad_n", "proc_single", "proc_az", "proc_df", "proc_psd"]
    files = ["long", "short", "mid", "saf", "gcf", "noext", "dot", "same1", "same2", "bad", "missing"]
    outdir = tmp("direct")
    idx = 0
    for round_ in range(9):
        # one pair of settings objects is re-used for a few files in a row,
        # like the tasks of one chunk in a worker process.
        pre = load(S[rng.choice(pres) if round_ else "pre_psd_diff"])
        proc = load(S[rng.choice(procs) if round_ else "proc_trad"])
        pre_before, proc_before = repr(pre), repr(proc)
        sequence = ["long", "short", "same1", "same2"] if round_ == 0 else \
            [rng.choice(files) for _ in range(rng.choice([2, 3, 4]))]
        for key in sequence:
            options = {"distribution_fn": rng.choice(["lognormal", "normal"]),
                       "distribution_mc": rng.choice(["lognormal", "normal"]),
                       "no_figure": rng.random() < 0.3,
                       "no_file": rng.random() < 0.2,
                       "ymax": rng.choice([10., 5, 2.5]),
                       "nproc": None}
            oddity = rng.random()
            if oddity < 0.08:
                del options["ymax"]
            elif oddity < 0.16:
                del options["distribution_mc"]
                del options["distribution_fn"]
            elif oddity < 0.22:
                options["distribution_mc"] = "weibull"
            elif oddity < 0.26:
                options = {}
            fname = C[key] if rng.random() < 0.8 else pathlib.Path(C[key])
            stdout = io.StringIO()
            options_before = repr(options)
            with working_directory(outdir), contextlib.redirect_stdout(stdout):
                call(f"_process_hvsr#{idx} {key} {sorted(options.items())}",
                     hcli._process_hvsr, fname, pre, proc, options)
            emit(f"  after#{idx}", "stdout=" + norm(stdout.getvalue()), snapshot_dir(outdir),
                 f"figs={plt.get_fignums()}", f"options_same={repr(options) == options_before}",
                 "pre=" + norm(repr(pre)), "proc_same=" + str(repr(proc) == proc_before))
            idx += 1
        plt.close("all")
        shutil.rmtree(outdir)


def describe_command():
    out = []
    for p in hcli.cli.params:
        out.append((p.name, tuple(p.opts), p.default, type(p.type).__name__, getattr(p, "is_flag", None),
                    getattr(p, "nargs", None), p.help if hasattr(p, "help") else None))
    emit("cli params", norm(out), "help=" + norm(hcli.cli.help), "name=" + str(hcli.cli.name))
    stdout = io.StringIO()
    with contextlib.redirect_stdout(stdout):
        call("cli --help", hcli.cli.main, ["--help"], standalone_mode=False)
    emit("  help text", norm(stdout.getvalue()))


def chunks_of(n, size):
    return [list(range(i, min(n, i + size))) for i in range(0, n, size)]


def run_cli(S, C, seed):
    rng = random.Random(seed)
    pres = ["pre_hvsr", "pre_hvsr_filt", "pre_psd_diff", "pre_psd_diff_n"]
    procs = ["proc_trad", "proc_trad_n", "proc_single", "proc_az", "proc_df"]
    unique = ["long", "short", "mid", "saf", "gcf", "noext", "dot"]
    run_dir = tmp("cli_run")
    idx = 0

    def invoke(label, args):
        nonlocal idx
        with working_directory(run_dir), silenced_fd1():
            call(f"cli#{idx} {label} {norm(args)}", hcli.cli.main, list(args), standalone_mode=False)
            snap = snapshot_dir(run_dir)
        emit(f"  after#{idx}", snap)
        shutil.rmtree(run_dir)
        idx += 1

    def settings_args(pre, proc):
        return ["--preprocessing_settings_file", S[pre], "--processing_settings_file", S[proc]]

    # argument / settings errors and early exits.
    invoke("no settings", [C["short"]])
    invoke("only pre", ["--preprocessing_settings_file", S["pre_hvsr"], C["short"]])
    invoke("missing pre", ["--preprocessing_settings_file", S["missing"],
                           "--processing_settings_file", S["proc_trad"], C["short"]])
    invoke("garbage proc", settings_args("pre_hvsr", "garbage") + [C["short"]])
    invoke("unknown proc", settings_args("pre_hvsr", "unknown") + [C["short"]])
    invoke("nokey pre", settings_args("nokey", "proc_trad") + [C["short"]])
    invoke("both flags", settings_args("pre_hvsr", "proc_trad") + ["--no_figure", "--no_file", C["short"]])
    invoke("both flags bad settings", settings_args("pre_hvsr", "missing") + ["--no_figure", "--no_file"])
    invoke("both flags no files", settings_args("pre_hvsr", "proc_trad") + ["--no_figure", "--no_file"])
    invoke("no files", settings_args("pre_hvsr", "proc_trad"))
    invoke("nproc zero", settings_args("pre_hvsr", "proc_trad") + ["--nproc", "0", C["short"]])
    invoke("nproc negative", settings_args("pre_hvsr", "proc_trad") + ["--nproc", "-2", C["short"], C["gcf"]])
    invoke("nproc text", settings_args("pre_hvsr", "proc_trad") + ["--nproc", "two", C["short"]])
    invoke("bad choice", settings_args("pre_hvsr", "proc_trad") + ["--distribution_mc", "weibull", C["short"]])
    invoke("bad ymax", settings_args("pre_hvsr", "proc_trad") + ["--ymax", "tall", C["short"]])
    invoke("unknown option", settings_args("pre_hvsr", "proc_trad") + ["--frobnicate", C["short"]])
    invoke("psd processing", settings_args("pre_psd_diff", "proc_psd") + ["--nproc", "1", C["short"]])
    invoke("default nproc", settings_args("pre_hvsr", "proc_trad") + [C["short"], C["gcf"], C["saf"]])

    # the fft length chosen for one file sticks to the (unpickled) settings
    # object for the rest of a chunk: long before short in one chunk differs
    # from short alone.
    invoke("ratchet 2 files 1 proc", settings_args("pre_psd_diff", "proc_trad")
           + ["--nproc", "1", "--no_figure", C["long"], C["short"]])
    invoke("ratchet 2 files 2 proc", settings_args("pre_psd_diff", "proc_trad")
           + ["--nproc", "2", "--no_figure", C["long"], C["short"]])
    invoke("ratchet 4 files 2 proc", settings_args("pre_psd_diff", "proc_trad")
           + ["--nproc", "2", "--no_figure", C["long"], C["short"], C["same1"], C["gcf"]])
    invoke("ratchet 5 files 2 proc", settings_args("pre_psd_diff", "proc_trad")
           + ["--nproc", "2", "--no_figure", C["long"], C["short"], C["same1"], C["gcf"], C["saf"]])
    invoke("ratchet 5 files 4 proc", settings_args("pre_psd_diff", "proc_trad")
           + ["--nproc", "4", "--no_figure", C["long"], C["short"], C["same1"], C["gcf"], C["saf"]])
    invoke("ratchet 3 files 1 proc big nproc", settings_args("pre_psd_diff_n", "proc_trad_n")
           + ["--nproc", "64", "--no_figure", C["long"], C["short"], C["mid"]])
    # same stem twice in one chunk: the later one wins.
    invoke("same stem one chunk", settings_args("pre_psd_diff", "proc_trad")
           + ["--nproc", "1", C["same1"], C["same2"]])
    invoke("same stem one chunk reversed", settings_args("pre_psd_diff", "proc_trad")
           + ["--nproc", "1", C["same2"], C["same1"]])

    # random runs; at most one chunk contains failing files, stems clash only
    # within a chunk (anything else is a race in both implementations).
    for _ in range(22):
        ntasks = rng.choice([1, 2, 3, 4, 5, 6, 7])
        nproc = rng.choice([1, 2, 3, 4, 9])
        size = max(1, ntasks // nproc)
        layout = chunks_of(ntasks, size)
        keys = [rng.choice(unique) for _ in range(ntasks)]
        # make stems unique across chunks: a repeated key may only re-appear in the same chunk.
        owner = {}
        for chunk_id, chunk in enumerate(layout):
            for position in chunk:
                while owner.setdefault(keys[position], chunk_id) != chunk_id:
                    keys[position] = rng.choice(unique)
        roomy = [chunk for chunk in layout if len(chunk) > 1]
        if roomy and rng.random() < 0.35:
            chunk = rng.choice(roomy)
            first, second = rng.sample(["same1", "same2"], k=2)
            keys[chunk[0]], keys[chunk[1]] = first, second
        if rng.random() < 0.5:
            chunk = rng.choice(layout)
            for position in rng.sample(chunk, k=min(len(chunk), rng.choice([1, 1, 2]))):
                keys[position] = rng.choice(["bad", "missing"])
        args = settings_args(rng.choice(pres), rng.choice(procs)) + ["--nproc", str(nproc)]
        if rng.random() < 0.6:
            args.append("--no_figure")
        elif rng.random() < 0.3:
            args.append("--no_file")
        if rng.random() < 0.4:
            args += ["--distribution_mc", rng.choice(["normal", "lognormal"])]
        if rng.random() < 0.4:
            args += ["--distribution_fn", rng.choice(["normal", "lognormal"])]
        if rng.random() < 0.3:
            args += ["--ymax", rng.choice(["4", "7.5"])]
        args += [C[k] for k in keys]
        invoke(f"random {keys}", args)


# --------------------------------------------------------------------------

def main():
    dump = None
    if "--dump" in sys.argv:
        dump = sys.argv[sys.argv.index("--dump") + 1]
    quick = "--quick" in sys.argv
    try:
        F = build_files()
        run_read_single(F, n_cases=120 if quick else 420, seed=20241)
        run_read(F, n_cases=60 if quick else 260, seed=20242)
        run_private_readers(F, seed=20243)
        run_modified_table(F, seed=20244)
        run_lifetimes(F, seed=20247)
        describe_command()
        if "--no-cli" not in sys.argv:
            S = write_settings(F)
            C = build_cli_inputs()
            run_process_hvsr_direct(S, C, seed=20245)
            run_cli(S, C, seed=20246)
    finally:
        shutil.rmtree(TMP, ignore_errors=True)
    text = "\n".join(TRANSCRIPT) + "\n"
    if dump:
        with open(dump, "w") as f:
            f.write(text)
    print("DIGEST", hashlib.sha256(text.encode("utf-8", "backslashreplace")).hexdigest())


if __name__ == "__main__":
    main()
