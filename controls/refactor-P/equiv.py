"""Equivalence digest for hvsrpy/postprocessing.py (plotting and summaries).

Run as

    cd /tmp/r12/ctlP && PYTHONPATH=<tree> MPLBACKEND=Agg /venv/bin/python _control/equiv.py

Prints one line ``DIGEST <sha256>`` that covers, for several hundred seeded
random inputs and call sequences: returned values, raised exceptions (type and
message), emitted warnings (set of category/message), text written to stdout,
what was passed to ``display``, every artist of every Axes of every open figure
(class, data bytes, style, labels; order preserved), rendered pixels for a
subset, the state of all inputs before/after (and identity of their arrays),
``DEFAULT_KWARGS``, rcParams and the pandas option touched by the summaries.

If the environment variable EQUIV_LOG names a file, everything that enters the
digest is also written there (for ``diff`` between two trees).
"""

import contextlib
import gc
import hashlib
import io
import os
import re
import sys
import types
import warnings

import numpy as np
import matplotlib
matplotlib.use("Agg")
import matplotlib.pyplot as plt
from matplotlib.axes import Axes
from matplotlib.figure import Figure
from matplotlib.lines import Line2D
from matplotlib.patches import Patch, Polygon, Rectangle
from matplotlib.collections import Collection
from matplotlib.text import Text
from matplotlib.legend import Legend
from matplotlib.spines import Spine
from matplotlib.axis import Axis
from mpl_toolkits.mplot3d import Axes3D

import hvsrpy
from hvsrpy import postprocessing as pp
from hvsrpy import (HvsrTraditional, HvsrAzimuthal, HvsrDiffuseField,
                    HvsrCurve, SeismicRecording3C, TimeSeries)

SEED = 20261005
N_SCALE = float(os.environ.get("EQUIV_SCALE", "1"))

# --------------------------------------------------------------------------
# digest plumbing
# --------------------------------------------------------------------------

_H = hashlib.sha256()
_LOG = open(os.environ["EQUIV_LOG"], "w") if os.environ.get("EQUIV_LOG") else None
_ADDRESS = re.compile(r"0x[0-9a-fA-F]+")


def scrub(text):
    return _ADDRESS.sub("0x?", text)


def emit(*parts):
    line = " | ".join(p if isinstance(p, str) else enc(p) for p in parts)
    _H.update(line.encode("utf8", "backslashreplace"))
    _H.update(b"\n")
    if _LOG is not None:
        _LOG.write(line + "\n")


def enc(obj, depth=0):
    """Canonical, bit exact, text for (nested) values."""
    if depth > 8:
        return "<deep>"
    if obj is None or isinstance(obj, (bool, int, str, bytes)):
        return f"{type(obj).__name__}:{obj!r}"
    if isinstance(obj, (float, np.floating)):
        return f"{type(obj).__name__}:{float(obj).hex()}"
    if isinstance(obj, (np.bool_, np.integer)):
        return f"{type(obj).__name__}:{obj!r}"
    if isinstance(obj, np.ma.MaskedArray):
        return "ma(" + enc(np.ma.getdata(obj), depth+1) + "," + enc(np.ma.getmaskarray(obj), depth+1) + ")"
    if isinstance(obj, np.ndarray):
        if obj.dtype == object:
            return "objarray" + enc(obj.tolist(), depth+1)
        data = np.ascontiguousarray(obj)
        return f"nd[{obj.dtype.str}{obj.shape}]{hashlib.sha256(data.tobytes()).hexdigest()[:24]}"
    if isinstance(obj, (list, tuple)):
        return type(obj).__name__ + "(" + ",".join(enc(o, depth+1) for o in obj) + ")"
    if isinstance(obj, (dict, types.MappingProxyType)):
        return type(obj).__name__ + "{" + ",".join(enc(k, depth+1) + "=" + enc(v, depth+1) for k, v in obj.items()) + "}"
    if isinstance(obj, (Figure, Axes)):
        return locate(obj)
    return f"{type(obj).__name__}<{scrub(repr(obj))[:200]}>"


def locate(obj):
    """Name Figure/Axes by position among open figures (never by id)."""
    for k, num in enumerate(plt.get_fignums()):
        fig = plt.figure(num)
        if obj is fig:
            return f"FIG#{k}"
        for j, ax in enumerate(fig.axes):
            if obj is ax:
                return f"AX#{k}.{j}:{type(ax).__name__}"
    return f"DETACHED:{type(obj).__name__}"


def safe(getter, *args, **kwargs):
    try:
        return getter(*args, **kwargs)
    except Exception as e:  # description must never abort a case
        return f"<{type(e).__name__}>"


def color(c):
    try:
        return enc(np.asarray(matplotlib.colors.to_rgba_array(c)))
    except Exception:
        return enc(c)


def common(a):
    return [type(a).__name__, "z", enc(a.get_zorder()), "vis", enc(a.get_visible()),
            "alpha", enc(a.get_alpha()), "label", enc(a.get_label()),
            "clip", enc(a.get_clip_on())]


def describe_artist(a, depth=0):
    d = common(a)
    if isinstance(a, Line2D):
        d += ["x", enc(np.asarray(safe(a.get_xdata, orig=True))),
              "y", enc(np.asarray(safe(a.get_ydata, orig=True))),
              "xo", enc(safe(lambda: type(a.get_xdata(orig=True)).__name__)),
              "c", color(a.get_color()), "lw", enc(a.get_linewidth()),
              "ls", enc(a.get_linestyle()), "m", enc(a.get_marker()),
              "ms", enc(a.get_markersize()), "mfc", color(a.get_markerfacecolor()),
              "mec", color(a.get_markeredgecolor()), "mew", enc(a.get_markeredgewidth()),
              "ds", enc(a.get_drawstyle())]
        if hasattr(a, "_verts3d"):
            d += ["v3d", enc([np.asarray(v) for v in a._verts3d])]
    elif isinstance(a, Collection):
        paths = safe(a.get_paths)
        if isinstance(paths, (list, tuple)):
            d += ["npaths", enc(len(paths)),
                  "paths", enc([np.asarray(p.vertices) for p in paths]),
                  "codes", enc([None if p.codes is None else np.asarray(p.codes) for p in paths])]
        d += ["fc", enc(np.asarray(safe(a.get_facecolor))), "ec", enc(np.asarray(safe(a.get_edgecolor))),
              "lw", enc(safe(a.get_linewidth)), "arr", enc(safe(a.get_array)),
              "off", enc(safe(a.get_offsets)), "cmap", enc(safe(lambda: a.get_cmap().name)),
              "clim", enc(safe(a.get_clim))]
        for name in ("get_sizes", "levels", "_vec", "_offsets3d", "_facecolor3d",
                     "_edgecolor3d", "_sizes3d", "layers", "extend", "filled"):
            if hasattr(a, name):
                value = getattr(a, name)
                value = safe(value) if callable(value) else value
                d += [name, enc(value)]
    elif isinstance(a, Polygon):
        d += ["xy", enc(np.asarray(a.get_xy())), "closed", enc(a.get_closed())]
        d += patch_style(a)
    elif isinstance(a, Rectangle):
        d += ["xywh", enc((a.get_x(), a.get_y(), a.get_width(), a.get_height()))]
        d += patch_style(a)
    elif isinstance(a, Patch):
        d += patch_style(a)
    elif isinstance(a, Legend):
        d += describe_legend(a)
    elif isinstance(a, Text):
        d += describe_text(a)
    elif isinstance(a, Spine):
        d += ["spine", enc(a.spine_type)]
    elif isinstance(a, Axis):
        d += ["axlabel"] + describe_text(a.label) + [
            "scale", enc(a.get_scale()), "ticks", enc(np.asarray(safe(a.get_ticklocs))),
            "minor", enc(np.asarray(safe(a.get_ticklocs, minor=True))),
            "ticklabels", enc([t.get_text() for t in safe(a.get_ticklabels) or []]),
            "tickpos", enc(safe(getattr(a, "get_ticks_position", lambda: None))),
            "labelpos", enc(safe(getattr(a, "get_label_position", lambda: None))),
            "locator", enc(type(a.get_major_locator()).__name__),
            "formatter", enc(type(a.get_major_formatter()).__name__)]
        if hasattr(a, "pane"):
            d += ["pane"] + common(a.pane) + patch_style(a.pane) + ["fill", enc(a.pane.fill)]
    else:
        if depth < 2 and hasattr(a, "get_children"):
            for child in a.get_children():
                d += ["child["] + describe_artist(child, depth+1) + ["]"]
    return d


def patch_style(a):
    return ["fc", color(a.get_facecolor()), "ec", color(a.get_edgecolor()),
            "lw", enc(a.get_linewidth()), "ls", enc(a.get_linestyle()),
            "hatch", enc(a.get_hatch()), "fill", enc(a.get_fill())]


def describe_text(t):
    d = ["text", enc(t.get_text()), "pos", enc(tuple(t.get_position())),
         "ha", enc(t.get_ha()), "va", enc(t.get_va()), "size", enc(t.get_fontsize()),
         "c", color(t.get_color()), "rot", enc(t.get_rotation()),
         "family", enc(t.get_fontfamily())]
    box = t.get_bbox_patch()
    if box is not None:
        d += ["bbox"] + patch_style(box) + [enc(type(box.get_boxstyle()).__name__),
                                            enc(getattr(box.get_boxstyle(), "pad", None))]
    return d


def describe_legend(lg):
    d = ["loc", enc(lg._loc), "ncols", enc(getattr(lg, "_ncols", None)),
         "anchor", enc(None if lg._bbox_to_anchor is None else tuple(lg._bbox_to_anchor.bounds)),
         "title", enc(lg.get_title().get_text()),
         "texts", enc([t.get_text() for t in lg.get_texts()])]
    handles = getattr(lg, "legend_handles", None)
    if handles is None:
        handles = getattr(lg, "legendHandles", [])
    for h in handles:
        d += ["handle["] + (describe_artist(h, 2) if h is not None else ["None"]) + ["]"]
    return d


def describe_axes(ax):
    d = ["AXES", type(ax).__name__, "bounds", enc(tuple(ax.get_position().bounds)),
         "title", enc([ax.get_title(loc=loc) for loc in ("left", "center", "right")]),
         "xlabel", enc(ax.get_xlabel()), "ylabel", enc(ax.get_ylabel()),
         "xscale", enc(ax.get_xscale()), "yscale", enc(ax.get_yscale()),
         "xlim", enc(tuple(ax.get_xlim())), "ylim", enc(tuple(ax.get_ylim())),
         "auto", enc((ax.get_autoscalex_on(), ax.get_autoscaley_on())),
         "frame", enc(safe(lambda: ax.get_frame_on())), "axison", enc(ax.axison),
         "aspect", enc(safe(lambda: ax.get_aspect())),
         "sharedx", enc(len(ax.get_shared_x_axes().get_siblings(ax))),
         "sharedy", enc(len(ax.get_shared_y_axes().get_siblings(ax))),
         "spec", enc(safe(lambda: None if ax.get_subplotspec() is None else tuple(ax.get_subplotspec().get_geometry()))),
         "spines", enc([(name, s.get_visible()) for name, s in ax.spines.items()])]
    if isinstance(ax, Axes3D):
        d += ["zlabel", enc(ax.get_zlabel()), "zlim", enc(tuple(ax.get_zlim())),
              "view", enc((ax.elev, ax.azim, getattr(ax, "roll", None), getattr(ax, "dist", None)))]
    legend = ax.get_legend()
    d += ["legend", "None" if legend is None else " ".join(describe_legend(legend))]
    lines = [" ".join(d)]
    for k, child in enumerate(ax.get_children()):
        lines.append(f"  ART[{k}] " + " ".join(describe_artist(child)))
    return lines


def describe_figures(render):
    nums = plt.get_fignums()
    emit("FIGS", enc(len(nums)))
    for k, num in enumerate(nums):
        fig = plt.figure(num)
        sp = fig.subplotpars
        emit(f"FIG#{k}", "size", enc(tuple(fig.get_size_inches())), "dpi", enc(fig.get_dpi()),
             "naxes", enc(len(fig.axes)),
             "pars", enc((sp.left, sp.bottom, sp.right, sp.top, sp.wspace, sp.hspace)),
             "layout", enc(type(fig.get_layout_engine()).__name__),
             "suptitle", enc(safe(fig.get_suptitle)))
        for t in fig.texts:
            emit("  FIGTEXT", *describe_artist(t))
        for lg in fig.legends:
            emit("  FIGLEGEND", *describe_artist(lg))
        for ax in fig.axes:
            for line in describe_axes(ax):
                emit(line)
        if render:
            try:
                fig.canvas.draw()
                pixels = np.asarray(fig.canvas.buffer_rgba())
                emit("  PIXELS", enc(pixels))
                # limits and ticks are only final after drawing.
                for ax in fig.axes:
                    emit("  POSTDRAW", enc(tuple(ax.get_xlim())), enc(tuple(ax.get_ylim())),
                         enc(np.asarray(ax.get_xticks())), enc(np.asarray(ax.get_yticks())),
                         enc(tuple(ax.get_position().bounds)))
            except Exception as e:
                emit("  RENDERFAIL", type(e).__name__, scrub(str(e))[:200])


# --------------------------------------------------------------------------
# state of inputs
# --------------------------------------------------------------------------

def arrays_of(obj):
    """Named arrays whose identity/contents must not change unexpectedly."""
    out = []
    if isinstance(obj, HvsrTraditional):
        for name in ("frequency", "amplitude", "valid_window_boolean_mask",
                     "valid_peak_boolean_mask", "_main_peak_frq", "_main_peak_amp"):
            out.append((name, getattr(obj, name, None)))
    elif isinstance(obj, HvsrAzimuthal):
        for k, h in enumerate(obj.hvsrs):
            out += [(f"[{k}].{n}", a) for n, a in arrays_of(h)]
    elif isinstance(obj, HvsrCurve):
        out += [("frequency", obj.frequency), ("amplitude", obj.amplitude)]
    elif isinstance(obj, SeismicRecording3C):
        for c in ("ns", "ew", "vt"):
            out.append((c, getattr(obj, c).amplitude))
    elif isinstance(obj, (list, tuple)):
        for k, o in enumerate(obj):
            out += [(f"<{k}>.{n}", a) for n, a in arrays_of(o)]
    elif isinstance(obj, np.ndarray):
        out.append(("array", obj))
    return out


def snapshot(obj):
    d = [type(obj).__name__]
    if isinstance(obj, HvsrTraditional):
        d += ["attrs", enc(sorted(vars(obj))), "n", enc(obj.n_curves), "meta", enc(obj.meta),
              "range", enc(obj._search_range_in_hz), "fpk", enc(obj._find_peaks_kwargs)]
    elif isinstance(obj, HvsrAzimuthal):
        d += ["attrs", enc(sorted(vars(obj))), "az", enc(obj.azimuths), "meta", enc(obj.meta),
              "hvsrs", enc([snapshot(h) for h in obj.hvsrs])]
    elif isinstance(obj, HvsrCurve):
        d += ["attrs", enc(sorted(vars(obj))), "meta", enc(obj.meta),
              "peak", enc((obj.peak_frequency, obj.peak_amplitude))]
    elif isinstance(obj, SeismicRecording3C):
        d += ["attrs", enc(sorted(vars(obj))), "meta", enc(obj.meta), "deg", enc(obj.degrees_from_north),
              "dt", enc([getattr(obj, c).dt_in_seconds for c in ("ns", "ew", "vt")])]
    elif isinstance(obj, (list, tuple)):
        d += [enc([snapshot(o) for o in obj])]
    else:
        d += [enc(obj)]
    d += ["arrays", enc([(n, a) for n, a in arrays_of(obj)])]
    return " ".join(d)


# --------------------------------------------------------------------------
# running cases
# --------------------------------------------------------------------------

class Boom(BaseException):
    """Injected interruption (deliberately not an Exception)."""


class Capture():
    """What the code under test passed to ``display``."""

    def __init__(self):
        self.items = []

    def __call__(self, obj):
        d = [type(obj).__name__]
        try:
            d += ["caption", enc(obj.caption), "styles", enc(obj.table_styles),
                  "columns", enc(list(obj.data.columns)), "index", enc(list(obj.data.index)),
                  "values", enc(obj.data.to_numpy()), "dtypes", enc([str(t) for t in obj.data.dtypes]),
                  "text", enc(obj.to_string()),
                  "colwidth", enc(pp.pd.get_option("display.max_colwidth"))]
        except Exception as e:
            d += ["<undescribable>", type(e).__name__]
        self.items.append(" ".join(d))


def attempt(fn, *args, **kwargs):
    """Outcome of a call as a value, so that sequences can go on."""
    try:
        return ("ok", fn(*args, **kwargs))
    except BaseException as e:
        if isinstance(e, (SystemExit, MemoryError)):
            raise
        return ("raised", type(e).__name__, scrub(str(e))[:300])


CASE_COUNT = [0]


def run_case(name, fn, objs=(), render=False):
    CASE_COUNT[0] += 1
    emit("=" * 20, f"CASE {CASE_COUNT[0]}", name)
    before = [snapshot(o) for o in objs]
    ids_before = [[id(a) for _, a in arrays_of(o)] for o in objs]
    keep_alive = [[a for _, a in arrays_of(o)] for o in objs]
    defaults_before = enc(pp.DEFAULT_KWARGS)
    capture = Capture()
    stdout = io.StringIO()
    original_display = pp.display
    pp.display = capture
    try:
        with warnings.catch_warnings(record=True) as caught:
            warnings.simplefilter("always")
            with contextlib.redirect_stdout(stdout):
                outcome = attempt(fn)
    finally:
        pp.display = original_display
    # half-built Axes of a failed call sit in reference cycles and are only
    # weakly referenced by the groups of shared axes: collect them now so that
    # what is described does not depend on when the collector happens to run.
    gc.collect()
    emit("OUTCOME", enc(outcome))
    emit("WARNINGS", enc(sorted({(w.category.__name__, scrub(str(w.message))[:200]) for w in caught})))
    emit("STDOUT", enc(scrub(stdout.getvalue())))
    for item in capture.items:
        emit("DISPLAY", item)
    describe_figures(render)
    for k, obj in enumerate(objs):
        after = snapshot(obj)
        emit(f"OBJ{k}", "same" if after == before[k] else "CHANGED", after)
        emit(f"OBJ{k}-identity", enc([id(a) == i for (_, a), i in zip(arrays_of(obj), ids_before[k])]))
    emit("DEFAULTS", "same" if enc(pp.DEFAULT_KWARGS) == defaults_before else "CHANGED",
         hashlib.sha256(enc(pp.DEFAULT_KWARGS).encode()).hexdigest()[:16])
    emit("RC", hashlib.sha256(repr(sorted((k, repr(v)) for k, v in matplotlib.rcParams.items())).encode()).hexdigest()[:16])
    emit("PDOPT", enc(pp.pd.get_option("display.max_colwidth")))
    del keep_alive
    plt.close("all")


@contextlib.contextmanager
def fault(owner, name, k, exc=Boom):
    """``owner.name`` raises on its k-th call (counted from 1) while inside."""
    own = name in vars(owner)
    original = getattr(owner, name)
    calls = [0]

    def wrapper(*args, **kwargs):
        calls[0] += 1
        if calls[0] == k:
            raise exc(f"injected into {name} at call {k}")
        return original(*args, **kwargs)
    setattr(owner, name, wrapper)
    try:
        yield calls
    finally:
        if own:
            setattr(owner, name, original)
        else:
            delattr(owner, name)


# --------------------------------------------------------------------------
# random inputs
# --------------------------------------------------------------------------

def pick(rng, options):
    return options[int(rng.integers(len(options)))]


def make_frequency(rng):
    n = int(rng.integers(12, 48))
    return np.geomspace(rng.uniform(0.1, 1.0), rng.uniform(10, 50), n)


def make_amplitude(rng, frequency, n_curves, scale=None):
    scale = pick(rng, [3, 3, 3, 8, 20]) if scale is None else scale
    rows = []
    for _ in range(n_curves):
        kind = rng.random()
        f0 = rng.uniform(0.6, 8)
        width = rng.uniform(0.05, 0.4)
        bump = rng.uniform(1, scale) * np.exp(-np.log(frequency / f0)**2 / width)
        if kind < 0.08:
            row = np.linspace(1, 2, len(frequency))      # no peak
        elif kind < 0.12:
            row = np.full(len(frequency), 1.5)           # flat
        else:
            row = 1 + bump + 0.05 * rng.random(len(frequency))
            if kind > 0.8:    # second peak
                row = row + rng.uniform(0.5, 2) * np.exp(-np.log(frequency / (f0 * 3))**2 / 0.05)
        rows.append(row)
    return np.array(rows)


def random_mask(rng, n, style=None):
    style = pick(rng, ["all", "all", "random", "random", "most", "most", "most", "one", "none"]) if style is None else style
    if style == "all":
        mask = np.ones(n, dtype=bool)
    elif style == "random":
        mask = rng.random(n) < 0.7
    elif style == "one":
        mask = np.zeros(n, dtype=bool)
        mask[int(rng.integers(n))] = True
    elif style == "none":
        mask = np.zeros(n, dtype=bool)
    else:
        mask = rng.random(n) < 0.9
    return mask


def make_traditional(rng, n_curves=None, frequency=None, mask_style=None, scale=None):
    frequency = make_frequency(rng) if frequency is None else frequency
    if n_curves is None:
        n_curves = int(rng.integers(3, 10)) if rng.random() < 0.9 else int(rng.integers(1, 3))
    meta = pick(rng, [None, {"site": "A", "n": 3}])
    hvsr = HvsrTraditional(frequency, make_amplitude(rng, frequency, n_curves, scale), meta=meta)
    if rng.random() < 0.2:
        lo, hi = rng.uniform(0.2, 0.7), rng.uniform(6, 20)
        if rng.random() < 0.2:
            lo, hi = sorted(rng.uniform(0.3, 15, 2))
        hvsr.update_peaks_bounded(search_range_in_hz=pick(rng, [(lo, hi), (None, hi), (lo, None)]),
                                  find_peaks_kwargs=pick(rng, [None, dict(prominence=0.1)]))
    if rng.random() < 0.75:
        window = random_mask(rng, n_curves, mask_style)
        peak = window & (rng.random(n_curves) < 0.85) if rng.random() < 0.7 else random_mask(rng, n_curves)
        hvsr.valid_window_boolean_mask = window & hvsr.valid_window_boolean_mask if rng.random() < 0.5 else window
        hvsr.valid_peak_boolean_mask = peak & hvsr.valid_peak_boolean_mask if rng.random() < 0.8 else peak
    return hvsr


def make_azimuthal(rng, scale=None, risky=None):
    risky = (rng.random() < 0.3) if risky is None else risky
    frequency = make_frequency(rng)
    n_az = int(rng.integers(2, 6))
    n_curves = int(rng.integers(2, 6))
    azimuths = list(np.arange(n_az) * (180. / n_az))
    hvsrs = [HvsrTraditional(frequency, make_amplitude(rng, frequency, n_curves, scale)) for _ in range(n_az)]
    az = HvsrAzimuthal(hvsrs, azimuths, meta=pick(rng, [None, {"k": 1}]))
    if rng.random() < 0.25:
        lo, hi = rng.uniform(0.2, 0.7), rng.uniform(6, 20)
        if rng.random() < 0.2:
            lo, hi = sorted(rng.uniform(0.3, 15, 2))
        az.update_peaks_bounded(search_range_in_hz=(lo, hi))
    for h in az.hvsrs:
        if rng.random() < 0.6:
            style = pick(rng, ["all", "random", "most", "most", "one", "none"] if risky else ["all", "most", "most"])
            window = random_mask(rng, n_curves, style)
            h.valid_window_boolean_mask = window
            h.valid_peak_boolean_mask = window & h.valid_peak_boolean_mask & (rng.random(n_curves) < 0.9)
    return az


def make_diffuse(rng):
    frequency = make_frequency(rng)
    return HvsrDiffuseField(frequency, make_amplitude(rng, frequency, 1)[0], meta=pick(rng, [None, {"d": 1}]))


def make_hvsr(rng, weights=(0.5, 0.3, 0.12, 0.08)):
    u = rng.random()
    if u < weights[0]:
        return make_traditional(rng)
    if u < weights[0] + weights[1]:
        return make_azimuthal(rng)
    if u < sum(weights[:3]):
        return make_diffuse(rng)
    frequency = make_frequency(rng)
    return pick(rng, [None, "hvsr", 3.5, HvsrCurve(frequency, make_amplitude(rng, frequency, 1)[0]),
                      [make_traditional(rng)]])


def make_srecords(rng, n, kind=None):
    dt = pick(rng, [0.01, 0.005, 0.02])
    n_samples = int(rng.integers(8, 120))
    records = []
    for k in range(n):
        amp = [rng.normal(scale=rng.uniform(0.1, 50), size=n_samples) for _ in range(3)]
        if rng.random() < 0.05:
            amp = [np.zeros(n_samples)] * 3
        records.append(SeismicRecording3C(*(TimeSeries(a, dt) for a in amp),
                                          degrees_from_north=pick(rng, [0., 15.]),
                                          meta=pick(rng, [None, {"file name(s)": "x.mseed"}])))
    kind = pick(rng, ["list", "list", "tuple"]) if kind is None else kind
    return tuple(records) if kind == "tuple" else records


def random_flag(rng, p_true=0.5):
    value = rng.random() < p_true
    u = rng.random()
    if u < 0.70:
        return bool(value)
    if u < 0.80:
        return np.bool_(value)
    if u < 0.88:
        return 1 if value else 0
    if u < 0.94:
        return "yes" if value else ""
    if u < 0.99:
        return [0] if value else None
    return np.array([True, False])      # ambiguous truth value -> ValueError


def random_distribution(rng, allow_bad=True):
    u = rng.random()
    if u < 0.47:
        return "lognormal"
    if u < 0.83:
        return "normal"
    if u < 0.86:
        return np.str_(pick(rng, ["lognormal", "normal"]))
    if u < 0.89 or not allow_bad:
        return "log-normal"
    return pick(rng, ["gamma", "Lognormal", "NORMAL", None, 5, ["normal"], ""])


def random_ax(rng):
    """Existing axes (with some history) to draw on."""
    kind = pick(rng, ["fresh", "fresh", "used", "logy", "limits", "grid"])
    if kind == "grid":
        fig, axs = plt.subplots(ncols=2, figsize=(4, 2), dpi=60)
        return axs[int(rng.integers(2))]
    fig, ax = plt.subplots(figsize=(3, 2), dpi=60)
    if kind == "used":
        ax.plot([1, 2, 3], [2, 7.3, 1], label="earlier", color="C1")
    elif kind == "logy":
        ax.set_yscale("log")
    elif kind == "limits":
        ax.set_ylim(0.3, rng.uniform(2.2, 12.7))
    return ax


def random_subplots_kwargs(rng):
    return pick(rng, [None, None, {}, dict(figsize=(3, 2)), dict(dpi=72), dict(figsize=(2.5, 2), dpi=50),
                      types.MappingProxyType(dict(dpi=64)), dict(facecolor="0.9"),
                      dict(bogus_keyword=1), 7, [("dpi", 50)]])


def n_cases(n):
    return max(1, int(round(n * N_SCALE)))


# --------------------------------------------------------------------------
# case families
# --------------------------------------------------------------------------

def family_single_panel(seed_offset=0):
    for k in range(n_cases(110)):
        rng = np.random.default_rng([SEED, 1, k])
        hvsr = make_hvsr(rng)
        kwargs = dict(distribution_mc=random_distribution(rng), distribution_fn=random_distribution(rng),
                      plot_valid_curves=random_flag(rng, 0.8), plot_invalid_curves=random_flag(rng, 0.5),
                      plot_mean_curve=random_flag(rng, 0.8), plot_frequency_std=random_flag(rng, 0.8),
                      plot_peak_mean_curve=random_flag(rng, 0.8),
                      plot_peak_individual_valid_curves=random_flag(rng, 0.8),
                      plot_peak_individual_invalid_curves=random_flag(rng, 0.5))
        if rng.random() < 0.3:
            kwargs = {key: kwargs[key] for key in list(kwargs)[:int(rng.integers(0, 5))]}
        mode = pick(rng, ["new", "new", "given", "given", "twice", "after-failure"])

        def call():
            out = []
            if mode == "new":
                out.append(attempt(pp.plot_single_panel_hvsr_curves, hvsr,
                                   subplots_kwargs=random_subplots_kwargs(rng), **kwargs))
            else:
                ax = random_ax(rng)
                out.append(attempt(pp.plot_single_panel_hvsr_curves, hvsr, ax=ax,
                                   subplots_kwargs=pick(rng, [None, dict(bogus=1)]), **kwargs))
                if out[-1][0] == "ok":
                    out.append(("same-object", out[-1][1] is ax))
                if mode == "twice":
                    out.append(attempt(pp.plot_single_panel_hvsr_curves, hvsr, ax=ax, **kwargs))
                if mode == "after-failure":
                    out.append(attempt(pp.plot_single_panel_hvsr_curves, hvsr, ax=ax,
                                       distribution_mc="not-a-distribution"))
                    out.append(attempt(pp.plot_single_panel_hvsr_curves, hvsr, ax=ax,
                                       distribution_fn="not-a-distribution"))
                    out.append(attempt(pp.plot_single_panel_hvsr_curves, hvsr, ax=ax))
            return out
        run_case(f"single_panel[{k}] {mode}", call, objs=[hvsr], render=(k % 4 == 0))


def family_helpers():
    overrides = [None, None, {}, dict(label="custom"), dict(color="red", linewidth=2.5),
                 dict(label=None), dict(zorder=9, alpha=0.5), types.MappingProxyType(dict(color="C2")),
                 dict(not_a_property=1), 0, "ab"]
    for k in range(n_cases(90)):
        rng = np.random.default_rng([SEED, 2, k])
        hvsr = make_hvsr(rng)
        plot_kwargs = [pick(rng, overrides) for _ in range(8)]
        given = [None if kw is None else (dict(kw) if isinstance(kw, (dict, types.MappingProxyType)) else kw)
                 for kw in plot_kwargs]
        valid = [random_flag(rng, 0.5) for _ in range(4)]
        dists = [random_distribution(rng) for _ in range(5)]
        n_values = [pick(rng, [1., 1, -1, 2.5, 0, np.float64(0.5), np.int64(2), True, "1", None, np.array([1., 2.])])
                    for _ in range(2)]
        order = rng.permutation(8)

        def call():
            ax = random_ax(rng)
            out = []
            for j in order:
                if j == 0:
                    out.append(attempt(pp._plot_individual_hvsr_curves, ax, hvsr, valid[0], plot_kwargs[0]))
                elif j == 1:
                    out.append(attempt(pp._plot_individual_hvsr_curves, ax=ax, hvsr=hvsr, valid=valid[1]))
                elif j == 2:
                    out.append(attempt(pp._plot_peak_individual_hvsr_curve, ax, hvsr, valid[2], plot_kwargs[2]))
                elif j == 3:
                    out.append(attempt(pp._plot_peak_individual_hvsr_curve, ax=ax, hvsr=hvsr, valid=valid[3],
                                       plot_kwargs=plot_kwargs[3]))
                elif j == 4:
                    out.append(attempt(pp._plot_peak_mean_hvsr_curve, ax, hvsr, dists[0], plot_kwargs[4]))
                elif j == 5:
                    out.append(attempt(pp._plot_mean_hvsr_curve, ax, hvsr, distribution=dists[1],
                                       plot_kwargs=plot_kwargs[5]))
                elif j == 6:
                    out.append(attempt(pp._plot_nth_std_hvsr_curve, ax, hvsr, dists[2], n_values[0],
                                       plot_kwargs[6]))
                else:
                    out.append(attempt(pp._plot_nth_std_frequency_range, ax, hvsr, dists[3], n_values[1],
                                       plot_kwargs[7]))
            if rng.random() < 0.3:
                out.append(attempt(pp._plot_resonance_pdf, ax, hvsr, dists[4]))
            if rng.random() < 0.5:
                out.append(attempt(ax.legend))
            # the caller's dictionaries must not have been modified.
            out.append(("kwargs-unmodified", [enc(a) == enc(b) for a, b in zip(plot_kwargs, given)]))
            return out
        run_case(f"helpers[{k}]", call, objs=[hvsr], render=(k % 6 == 0))

    # defaults of the helpers (no optional argument given at all).
    for k in range(n_cases(16)):
        rng = np.random.default_rng([SEED, 21, k])
        hvsr = make_hvsr(rng, weights=(0.5, 0.35, 0.15, 0.0))

        def call():
            ax = random_ax(rng)
            return [attempt(f, ax, hvsr) for f in (
                pp._plot_individual_hvsr_curves, pp._plot_peak_individual_hvsr_curve,
                pp._plot_mean_hvsr_curve, pp._plot_nth_std_hvsr_curve,
                pp._plot_nth_std_frequency_range, pp._plot_peak_mean_hvsr_curve)] + [attempt(ax.legend)]
        run_case(f"helper-defaults[{k}]", call, objs=[hvsr], render=(k % 5 == 0))


def family_recordings():
    for k in range(n_cases(70)):
        rng = np.random.default_rng([SEED, 3, k])
        n = int(rng.integers(1, 7)) if rng.random() < 0.85 else int(pick(rng, [0, 1, 1]))
        srecords = make_srecords(rng, n)
        if n == 1 and rng.random() < 0.6:
            srecords = srecords[0]
        n_mask = n if rng.random() < 0.9 else n + int(pick(rng, [-1, 1, 2]))
        n_mask = max(n_mask, 0)
        mask_values = rng.random(n_mask) < 0.6
        mask = pick(rng, [None, None, mask_values, mask_values, list(mask_values), list(mask_values),
                          tuple(bool(v) for v in mask_values), mask_values.astype(int),
                          [("x" if v else "") for v in mask_values], [None if v else 2.5 for v in mask_values]]
                    + ([[np.array([True, True])] * n_mask] if rng.random() < 0.2 else []))
        normalize = pick(rng, [True, True, True, False, False, 1, 0, None, "no", np.bool_(False), np.bool_(True)]
                         + ([np.array([1, 0])] if rng.random() < 0.2 else []))
        mode = pick(rng, ["new", "new", "given-tuple", "given-list", "given-array", "given-bad", "twice"])

        def call():
            out = []
            if mode == "new":
                out.append(attempt(pp.plot_seismic_recordings_3c, srecords, valid_window_boolean_mask=mask,
                                   subplots_kwargs=pick(rng, [None, {}, dict(figsize=(3, 3), dpi=50),
                                                              dict(nrows=2), dict(nrows=3, ncols=1, sharey=False),
                                                              dict(gridspec_kw=dict(hspace=0.1)), dict(bogus=2)]),
                                   normalize=normalize))
            else:
                count = 3 if mode != "given-bad" else int(pick(rng, [1, 2, 4]))
                fig, axs = plt.subplots(nrows=count, figsize=(3, 3), dpi=50, squeeze=False)
                axs = axs[:, 0]
                given = {"given-tuple": tuple(axs), "given-list": list(axs)}.get(mode, axs)
                out.append(attempt(pp.plot_seismic_recordings_3c, srecords, mask, given, None, normalize))
                if out[-1][0] == "ok":
                    out.append(("same-object", out[-1][1] is given))
                if mode == "twice":
                    out.append(attempt(pp.plot_seismic_recordings_3c, srecords, axs=given))
            return out
        run_case(f"recordings[{k}] {mode}", call, objs=[srecords, mask if isinstance(mask, np.ndarray) else None],
                 render=(k % 5 == 0))


def family_rejection():
    for k in range(n_cases(50)):
        rng = np.random.default_rng([SEED, 4, k])
        u = rng.random()
        if u < 0.85:
            hvsr = make_traditional(rng, n_curves=int(rng.integers(2, 7)),
                                    mask_style=pick(rng, ["random", "most", "most", "all", None]))
            n = hvsr.n_curves
        else:
            hvsr = pick(rng, [make_azimuthal(rng), make_diffuse(rng), None])
            n = 3
        n_records = n if rng.random() < 0.9 else n + 1
        srecords = make_srecords(rng, n_records)
        kwargs = pick(rng, [{}, {}, dict(distribution_mc=random_distribution(rng)),
                            dict(distribution_fn=random_distribution(rng)),
                            dict(distribution_mc=random_distribution(rng), distribution_fn=random_distribution(rng))])
        repeat = rng.random() < 0.3

        def call():
            out = [attempt(pp.plot_pre_and_post_rejection, srecords, hvsr, **kwargs)]
            if repeat:
                out.append(attempt(pp.plot_pre_and_post_rejection, srecords, hvsr))
            return out
        run_case(f"rejection[{k}]", call, objs=[hvsr, srecords], render=(k % 4 == 0))


def family_summaries():
    for k in range(n_cases(90)):
        rng = np.random.default_rng([SEED, 5, k])
        hvsr = make_hvsr(rng, weights=(0.45, 0.3, 0.15, 0.1))
        args = pick(rng, [(), (), (random_distribution(rng),), (random_distribution(rng), random_distribution(rng))])
        kwargs = {} if args else pick(rng, [{}, dict(distribution_fn=random_distribution(rng)),
                                            dict(distribution_mc=random_distribution(rng)),
                                            dict(distribution_fn=np.array(["normal", "normal"]))])

        def call():
            out = [attempt(pp.summarize_hvsr_statistics, hvsr, *args, **kwargs)]
            if rng.random() < 0.3:
                out.append(attempt(pp.summarize_hvsr_statistics, hvsr, distribution_fn="normal"))
            return out
        run_case(f"summarize[{k}]", call, objs=[hvsr])

    for k in range(n_cases(12)):
        rng = np.random.default_rng([SEED, 51, k])
        mean = pick(rng, [rng.uniform(0.2, 5), np.float64(rng.uniform(0.2, 5)), 0., 2])
        std = pick(rng, [rng.uniform(0.05, 1), 0, np.float64(0.3)])
        dist = pick(rng, ["lognormal", "normal", "normal", "lognormal", "other", None])
        run_case(f"spatial-summary[{k}]", lambda: attempt(pp.summarize_spatial_statistics, mean, std, dist))


def family_azimuthal():
    for k in range(n_cases(75)):
        rng = np.random.default_rng([SEED, 6, k])
        scale = pick(rng, [3, 3, 8, 20, 40])
        u = rng.random()
        if u < 0.85:
            hvsr = make_azimuthal(rng, scale=scale, risky=(rng.random() < 0.35))
        else:
            hvsr = pick(rng, [make_traditional(rng), make_diffuse(rng), None])
        dist = random_distribution(rng)
        flag = random_flag(rng, 0.7)
        which = pick(rng, ["2d", "2d", "3d", "summary", "summary", "sequence"])

        def call():
            out = []
            if which == "2d":
                mode = pick(rng, ["new", "given", "given+fig"])
                contourf_kwargs = pick(rng, [None, {}, dict(levels=5), dict(cmap="viridis", levels=[0, 1, 2, 50]),
                                             dict(bogus=1)])
                if mode == "new":
                    out.append(attempt(pp.plot_azimuthal_contour_2d, hvsr, dist, flag,
                                       subplots_kwargs=random_subplots_kwargs(rng),
                                       contourf_kwargs=contourf_kwargs))
                else:
                    ax = random_ax(rng)
                    out.append(attempt(pp.plot_azimuthal_contour_2d, hvsr, distribution_mc=dist,
                                       plot_mean_curve_peak_by_azimuth=flag,
                                       fig=(ax.figure if mode == "given+fig" else None), ax=ax,
                                       contourf_kwargs=contourf_kwargs))
            elif which == "3d":
                if rng.random() < 0.5:
                    out.append(attempt(pp.plot_azimuthal_contour_3d, hvsr, dist,
                                       plot_mean_curve_peak_by_azimuth=flag,
                                       camera_elevation=pick(rng, [35, 10.5]), camera_azimuth=pick(rng, [250, -40]),
                                       camera_distance=pick(rng, [13, 9])))
                else:
                    fig = plt.figure(figsize=(3, 3), dpi=50)
                    ax = fig.add_subplot(projection="3d")
                    out.append(attempt(pp.plot_azimuthal_contour_3d, hvsr, dist, ax, flag))
                    if rng.random() < 0.3:
                        out.append(attempt(pp.plot_azimuthal_contour_3d, hvsr, ax=ax))
            elif which == "summary":
                kwargs = dict(distribution_mc=dist, distribution_fn=random_distribution(rng),
                              plot_mean_curve_peak_by_azimuth=flag,
                              plot_valid_curves=random_flag(rng, 0.8), plot_invalid_curves=random_flag(rng, 0.5),
                              plot_mean_curve=random_flag(rng, 0.8), plot_frequency_std=random_flag(rng, 0.8),
                              plot_peak_mean_curve=random_flag(rng, 0.7),
                              plot_peak_individual_valid_curves=random_flag(rng, 0.8),
                              plot_peak_individual_invalid_curves=random_flag(rng, 0.5))
                if rng.random() < 0.3:
                    kwargs = {}
                out.append(attempt(pp.plot_azimuthal_summary, hvsr, **kwargs))
            else:
                out.append(attempt(pp.plot_azimuthal_summary, hvsr, distribution_mc="bad"))
                out.append(attempt(pp.plot_azimuthal_summary, hvsr, dist))
                out.append(attempt(pp.plot_azimuthal_contour_2d, hvsr, dist))
                out.append(attempt(pp.summarize_hvsr_statistics, hvsr, dist))
            return out
        run_case(f"azimuthal[{k}] {which}", call, objs=[hvsr], render=(k % 5 == 0))


def family_voronoi():
    for k in range(n_cases(14)):
        rng = np.random.default_rng([SEED, 7, k])
        n = int(rng.integers(1, 6))
        coords = rng.uniform(0, 10, (n, 2))
        fn = pick(rng, [rng.uniform(0.5, 3, n), list(rng.uniform(0.5, 3, n))])
        vertices = [rng.uniform(0, 10, (int(rng.integers(3, 7)), 2)) for _ in range(n)]
        boundary = np.array([[0, 0], [10, 0], [10, 10], [0, 10.]])

        def call():
            if rng.random() < 0.5:
                return attempt(pp.plot_voronoi, coords, fn, vertices, boundary,
                               fig_kwargs=pick(rng, [None, {}, dict(dpi=60), dict(bogus=1), 3]))
            ax = random_ax(rng)
            return attempt(pp.plot_voronoi, coords, fn, vertices, boundary, ax, dict(bogus=1))
        run_case(f"voronoi[{k}]", call, objs=[coords, boundary, vertices], render=(k % 4 == 0))


def family_user_defaults():
    """User edits of DEFAULT_KWARGS are honoured at call time; never modified by calls."""
    keys = list(pp.DEFAULT_KWARGS)
    for k in range(n_cases(40)):
        rng = np.random.default_rng([SEED, 8, k])
        key = pick(rng, keys)
        edit = pick(rng, ["change", "change", "delete", "add", "proxy", "no-label", "rebind", "rebind"])
        hvsr = make_traditional(rng, n_curves=int(rng.integers(2, 6)), mask_style="random") \
            if rng.random() < 0.55 else make_azimuthal(rng, risky=False)
        srecords = make_srecords(rng, 3)
        mask = [True, False, True]

        def call():
            original = pp.DEFAULT_KWARGS[key]
            module_dict = pp.DEFAULT_KWARGS
            try:
                if edit == "rebind":
                    # the module attribute is replaced by another dict (looked up when called).
                    pp.DEFAULT_KWARGS = {name: dict(value) for name, value in module_dict.items()}
                    pp.DEFAULT_KWARGS[key]["zorder"] = 12
                    pp.DEFAULT_KWARGS[key]["label"] = f"rebound {key}"
                elif edit == "change":
                    pp.DEFAULT_KWARGS[key] = {**original, "zorder": 11, "label": f"edited {key}"}
                elif edit == "delete":
                    del pp.DEFAULT_KWARGS[key]
                elif edit == "add":
                    pp.DEFAULT_KWARGS[key] = {**original, "alpha": 0.25}
                elif edit == "proxy":
                    pp.DEFAULT_KWARGS[key] = types.MappingProxyType(dict(original))
                else:
                    pp.DEFAULT_KWARGS[key] = {a: b for a, b in original.items() if a != "label"}
                out = [attempt(pp.plot_single_panel_hvsr_curves, hvsr, plot_invalid_curves=True,
                               plot_peak_individual_invalid_curves=True,
                               distribution_fn=pick(rng, ["lognormal", "normal"])),
                       attempt(pp.plot_seismic_recordings_3c, srecords, mask)]
                if isinstance(hvsr, HvsrAzimuthal):
                    out.append(attempt(pp.plot_azimuthal_contour_2d, hvsr))
                    out.append(attempt(pp.plot_azimuthal_contour_3d, hvsr))
                elif rng.random() < 0.5:
                    out.append(attempt(pp.plot_pre_and_post_rejection, make_srecords(rng, hvsr.n_curves), hvsr))
                out.append(("edited-entry", enc(pp.DEFAULT_KWARGS.get(key, "<deleted>"))))
            finally:
                pp.DEFAULT_KWARGS = module_dict
                pp.DEFAULT_KWARGS.pop(key, None)
                # keep position of key (dict order) as it was.
                rebuilt = {}
                for name in keys:
                    rebuilt[name] = original if name == key else pp.DEFAULT_KWARGS[name]
                pp.DEFAULT_KWARGS.clear()
                pp.DEFAULT_KWARGS.update(rebuilt)
            return out
        run_case(f"user-defaults[{k}] {edit} {key}", call, objs=[hvsr, srecords], render=(k % 8 == 0))


def family_interruptions():
    """An operation is interrupted part-way; state afterwards; the call is repeated."""
    axes_targets = [(Axes, "plot"), (Axes, "plot"), (Axes, "fill"), (Axes, "legend"),
                    (Axes, "set_xscale"), (Axes, "set_title"), (Axes, "set_ylim")]
    hvsr_targets = ["mean_curve", "std_curve", "nth_std_curve", "mean_curve_peak",
                    "nth_std_fn_frequency", "mean_fn_frequency", "std_fn_frequency"]
    for k in range(n_cases(60)):
        rng = np.random.default_rng([SEED, 9, k])
        exc = pick(rng, [Boom, Boom, RuntimeError, KeyboardInterrupt])
        what = pick(rng, ["rejection", "rejection", "rejection", "single", "recordings"])
        hvsr = make_traditional(rng, n_curves=int(rng.integers(2, 6)), mask_style=pick(rng, ["random", "most"]))
        srecords = make_srecords(rng, hvsr.n_curves)
        if rng.random() < 0.65:
            owner, name = pick(rng, axes_targets)
            nth = int(rng.integers(1, 40 if name == "plot" else 6))
        else:
            owner, name = HvsrTraditional, pick(rng, hvsr_targets)
            nth = int(rng.integers(1, 9))

        def call():
            out = []
            if what == "rejection":
                function, args = pp.plot_pre_and_post_rejection, (srecords, hvsr)
            elif what == "single":
                ax = random_ax(rng)
                function, args = pp.plot_single_panel_hvsr_curves, (hvsr, "lognormal", "normal", True, True,
                                                                    True, True, True, True, True, ax)
            else:
                function, args = pp.plot_seismic_recordings_3c, (srecords, hvsr.valid_window_boolean_mask)
            with fault(owner, name, nth, exc) as calls:
                out.append(attempt(function, *args))
                out.append(("calls", calls[0]))
            out.append(("state", snapshot(hvsr)))
            out.append(("statistics", attempt(hvsr.mean_fn_frequency), attempt(hvsr.mean_curve_peak)))
            out.append(attempt(function, *args))
            return out
        run_case(f"interrupted[{k}] {what} {name}@{nth} {exc.__name__}", call, objs=[hvsr, srecords],
                 render=(k % 6 == 0))

    # first call of a statistic fails (position of first use) in the composite figures / summaries.
    az_targets = ["mean_curve_by_azimuth", "mean_curve_peak_by_azimuth", "mean_curve_peak", "mean_curve",
                  "std_curve", "nth_std_curve", "nth_std_fn_frequency", "mean_fn_frequency", "std_fn_frequency",
                  "mean_fn_amplitude", "std_fn_amplitude", "nth_std_fn_amplitude"]
    for k in range(n_cases(36)):
        rng = np.random.default_rng([SEED, 91, k])
        azimuthal = rng.random() < 0.6
        hvsr = make_azimuthal(rng, risky=False) if azimuthal else make_traditional(rng, n_curves=4, mask_style="most")
        owner = HvsrAzimuthal if azimuthal else HvsrTraditional
        name = pick(rng, az_targets if azimuthal else az_targets[2:])
        exc = pick(rng, [Boom, ValueError])
        function = pick(rng, [pp.plot_azimuthal_summary, pp.plot_azimuthal_summary, pp.summarize_hvsr_statistics,
                              pp.plot_azimuthal_contour_2d, pp.plot_azimuthal_contour_3d]) if azimuthal \
            else pick(rng, [pp.summarize_hvsr_statistics, pp.plot_single_panel_hvsr_curves])
        dist = pick(rng, ["lognormal", "normal"])

        def call():
            out = []
            with fault(owner, name, 1, exc) as calls:
                out.append(attempt(function, hvsr, dist))
                out.append(("reached", calls[0] > 0))
            out.append(("state", snapshot(hvsr)))
            out.append(attempt(function, hvsr, dist))
            return out
        run_case(f"first-use[{k}] {function.__name__} {name} {exc.__name__}", call, objs=[hvsr],
                 render=(k % 9 == 0))


def family_warnings_as_errors():
    """With the "error" filter the first warning decides what is raised and what was drawn before."""
    for k in range(n_cases(40)):
        rng = np.random.default_rng([SEED, 10, k])
        style = pick(rng, ["none", "none", "one", "random"])
        if rng.random() < 0.5:
            hvsr = make_traditional(rng, n_curves=int(rng.integers(2, 6)), mask_style=style)
            if rng.random() < 0.5:
                hvsr.valid_peak_boolean_mask = np.zeros(hvsr.n_curves, dtype=bool)
        else:
            hvsr = make_azimuthal(rng, risky=True)
        functions = [pp.summarize_hvsr_statistics, pp.plot_single_panel_hvsr_curves]
        if isinstance(hvsr, HvsrAzimuthal):
            functions += [pp.plot_azimuthal_summary, pp.plot_azimuthal_contour_2d]
        function = pick(rng, functions)
        dists = (pick(rng, ["lognormal", "normal"]), pick(rng, ["lognormal", "normal"]))

        def call():
            out = []
            with warnings.catch_warnings():
                warnings.simplefilter("error")
                if function in (pp.plot_azimuthal_contour_2d,):
                    out.append(attempt(function, hvsr, dists[0]))
                else:
                    out.append(attempt(function, hvsr, dists[0], dists[1]))
            out.append(attempt(pp.summarize_hvsr_statistics, hvsr, dists[0], dists[1]))
            return out
        run_case(f"warnings-as-errors[{k}] {function.__name__}", call, objs=[hvsr])


def family_api():
    """Names and signatures that callers may rely on."""
    import inspect
    emit("ALL", enc(list(pp.__all__)))
    private = ["_plot_individual_hvsr_curves", "_plot_peak_individual_hvsr_curve", "_plot_peak_mean_hvsr_curve",
               "_plot_mean_hvsr_curve", "_plot_nth_std_hvsr_curve", "_plot_nth_std_frequency_range",
               "_plot_resonance_pdf", "_azimuthal_mesh_from_hvsr"]
    for name in sorted(set(pp.__all__)) + private:
        obj = getattr(pp, name)
        if callable(obj):
            emit("SIGNATURE", name, str(inspect.signature(obj)), enc(inspect.getdoc(obj)))
        else:
            emit("VALUE", name, enc(obj))
    emit("EXPORTED", enc([n for n in pp.__all__ if getattr(hvsrpy, n, None) is getattr(pp, n)]))


def main():
    if "hvsrpy" not in sys.modules or not os.path.isfile(pp.__file__):
        raise SystemExit("hvsrpy not importable")
    sys.stderr.write(f"using {pp.__file__}\n")
    np.seterr(all="warn")
    family_api()
    family_single_panel()
    family_helpers()
    family_recordings()
    family_rejection()
    family_summaries()
    family_azimuthal()
    family_voronoi()
    family_user_defaults()
    family_interruptions()
    family_warnings_as_errors()
    emit("CASES", enc(CASE_COUNT[0]))
    sys.stderr.write(f"{CASE_COUNT[0]} cases\n")
    if _LOG is not None:
        _LOG.close()
    print(f"DIGEST {_H.hexdigest()}")


if __name__ == "__main__":
    with warnings.catch_warnings():
        warnings.simplefilter("ignore")
        main()
