"""Equivalence digest for the processing / preprocessing refactoring.

Imports hvsrpy from the tree this file lives in, exercises the code in
hvsrpy/processing.py and hvsrpy/preprocessing.py on a range of inputs and
call sequences and prints a deterministic sha256 digest of everything
observable: return values (bit for bit), mutations of the arguments,
aliasing, exception types, warnings, text printed to stdout, the number of
log records, and the files written for the results.

Usage: python _refactor/equivalence.py [-v]
"""

import sys
import os
import io
import copy
import hashlib
import shutil
import logging
import tempfile
import warnings
import contextlib

# adjusted for the rebase onto main: the package is taken from PYTHONPATH.

import numpy as np  # noqa: E402

with warnings.catch_warnings():
    warnings.simplefilter("ignore")
    import hvsrpy  # noqa: E402
    from hvsrpy import processing, preprocessing  # noqa: E402
    from hvsrpy.instrument_response import InstrumentTransferFunction  # noqa: E402

print("hvsrpy from:", os.path.dirname(os.path.abspath(hvsrpy.__file__)), file=sys.stderr)

VERBOSE = "-v" in sys.argv

# ---------------------------------------------------------------------------
# canonical description of python objects
# ---------------------------------------------------------------------------


def describe(obj, depth=0):
    """Deterministic, bit-exact text description of obj."""
    if depth > 12:
        return "<too deep>"
    d = depth + 1
    if obj is None or isinstance(obj, (bool, int, str)):
        return f"{type(obj).__name__}:{obj!r}"
    if isinstance(obj, float):
        return f"float:{obj.hex()}"
    if isinstance(obj, complex):
        return f"complex:{obj.real.hex()},{obj.imag.hex()}"
    if isinstance(obj, np.generic):
        return f"{type(obj).__name__}:{obj.tobytes().hex()}"
    if isinstance(obj, np.ndarray):
        flags = f"C{int(obj.flags.c_contiguous)}W{int(obj.flags.writeable)}O{int(obj.flags.owndata)}"
        if obj.dtype == object:
            body = ",".join(describe(x, d) for x in obj.ravel().tolist())
        else:
            body = hashlib.sha256(np.ascontiguousarray(obj).tobytes()).hexdigest()
        return f"ndarray[{obj.dtype.str}{obj.shape}{flags}]:{body}"
    if isinstance(obj, dict):
        items = ",".join(f"{describe(k, d)}=>{describe(v, d)}" for k, v in obj.items())
        return f"{type(obj).__name__}{{{items}}}"
    if isinstance(obj, (list, tuple)):
        return f"{type(obj).__name__}[" + ",".join(describe(x, d) for x in obj) + "]"
    if isinstance(obj, hvsrpy.TimeSeries):
        return f"TimeSeries({describe(obj.amplitude, d)},{describe(obj.dt_in_seconds, d)})"
    if isinstance(obj, hvsrpy.SeismicRecording3C):
        return ("SeismicRecording3C(" + ",".join(describe(getattr(obj, c), d) for c in ("ns", "ew", "vt"))
                + f",{describe(obj.degrees_from_north, d)},{describe(obj.meta, d)})")
    if isinstance(obj, hvsrpy.HvsrTraditional):
        parts = [describe(getattr(obj, name), d) for name in
                 ("frequency", "amplitude", "n_curves", "valid_window_boolean_mask",
                  "valid_peak_boolean_mask", "meta", "_main_peak_frq", "_main_peak_amp")]
        return "HvsrTraditional(" + ",".join(parts) + ")"
    if isinstance(obj, hvsrpy.HvsrAzimuthal):
        return ("HvsrAzimuthal(" + describe(obj.hvsrs, d) + "," + describe(obj.azimuths, d)
                + "," + describe(obj.meta, d) + ")")
    if isinstance(obj, hvsrpy.HvsrDiffuseField):
        parts = [describe(getattr(obj, name), d) for name in
                 ("frequency", "amplitude", "meta", "peak_frequency", "peak_amplitude")]
        return "HvsrDiffuseField(" + ",".join(parts) + ")"
    if type(obj).__name__ == "Psd":
        return f"Psd({describe(obj.frequency, d)},{describe(obj.amplitude, d)},{describe(obj.meta, d)})"
    if isinstance(obj, hvsrpy.settings.Settings):
        state = {name: getattr(obj, name) for name in obj.attrs}
        return f"{type(obj).__name__}(attrs={obj.attrs!r};{describe(state, d)};attr_dict={describe(obj.attr_dict, d)})"
    if isinstance(obj, InstrumentTransferFunction):
        return f"ITF({obj.poles!r},{obj.zeros!r},{obj.instrument_sensitivity!r},{obj.normalization_factor!r})"
    if isinstance(obj, BaseException):
        return f"EXC:{type(obj).__name__}"
    return f"<{type(obj).__name__}>"


class LogCounter(logging.Handler):
    def __init__(self):
        super().__init__(level=logging.DEBUG)
        self.count = 0

    def emit(self, record):
        self.count += 1


LOG_COUNTER = LogCounter()
_logger = logging.getLogger("hvsrpy")
_logger.addHandler(LOG_COUNTER)
_logger.setLevel(logging.DEBUG)

MASTER = hashlib.sha256()
N_CASES = 0


def record_case(name, text, label=""):
    global N_CASES
    N_CASES += 1
    digest = hashlib.sha256(text.encode("utf-8")).hexdigest()
    MASTER.update(f"{name}:{digest}\n".encode("utf-8"))
    if VERBOSE:
        print(f"{name:70s} {digest[:16]} {label}")


def run_case(name, func, watch=()):
    """Run func(); digest outcome, warnings, stdout, log count and watched objects."""
    LOG_COUNTER.count = 0
    stdout = io.StringIO()
    with warnings.catch_warnings(record=True) as caught:
        warnings.simplefilter("always")
        with contextlib.redirect_stdout(stdout):
            try:
                outcome = func()
            except BaseException as e:  # noqa
                if isinstance(e, (KeyboardInterrupt, SystemExit)):
                    raise
                outcome = e
    warns = [(w.category.__name__, str(w.message), os.path.basename(w.filename)) for w in caught]
    text = "|".join([
        "OUT=" + describe(outcome),
        "WARN=" + describe(warns),
        "STDOUT=" + repr(stdout.getvalue()),
        "LOGS=" + str(LOG_COUNTER.count),
        "WATCH=" + describe(list(watch)),
    ])
    label = f"{type(outcome).__name__} warnings={len(warns)} stdout={len(stdout.getvalue())} logs={LOG_COUNTER.count}"
    record_case(name, text, label)
    return outcome


# ---------------------------------------------------------------------------
# synthetic data
# ---------------------------------------------------------------------------

def make_record(seed, n_samples=3001, dt=0.01, degrees_from_north=0., meta=None, kind="noise"):
    rng = np.random.default_rng(seed)
    t = np.arange(n_samples)*dt
    comps = []
    for k in range(3):
        if kind == "noise":
            amp = rng.normal(size=n_samples) + (0.5 + k)*np.sin(2*np.pi*(1.3+k)*t) + 0.01*k*t
        elif kind == "zeros":
            amp = np.zeros(n_samples)
        elif kind == "nan":
            amp = rng.normal(size=n_samples)
            amp[n_samples//2] = np.nan
        elif kind == "inf":
            amp = rng.normal(size=n_samples)
            amp[n_samples//3] = np.inf
        elif kind == "spike":
            amp = rng.normal(size=n_samples)*1e-3
            amp[n_samples//2] = 1e9
        else:
            raise ValueError(kind)
        comps.append(hvsrpy.TimeSeries(amp, dt))
    return hvsrpy.SeismicRecording3C(*comps, degrees_from_north=degrees_from_north, meta=meta)


def make_records(spec):
    """spec: list of (seed, n_samples, dt)"""
    return [make_record(seed, n, dt, meta={"file name(s)": f"rec{seed}.mseed"}) for seed, n, dt in spec]


UNIFORM = [(1, 3001, 0.01), (2, 3001, 0.01), (3, 3001, 0.01)]
MIXED = [(1, 3001, 0.01), (2, 1501, 0.02), (3, 3001, 0.01), (4, 1501, 0.02), (5, 2001, 0.01), (6, 601, 0.05)]
TIE = [(1, 1501, 0.02), (2, 3001, 0.01), (3, 1501, 0.02), (4, 3001, 0.01)]
UNEQUAL_LENGTH = [(1, 3001, 0.01), (2, 2500, 0.01), (3, 1234, 0.01)]
LONG = [(7, 40001, 0.005), (8, 33000, 0.005)]

SMOOTHINGS = {
    "ko": dict(operator="konno_and_ohmachi", bandwidth=40, center_frequencies_in_hz=np.geomspace(0.3, 9, 24)),
    "ko_float": dict(operator="konno_and_ohmachi", bandwidth=30.5, center_frequencies_in_hz=list(np.geomspace(0.5, 8, 11))),
    "parzen": dict(operator="parzen", bandwidth=0.5, center_frequencies_in_hz=np.linspace(0.4, 9.5, 17)),
    "lin_rect": dict(operator="linear_rectangular", bandwidth=0.5, center_frequencies_in_hz=np.linspace(0.5, 9, 13)),
    "log_tri": dict(operator="log_triangular", bandwidth=0.2, center_frequencies_in_hz=np.geomspace(0.5, 9, 13)),
    "savgol": dict(operator="savitzky_and_golay", bandwidth=9, center_frequencies_in_hz=np.linspace(0.5, 9, 13)),
}
SMOOTHINGS = {k: v for k, v in SMOOTHINGS.items() if v["operator"] in hvsrpy.smoothing.SMOOTHING_OPERATORS}

TMPDIR = tempfile.mkdtemp(prefix="equiv_")


def file_digest(result):
    """Write result with the object io and return description of the bytes written."""
    out = []
    if isinstance(result, (hvsrpy.HvsrTraditional, hvsrpy.HvsrAzimuthal, hvsrpy.HvsrDiffuseField)):
        fname = os.path.join(TMPDIR, "result.hv")
        if os.path.exists(fname):
            os.remove(fname)
        try:
            with warnings.catch_warnings():
                warnings.simplefilter("ignore")
                hvsrpy.write_hvsr_object_to_file(result, fname)
            with open(fname, "rb") as f:
                out.append(hashlib.sha256(f.read()).hexdigest())
        except Exception as e:  # noqa
            out.append("EXC:" + type(e).__name__)
    return out


def settings_file_digest(settings):
    fname = os.path.join(TMPDIR, "settings.json")
    try:
        settings.save(fname)
        with open(fname, "rb") as f:
            return hashlib.sha256(f.read()).hexdigest()
    except Exception as e:  # noqa
        return "EXC:" + type(e).__name__


def processing_case(name, func, records, settings):
    """func(records, settings) plus all of the side effects that can be observed."""
    user_fft = settings.fft_settings
    user_smoothing = getattr(settings, "smoothing", None)
    elements_before = list(records) if isinstance(records, list) else None

    def call():
        result = func(records, settings)
        return [result, file_digest(result)]

    outcome = run_case(name, call)
    side = [
        describe(settings),
        "fft_alias=" + str(settings.fft_settings is user_fft),
        "smoothing_alias=" + str(getattr(settings, "smoothing", None) is user_smoothing),
        describe(records),
        "same_elements=" + str(elements_before is None or
                               (len(elements_before) == len(records) and
                                all(a is b for a, b in zip(elements_before, records)))),
        settings_file_digest(settings),
    ]
    record_case(name + "/side", "|".join(side))
    return outcome


class FakeSettings:
    """Minimal stand-in used to call the public helper functions directly."""

    def __init__(self, **kwargs):
        self.__dict__.update(kwargs)


# ---------------------------------------------------------------------------
# 1. FFT length selection
# ---------------------------------------------------------------------------

def section_fft_length():
    for n in [0, 1, 100, 32767, 32768, 32769, 65535, 65536, 65537, 10**6, 2**20, 2.5, 40000.7, -5]:
        run_case(f"nextpow2/{n}", lambda n=n: processing.nextpow2(n))
        for m in [1, 2, 3, 1024, 2**16]:
            run_case(f"nextpow2/{n}/{m}", lambda n=n, m=m: processing.nextpow2(n, m))
            run_case(f"nextpow2kw/{n}/{m}", lambda n=n, m=m: processing.nextpow2(n, minimum_power_of_two=m))

    record_sets = {"uniform": make_records(UNIFORM), "mixed": make_records(MIXED),
                   "long": make_records(LONG), "empty": [],
                   "tuple": tuple(make_records(UNIFORM))}
    fft_options = [None, {}, {"n": None}, {"n": 10}, {"n": 3001}, {"n": 32768}, {"n": 32769},
                   {"n": 2**17}, {"n": 40000.0}, {"norm": "ortho"}, {"norm": "ortho", "n": 5},
                   {"n": 70001, "axis": -1}, {"n": "bad"}]
    for rname, recs in record_sets.items():
        for idx, option in enumerate(fft_options):
            fs = FakeSettings(fft_settings=copy.deepcopy(option))
            original = fs.fft_settings

            def call(fs=fs, recs=recs, original=original):
                out = []
                for _ in range(3):
                    ret = processing.prepare_fft_settings(recs, fs)
                    out.append([ret, copy.deepcopy(fs.fft_settings), fs.fft_settings is original])
                return out
            run_case(f"prepare_fft_settings/{rname}/{idx}", call, watch=[fs.__dict__])

    # on real settings objects, repeated and shared between objects.
    recs = make_records(UNIFORM)
    shared = {"n": None}
    s1 = hvsrpy.HvsrTraditionalProcessingSettings(fft_settings=shared, smoothing=SMOOTHINGS["ko"])
    s2 = hvsrpy.HvsrDiffuseFieldProcessingSettings(fft_settings=shared, smoothing=SMOOTHINGS["ko"])

    def call():
        out = []
        for s in (s1, s2, s1):
            processing.prepare_fft_settings(recs, s)
            out.append(copy.deepcopy(shared))
        return out
    run_case("prepare_fft_settings/shared", call, watch=[s1, s2, shared])
    run_case("prepare_fft_settings/single_record",
             lambda: processing.prepare_fft_settings(recs[0], FakeSettings(fft_settings=None)))


# ---------------------------------------------------------------------------
# 2. grouping by time step
# ---------------------------------------------------------------------------

def section_grouping():
    specs = {"uniform": UNIFORM, "mixed": MIXED, "tie": TIE, "single": UNIFORM[:1], "empty": [],
             "rev": MIXED[::-1], "tie_rev": TIE[::-1]}
    modes = ["frequency_domain_resampling", "keeping_smallest_time_step",
             "keeping_majority_time_step", "not_a_mode", None]
    for sname, spec in specs.items():
        for container in (list, tuple):
            recs = container(make_records(spec))
            for mode in modes:
                fs = FakeSettings(handle_dissimilar_time_steps_by=mode)

                def call(recs=recs, fs=fs):
                    ret = processing.prepare_records_with_inconsistent_dt(recs, fs)
                    if ret is None:
                        return None
                    kept, dt_with_count = ret
                    return [type(ret).__name__, type(kept).__name__, kept is recs,
                            [[i for i, r in enumerate(recs) if r is k][0] for k in kept],
                            type(dt_with_count).__name__, dt_with_count,
                            [type(k).__name__ for k in dt_with_count],
                            [type(v).__name__ for v in dt_with_count.values()]]
                run_case(f"grouping/{sname}/{container.__name__}/{mode}", call, watch=[fs.__dict__])

    for dt, fcs in [(0.01, [1, 2, 50]), (0.01, [1, 2, 50.0001]), (0.01, np.array([0.1, 49.99])),
                    (0.02, np.geomspace(0.1, 50, 20)), (0.5, [0.5, 1.0]), (0.5, [1.0 + 1e-12]),
                    (0.01, []), (0, [1.]), (0.01, np.array(3.0)), (None, [1.])]:
        run_case(f"nyquist/{dt}/{np.size(fcs)}", lambda dt=dt, fcs=fcs: processing.check_nyquist_frequency(dt, fcs))


# ---------------------------------------------------------------------------
# 3. traditional processing
# ---------------------------------------------------------------------------

def traditional_settings(method, smoothing, mode, fft_settings, **extra):
    kwargs = dict(window_type_and_width=extra.pop("window_type_and_width", ["tukey", 0.1]),
                  smoothing=smoothing, handle_dissimilar_time_steps_by=mode,
                  fft_settings=fft_settings)
    if method in ("single_azimuth", "directional_energy"):
        s = hvsrpy.HvsrTraditionalSingleAzimuthProcessingSettings(
            azimuth_in_degrees=extra.pop("azimuth_in_degrees", 33.3), **kwargs)
        s.method_to_combine_horizontals = method
    elif method == "rotdpp":
        s = hvsrpy.HvsrTraditionalRotDppProcessingSettings(
            ppth_percentile_for_rotdpp_computation=extra.pop("ppth", 50.),
            azimuths_in_degrees=extra.pop("azimuths_in_degrees", np.arange(0, 180, 45)), **kwargs)
    else:
        s = hvsrpy.HvsrTraditionalProcessingSettings(method_to_combine_horizontals=method, **kwargs)
    assert not extra
    return s


DIRECT = {
    "single_azimuth": processing.traditional_single_azimuth_hvsr_processing,
    "directional_energy": processing.traditional_single_azimuth_hvsr_processing,
    "rotdpp": processing.traditional_rotdpp_hvsr_processing,
}


def section_traditional():
    methods = list(processing.TRADITIONAL_PROCESSING_REGISTER.keys())
    modes = ["frequency_domain_resampling", "keeping_smallest_time_step", "keeping_majority_time_step"]

    # every method, every way to handle time steps, mixed time steps, through process().
    for method in methods:
        for mode in modes:
            recs = make_records(MIXED)
            s = traditional_settings(method, SMOOTHINGS["ko"], mode, None)
            processing_case(f"trad/process/{method}/{mode}", hvsrpy.process, recs, s)

    # direct calls of the routines (the settings of the caller are modified).
    for method in methods:
        for fft_idx, fft_settings in enumerate([None, {"n": None}, {"n": 2**16}, {"n": 100}, {}]):
            recs = make_records(TIE)
            s = traditional_settings(method, SMOOTHINGS["parzen"], "frequency_domain_resampling",
                                     copy.deepcopy(fft_settings))
            func = DIRECT.get(method, processing.traditional_hvsr_processing)
            processing_case(f"trad/direct/{method}/fft{fft_idx}", func, recs, s)
            # second call with the settings object modified by the first call.
            processing_case(f"trad/direct_again/{method}/fft{fft_idx}", func, recs, s)
            processing_case(f"trad/base/{method}/fft{fft_idx}",
                            processing.traditional_hvsr_processing_base, recs, s)

    # smoothing operators, window widths, unequal lengths, tuples of records.
    for sm_name, smoothing in SMOOTHINGS.items():
        for method in ["geometric_mean", "single_azimuth", "rotdpp", "maximum_horizontal_value"]:
            recs = make_records(UNEQUAL_LENGTH)
            s = traditional_settings(method, smoothing, "frequency_domain_resampling", None,
                                     window_type_and_width=["tukey", 0.35])
            processing_case(f"trad/smoothing/{sm_name}/{method}", hvsrpy.process, recs, s)
    for width in [0., 0.2, 1.]:
        for method in ["squared_average", "single_azimuth", "rotdpp"]:
            recs = tuple(make_records(UNIFORM))
            s = traditional_settings(method, SMOOTHINGS["ko_float"], "keeping_majority_time_step", None,
                                     window_type_and_width=("tukey", width))
            processing_case(f"trad/width/{width}/{method}", hvsrpy.process, recs, s)

    # long records (fft length above the minimum) and a single record.
    for method in ["geometric_mean", "single_azimuth", "rotdpp"]:
        recs = make_records(LONG)
        s = traditional_settings(method, SMOOTHINGS["ko"], "frequency_domain_resampling", None)
        processing_case(f"trad/long/{method}", hvsrpy.process, recs, s)
        recs = make_records(UNIFORM[:1])
        s = traditional_settings(method, SMOOTHINGS["ko"], "frequency_domain_resampling", {"n": 4096})
        processing_case(f"trad/one/{method}", hvsrpy.process, recs, s)

    # azimuths and percentiles.
    for az in [0, 90, 180., 45.5, -30, 400, np.float64(12.25)]:
        recs = make_records(MIXED[:4])
        s = traditional_settings("single_azimuth", SMOOTHINGS["ko"], "frequency_domain_resampling", None,
                                 azimuth_in_degrees=az)
        processing_case(f"trad/azimuth/{az}", hvsrpy.process, recs, s)
    for ppth in [0, 37.5, 50, 100]:
        for azimuths in [np.arange(0, 180, 60), [10.5], [0, 90], np.array([170., 20., 95.])]:
            recs = make_records(MIXED[:4])
            s = traditional_settings("rotdpp", SMOOTHINGS["ko"], "frequency_domain_resampling", None,
                                     ppth=ppth, azimuths_in_degrees=azimuths)
            processing_case(f"trad/rotdpp/{ppth}/{len(azimuths)}", hvsrpy.process, recs, s)

    # the same settings object used for several sets of records (call sequences).
    s = traditional_settings("geometric_mean", SMOOTHINGS["ko"], "frequency_domain_resampling", None)
    for label, spec in [("long", LONG), ("uniform", UNIFORM), ("mixed", MIXED)]:
        processing_case(f"trad/sequence_process/{label}", hvsrpy.process, make_records(spec), s)
    for label, spec in [("long", LONG), ("uniform", UNIFORM), ("mixed", MIXED)]:
        processing_case(f"trad/sequence_direct/{label}", processing.traditional_hvsr_processing,
                        make_records(spec), s)


# ---------------------------------------------------------------------------
# 4. damaged and illegal inputs
# ---------------------------------------------------------------------------

def section_damaged():
    methods = ["geometric_mean", "arithmetic_mean", "single_azimuth", "rotdpp"]
    for kind in ["zeros", "nan", "inf", "spike"]:
        for method in methods:
            recs = make_records(UNIFORM)
            recs[1] = make_record(99, 3001, 0.01, kind=kind)
            s = traditional_settings(method, SMOOTHINGS["ko"], "frequency_domain_resampling", None)
            processing_case(f"damaged/{kind}/{method}", hvsrpy.process, recs, s)
            func = DIRECT.get(method, processing.traditional_hvsr_processing)
            recs = make_records(MIXED[:3])
            recs[2] = make_record(98, 3001, 0.01, kind=kind)
            processing_case(f"damaged_direct/{kind}/{method}", func, recs, s)

    for method in methods:
        func = DIRECT.get(method, processing.traditional_hvsr_processing)
        mk = lambda **kw: traditional_settings(method, SMOOTHINGS["ko"], "frequency_domain_resampling", None, **kw)  # noqa
        # empty list of records, every way to handle time steps.
        for mode in ["frequency_domain_resampling", "keeping_smallest_time_step",
                     "keeping_majority_time_step", "bogus"]:
            s = mk()
            s.handle_dissimilar_time_steps_by = mode
            processing_case(f"illegal/empty/{method}/{mode}", func, [], s)
            processing_case(f"illegal/mode/{method}/{mode}", func, make_records(TIE), s)
        # unknown window.
        s = mk(window_type_and_width=["hann", 0.1])
        processing_case(f"illegal/window/{method}", func, make_records(UNIFORM), s)
        s = mk(window_type_and_width=["tukey", 0.1, 3])
        processing_case(f"illegal/window3/{method}", func, make_records(UNIFORM), s)
        # above nyquist.
        s = mk()
        s.smoothing["center_frequencies_in_hz"] = np.geomspace(0.5, 30, 10)
        processing_case(f"illegal/nyquist/{method}", func, make_records(MIXED), s)
        # unknown smoothing operator / missing entries.
        s = mk()
        s.smoothing["operator"] = "bogus"
        processing_case(f"illegal/operator/{method}", func, make_records(UNIFORM), s)
        s = mk()
        del s.smoothing["bandwidth"]
        processing_case(f"illegal/bandwidth/{method}", func, make_records(UNIFORM), s)
        # bad fft settings.
        for fft_idx, fft_settings in enumerate([{"n": 0, "bogus": 1}, {"bogus": 1}, {"n": "x"}]):
            s = mk()
            s.fft_settings = fft_settings
            processing_case(f"illegal/fft/{method}/{fft_idx}", func, make_records(UNIFORM), s)
        # scalar center frequency.
        s = mk()
        s.smoothing["center_frequencies_in_hz"] = 2.0
        processing_case(f"illegal/scalar_fc/{method}", func, make_records(UNIFORM), s)
        # single record rather than list.
        processing_case(f"illegal/single/{method}", func, make_record(1), mk())

    # unknown method names.
    for name in ["bogus", "single_azimuth", "rotdpp", None]:
        s = traditional_settings("geometric_mean", SMOOTHINGS["ko"], "frequency_domain_resampling", None)
        s.method_to_combine_horizontals = name
        processing_case(f"illegal/method/direct/{name}", processing.traditional_hvsr_processing,
                        make_records(UNIFORM), s)
        processing_case(f"illegal/method/process/{name}", hvsrpy.process, make_records(UNIFORM), s)
        s.window_type_and_width = ["hann", 0.1]
        processing_case(f"illegal/method_and_window/direct/{name}", processing.traditional_hvsr_processing,
                        make_records(UNIFORM), s)
    s = traditional_settings("geometric_mean", SMOOTHINGS["ko"], "frequency_domain_resampling", None)
    s.processing_method = "bogus"
    processing_case("illegal/processing_method", hvsrpy.process, make_records(UNIFORM), s)

    # warnings under the default filters (number and order) for a sequence of calls.
    def default_filter_sequence():
        out = []
        with warnings.catch_warnings(record=True) as caught:
            warnings.resetwarnings()
            warnings.simplefilter("default")
            for repeat in range(2):
                for method in methods + ["azimuthal", "diffuse", "psd"]:
                    recs = make_records(MIXED if method not in ("diffuse",) else UNIFORM)
                    recs[0] = make_record(97, 3001, 0.01, kind="zeros")
                    if method == "azimuthal":
                        s = hvsrpy.HvsrAzimuthalProcessingSettings(smoothing=SMOOTHINGS["ko"],
                                                                   azimuths_in_degrees=[0, 60, 120])
                    elif method == "diffuse":
                        s = hvsrpy.HvsrDiffuseFieldProcessingSettings(smoothing=SMOOTHINGS["ko"])
                    elif method == "psd":
                        s = hvsrpy.PsdProcessingSettings(smoothing=SMOOTHINGS["ko"])
                    else:
                        s = traditional_settings(method, SMOOTHINGS["ko"], "keeping_majority_time_step", None)
                    try:
                        out.append(describe(hvsrpy.process(recs, s)))
                    except Exception as e:  # noqa
                        out.append(type(e).__name__)
                    out.append(len(caught))
        out.append([(w.category.__name__, str(w.message)) for w in caught])
        return out
    run_case("damaged/default_filters", default_filter_sequence)

    # records whose components were changed by the user to different lengths.
    recs = make_records(UNIFORM)
    recs[0].ew = hvsrpy.TimeSeries(np.ones(100), 0.01)
    for method in methods:
        s = traditional_settings(method, SMOOTHINGS["ko"], "frequency_domain_resampling", None)
        processing_case(f"illegal/lengths/{method}", hvsrpy.process, recs, s)


# ---------------------------------------------------------------------------
# 5. azimuthal, diffuse field and psd
# ---------------------------------------------------------------------------

def section_azimuthal():
    for fft_idx, fft_settings in enumerate([None, {"n": None}, {"n": 2**16}, {}]):
        for azimuths in [np.arange(0, 180, 60), [15.5], [0, 90.], []]:
            for mode in ["frequency_domain_resampling", "keeping_majority_time_step"]:
                for route, func in [("process", hvsrpy.process), ("direct", processing.azimuthal_hvsr_processing)]:
                    recs = make_records(MIXED[:4])
                    s = hvsrpy.HvsrAzimuthalProcessingSettings(
                        smoothing=SMOOTHINGS["ko"], fft_settings=copy.deepcopy(fft_settings),
                        handle_dissimilar_time_steps_by=mode, azimuths_in_degrees=azimuths)
                    processing_case(f"azimuthal/{route}/fft{fft_idx}/{len(azimuths)}/{mode}", func, recs, s)
    for kind in ["zeros", "nan"]:
        recs = make_records(UNIFORM)
        recs[2] = make_record(77, 3001, 0.01, kind=kind)
        s = hvsrpy.HvsrAzimuthalProcessingSettings(smoothing=SMOOTHINGS["parzen"], azimuths_in_degrees=[0, 45])
        processing_case(f"azimuthal/damaged/{kind}", hvsrpy.process, recs, s)
    s = hvsrpy.HvsrAzimuthalProcessingSettings(smoothing=SMOOTHINGS["ko"], azimuths_in_degrees=[0, 45],
                                               window_type_and_width=["boxcar", 0.1])
    processing_case("azimuthal/window", hvsrpy.process, make_records(UNIFORM), s)
    processing_case("azimuthal/empty", hvsrpy.process, [], s)


def section_psd_and_diffuse():
    specs = {"uniform": UNIFORM, "unequal": UNEQUAL_LENGTH, "mixed": MIXED, "tie": TIE, "long": LONG,
             "one": UNIFORM[:1], "empty": []}
    fft_options = [None, {"n": None}, {"n": 40001}, {"n": 2**16}, {"n": 101}, {}]
    for sname, spec in specs.items():
        for fft_idx, fft_settings in enumerate(fft_options):
            for sm_name in [None, "ko", "parzen"]:
                for route, func in [("process", hvsrpy.process), ("direct", processing.rpsd),
                                    ("toplevel", hvsrpy.rpsd)]:
                    recs = make_records(spec)
                    s = hvsrpy.PsdProcessingSettings(smoothing=SMOOTHINGS["ko"],
                                                     fft_settings=copy.deepcopy(fft_settings),
                                                     window_type_and_width=["tukey", 0.2])
                    s.smoothing = None if sm_name is None else copy.deepcopy(SMOOTHINGS[sm_name])
                    processing_case(f"psd/{sname}/fft{fft_idx}/{sm_name}/{route}", func, recs, s)
                    if route == "direct":
                        processing_case(f"psd_again/{sname}/fft{fft_idx}/{sm_name}", func, recs, s)

            for mode in ["frequency_domain_resampling", "keeping_smallest_time_step",
                         "keeping_majority_time_step", "bogus"]:
                for route, func in [("process", hvsrpy.process),
                                    ("direct", processing.diffuse_field_hvsr_processing)]:
                    if fft_idx > 2 and route == "process":
                        continue
                    recs = make_records(spec)
                    s = hvsrpy.HvsrDiffuseFieldProcessingSettings(
                        smoothing=SMOOTHINGS["ko_float"], fft_settings=copy.deepcopy(fft_settings),
                        handle_dissimilar_time_steps_by=mode)
                    processing_case(f"diffuse/{sname}/fft{fft_idx}/{mode}/{route}", func, recs, s)

    for kind in ["zeros", "nan", "inf", "spike"]:
        recs = make_records(UNIFORM)
        recs[0] = make_record(55, 3001, 0.01, kind=kind)
        s = hvsrpy.PsdProcessingSettings(smoothing=SMOOTHINGS["ko"])
        processing_case(f"psd/damaged/{kind}", hvsrpy.process, recs, s)
        s = hvsrpy.HvsrDiffuseFieldProcessingSettings(smoothing=SMOOTHINGS["ko"])
        processing_case(f"diffuse/damaged/{kind}", hvsrpy.process, recs, s)
        recs = [make_record(55, 3001, 0.01, kind=kind)]
        processing_case(f"diffuse/damaged_only/{kind}", hvsrpy.process, recs, s)

    for name, change in [("window", lambda s: setattr(s, "window_type_and_width", ["hann", 0.1])),
                         ("operator", lambda s: s.smoothing.__setitem__("operator", "bogus")),
                         ("nyquist", lambda s: s.smoothing.__setitem__("center_frequencies_in_hz", [1., 70.])),
                         ("fft", lambda s: setattr(s, "fft_settings", {"bogus": 2})),
                         ("width1", lambda s: setattr(s, "window_type_and_width", ["tukey", 1.0])),
                         ("width0", lambda s: setattr(s, "window_type_and_width", ["tukey", 0.0]))]:
        for cls in (hvsrpy.PsdProcessingSettings, hvsrpy.HvsrDiffuseFieldProcessingSettings):
            s = cls(smoothing=SMOOTHINGS["ko"])
            change(s)
            processing_case(f"illegal/{cls.__name__}/{name}", hvsrpy.process, make_records(UNIFORM), s)
            processing_case(f"illegal/{cls.__name__}/{name}/single", hvsrpy.process, make_record(3), s)

    # the private single component routine is used by other modules / users.
    for fft_settings in [{"n": 4096}, {"n": 4097}, {}]:
        ts = [r.vt for r in make_records(UNEQUAL_LENGTH)]
        fs = FakeSettings(fft_settings=fft_settings, window_type_and_width=["tukey", 0.1])
        run_case(f"rpds_single/{fft_settings}", lambda ts=ts, fs=fs: processing._rpds_single_component(ts, fs),
                 watch=[ts, fs.__dict__])


# ---------------------------------------------------------------------------
# 6. preprocessing
# ---------------------------------------------------------------------------

def preprocessing_case(name, records, settings):
    user_fft = getattr(settings, "fft_settings", None)

    def call():
        out = hvsrpy.preprocess(records, settings)
        alias = None
        if isinstance(records, list):
            alias = [[i for i, r in enumerate(records) if r is w] for w in out]
        elif isinstance(records, hvsrpy.SeismicRecording3C):
            alias = [w is records for w in out]
        return [type(out).__name__, out, alias]
    run_case(name, call, watch=[records, settings,
                                getattr(settings, "fft_settings", None) is user_fft])


def section_preprocessing():
    itf = InstrumentTransferFunction(poles=[-4.44+4.44j, -4.44-4.44j], zeros=[0j, 0j],
                                     instrument_sensitivity=400., normalization_factor=1.)
    hv_variants = {
        "default": dict(window_length_in_seconds=10.),
        "nowindow": dict(window_length_in_seconds=None),
        "none_detrend": dict(window_length_in_seconds=7.5, detrend="none"),
        "None_detrend": dict(window_length_in_seconds=7.5, detrend=None),
        "constant": dict(window_length_in_seconds=5, detrend="constant"),
        "filter": dict(window_length_in_seconds=10., filter_corner_frequencies_in_hz=[0.5, 20.]),
        "highpass": dict(window_length_in_seconds=10., filter_corner_frequencies_in_hz=[0.5, None]),
        "lowpass": dict(window_length_in_seconds=None, filter_corner_frequencies_in_hz=(None, 5.)),
        "orient": dict(window_length_in_seconds=10., orient_to_degrees_from_north=35.),
        "no_orient": dict(window_length_in_seconds=10., orient_to_degrees_from_north=None),
        "ignore": dict(window_length_in_seconds=5., ignore_dissimilar_time_step_warning=True),
        "too_long": dict(window_length_in_seconds=100.),
        "bad_detrend": dict(window_length_in_seconds=10., detrend="cubic"),
        "bad_filter": dict(window_length_in_seconds=10., filter_corner_frequencies_in_hz=[30., 80.]),
    }
    record_sets = {
        "uniform": lambda: make_records(UNIFORM),
        "mixed": lambda: make_records(MIXED),
        "single": lambda: make_record(4, 3001, 0.01, degrees_from_north=20.),
        "tuple": lambda: tuple(make_records(TIE)),
        "rotated": lambda: [make_record(5, 3001, 0.01, degrees_from_north=10.),
                            make_record(6, 3001, 0.010001, degrees_from_north=350.)],
        "empty": lambda: [],
        "nan": lambda: [make_record(5, 3001, 0.01, kind="nan")],
    }
    for vname, kwargs in hv_variants.items():
        for rname, maker in record_sets.items():
            s = hvsrpy.HvsrPreProcessingSettings(**kwargs)
            preprocessing_case(f"pre/hvsr/{vname}/{rname}", maker(), s)
            if vname in ("default", "orient"):
                # the hvsr preprocessing is also legal with psd style settings and vice versa.
                recs = maker()
                preprocessing_case(f"pre/hvsr_direct/{vname}/{rname}", recs, s)
                run_case(f"pre/hvsr_func/{vname}/{rname}",
                         lambda recs=recs, s=s: preprocessing.hvsr_preprocess(recs, s), watch=[recs, s])
                # repeated call on the same (already modified) records.
                preprocessing_case(f"pre/hvsr_again/{vname}/{rname}", recs, s)

    psd_variants = {
        "default": dict(window_length_in_seconds=10.),
        "nowindow": dict(window_length_in_seconds=None, detrend="constant"),
        "diff": dict(window_length_in_seconds=10., differentiate=True),
        "itf": dict(window_length_in_seconds=10., instrument_transfer_function=itf,
                    filter_corner_frequencies_in_hz=[0.2, 30.]),
        "itf_diff": dict(window_length_in_seconds=6., instrument_transfer_function=itf, differentiate=True,
                         window_type_and_width=["tukey", 0.3], detrend="none"),
        "itf_badwin": dict(window_length_in_seconds=6., instrument_transfer_function=itf,
                           window_type_and_width=["hann", 0.3]),
        "fft_user": dict(window_length_in_seconds=10., differentiate=True, fft_settings={"n": 2**16}),
        "fft_none": dict(window_length_in_seconds=10., differentiate=True, fft_settings={"n": None}),
        "fft_small": dict(window_length_in_seconds=10., instrument_transfer_function=itf, fft_settings={"n": 100}),
        "orient": dict(window_length_in_seconds=10., orient_to_degrees_from_north=None, differentiate=True),
        "ignore": dict(window_length_in_seconds=5., ignore_dissimilar_time_step_warning=True),
        "too_long": dict(window_length_in_seconds=100., differentiate=True),
    }
    for vname, kwargs in psd_variants.items():
        for rname, maker in record_sets.items():
            s = hvsrpy.PsdPreProcessingSettings(**copy.deepcopy(kwargs))
            recs = maker()
            preprocessing_case(f"pre/psd/{vname}/{rname}", recs, s)
            if vname in ("default", "diff", "fft_none"):
                # repeated call with the settings modified by the first call.
                preprocessing_case(f"pre/psd_again/{vname}/{rname}", recs, s)
                recs = maker()
                run_case(f"pre/psd_func/{vname}/{rname}",
                         lambda recs=recs, s=s: preprocessing.psd_preprocess(recs, s), watch=[recs, s])

    s = hvsrpy.HvsrPreProcessingSettings()
    s.preprocessing_method = "bogus"
    preprocessing_case("pre/bogus", make_records(UNIFORM), s)

    # warnings raised under the default filters (order and number), hvsr followed by psd.
    def default_filter_sequence():
        recs = make_records(MIXED)
        with warnings.catch_warnings(record=True) as caught:
            warnings.resetwarnings()
            warnings.simplefilter("default")
            a = hvsrpy.preprocess(recs, hvsrpy.HvsrPreProcessingSettings(window_length_in_seconds=5.))
            b = hvsrpy.preprocess(recs, hvsrpy.PsdPreProcessingSettings(window_length_in_seconds=5.))
            c = hvsrpy.preprocess(recs, hvsrpy.HvsrPreProcessingSettings(window_length_in_seconds=5.))
        return [len(a), len(b), len(c), [(w.category.__name__, str(w.message)) for w in caught]]
    run_case("pre/default_filters", default_filter_sequence)


# ---------------------------------------------------------------------------
# 7. full workflows (preprocess -> process -> statistics -> file)
# ---------------------------------------------------------------------------

def section_workflows():
    def workflow(spec, pre, pro):
        recs = make_records(spec)
        windows = hvsrpy.preprocess(recs, pre)
        result = hvsrpy.process(windows, pro)
        out = [result, file_digest(result)]
        if isinstance(result, hvsrpy.HvsrTraditional):
            out.append([result.mean_curve(), result.std_curve(), result.mean_fn_frequency()])
        elif isinstance(result, hvsrpy.HvsrAzimuthal):
            out.append([result.mean_curve(), result.mean_fn_frequency()])
        return out

    pre = hvsrpy.HvsrPreProcessingSettings(window_length_in_seconds=7., filter_corner_frequencies_in_hz=[0.2, 20])
    pros = {
        "geo": hvsrpy.HvsrTraditionalProcessingSettings(smoothing=SMOOTHINGS["ko"]),
        "sa": hvsrpy.HvsrTraditionalSingleAzimuthProcessingSettings(smoothing=SMOOTHINGS["ko"]),
        "rotd": hvsrpy.HvsrTraditionalRotDppProcessingSettings(smoothing=SMOOTHINGS["ko"],
                                                               azimuths_in_degrees=np.arange(0, 180, 30)),
        "az": hvsrpy.HvsrAzimuthalProcessingSettings(smoothing=SMOOTHINGS["ko"],
                                                     azimuths_in_degrees=np.arange(0, 180, 45)),
        "dfa": hvsrpy.HvsrDiffuseFieldProcessingSettings(smoothing=SMOOTHINGS["ko"],
                                                         handle_dissimilar_time_steps_by="keeping_majority_time_step"),
    }
    for pname, pro in pros.items():
        for sname, spec in [("uniform", UNIFORM), ("mixed", MIXED), ("long", LONG)]:
            run_case(f"workflow/{pname}/{sname}", lambda spec=spec, pro=pro: workflow(spec, pre, pro),
                     watch=[pre, pro])

    psd_pre = hvsrpy.PsdPreProcessingSettings(window_length_in_seconds=8., differentiate=True)
    psd_pro = hvsrpy.PsdProcessingSettings(smoothing=SMOOTHINGS["ko"])
    for sname, spec in [("uniform", UNIFORM), ("long", LONG), ("unequal", UNEQUAL_LENGTH)]:
        def psd_workflow(spec=spec):
            recs = make_records(spec)
            windows = hvsrpy.preprocess(recs, psd_pre)
            return hvsrpy.process(windows, psd_pro)
        run_case(f"workflow/psd/{sname}", psd_workflow, watch=[psd_pre, psd_pro])

    # module level registers.
    record_case("registers", describe([
        list(processing.COMBINE_HORIZONTAL_REGISTER.keys()),
        [f.__name__ for f in processing.COMBINE_HORIZONTAL_REGISTER.values()],
        list(processing.TRADITIONAL_PROCESSING_REGISTER.keys()),
        [f.__name__ for f in processing.TRADITIONAL_PROCESSING_REGISTER.values()],
        list(processing.PROCESSING_METHODS.keys()),
        [f.__name__ for f in processing.PROCESSING_METHODS.values()],
        list(preprocessing.PREPROCESSING_METHODS.keys()),
        [f.__name__ for f in preprocessing.PREPROCESSING_METHODS.values()],
    ]))


# ---------------------------------------------------------------------------
# 8. behaviour of the two upstream fixes (added for the rebase onto main)
# ---------------------------------------------------------------------------

FACTS = []


def section_upstream_fixes():
    long_specs = {"long": LONG, "long_mixed": LONG + [(9, 50001, 0.01)], "very_long": [(10, 70001, 0.005)]}
    # (b) azimuthal processing: fft length recorded in the meta of the result.
    for sname, spec in long_specs.items():
        for fft_idx, fft_settings in enumerate([None, {"n": None}, {}, {"n": 2**17}, {"n": 1024}]):
            for route, func in [("process", hvsrpy.process), ("direct", processing.azimuthal_hvsr_processing)]:
                for mode in ["frequency_domain_resampling", "keeping_smallest_time_step"]:
                    recs = make_records(spec)
                    s = hvsrpy.HvsrAzimuthalProcessingSettings(
                        smoothing=SMOOTHINGS["ko"], fft_settings=copy.deepcopy(fft_settings),
                        handle_dissimilar_time_steps_by=mode, azimuths_in_degrees=[0., 45., 120.])
                    name = f"fix/azimuthal/{sname}/fft{fft_idx}/{route}/{mode}"
                    first = processing_case(name, func, recs, s)
                    # same settings object once more (settings as left by the first call).
                    second = processing_case(name + "/again", func, recs, s)
                    ns = []
                    for outcome in (first, second):
                        if isinstance(outcome, list):
                            meta = outcome[0].meta
                            ns.append([meta["fft_settings"]["n"],
                                       [h.meta["fft_settings"]["n"] if "fft_settings" in h.meta else "absent"
                                        for h in outcome[0].hvsrs]])
                        else:
                            ns.append(type(outcome).__name__)
                    fact = f"{name}: meta n = {ns!r}; settings.fft_settings afterwards = {s.fft_settings!r}"
                    FACTS.append(fact)
                    record_case(name + "/fact", fact)

    # (a) psd preprocessing: one settings object, long record and then short record (and reversed).
    def lengths(out):
        if isinstance(out, BaseException):
            return type(out).__name__
        return [w.vt.n_samples for w in out]

    sequences = {"long_short": [[(7, 40001, 0.005)], [(1, 3001, 0.005)]],
                 "short_long": [[(1, 3001, 0.005)], [(7, 40001, 0.005)]],
                 "long_short_long": [[(7, 40001, 0.005)], [(1, 3001, 0.005)], [(8, 70001, 0.005)]],
                 "lists": [LONG, UNIFORM, LONG]}
    for qname, sequence in sequences.items():
        for fft_idx, fft_settings in enumerate([None, {"n": None}, {}, {"n": 2**16}]):
            for window in [10., None]:
                for route, func in [("preprocess", hvsrpy.preprocess), ("direct", preprocessing.psd_preprocess)]:
                    kwargs = dict(window_length_in_seconds=window, differentiate=True)
                    if fft_settings is not None:
                        kwargs["fft_settings"] = copy.deepcopy(fft_settings)
                    s = hvsrpy.PsdPreProcessingSettings(**kwargs)
                    user_fft = s.fft_settings
                    name = f"fix/psd/{qname}/fft{fft_idx}/{window}/{route}"
                    seen = []
                    for idx, spec in enumerate(sequence):
                        recs = make_records(spec)
                        out = run_case(f"{name}/{idx}", lambda: func(recs, s),
                                       watch=[recs, s, s.fft_settings is user_fft])
                        seen.append([lengths(out), copy.deepcopy(s.fft_settings)])
                    fact = f"{name}: (window lengths, settings.fft_settings after call) = {seen!r}"
                    FACTS.append(fact)
                    record_case(name + "/fact", fact)


def main():
    section_fft_length()
    section_grouping()
    section_traditional()
    section_damaged()
    section_azimuthal()
    section_psd_and_diffuse()
    section_preprocessing()
    section_workflows()
    print(f"cases (original sections): {N_CASES}")
    print(f"digest (original sections): {MASTER.hexdigest()}")
    section_upstream_fixes()
    if "--facts" in sys.argv:
        print("\n".join(FACTS))
    shutil.rmtree(TMPDIR, ignore_errors=True)
    print(f"cases: {N_CASES}")
    print(f"digest: {MASTER.hexdigest()}")


if __name__ == "__main__":
    main()
