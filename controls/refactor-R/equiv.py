"""Equivalence digest for the settings classes and settings file io of hvsrpy.

Run as

    cd /tmp/r12/ctlR && PYTHONPATH=<tree> MPLBACKEND=Agg /venv/bin/python _control/equiv.py

and compare the single ``DIGEST <sha256>`` line between trees. Everything
observable is folded into the digest: returned values (with their types),
instance state (``vars``, in order), file bytes (also of partially written
files), printed text, exception types and messages, identity / memory sharing
between stored values and arguments, the sequence of calls made through the
module level seams (``deepcopy``, ``json``, ``open``) and the results of a small
processing pipeline driven by the settings objects.
"""

import collections
import contextlib
import copy
import hashlib
import io
import json
import os
import pickle
import random
import shutil
import sys
import tempfile
import warnings

warnings.simplefilter("ignore")

import numpy as np

import hvsrpy
import hvsrpy.settings as S
import hvsrpy.object_io as O

VERBOSE = "-v" in sys.argv
_H = hashlib.sha256()
_N = [0]


def rec(tag, value):
    line = f"{tag}|{value}\n"
    _N[0] += 1
    if VERBOSE:
        sys.stderr.write(f"{_N[0]:06d} {line}")
    _H.update(line.encode("utf-8", "backslashreplace"))


# ----------------------------------------------------------------------
# canonical description of values
# ----------------------------------------------------------------------

class Tracked:
    """Container-like value that logs how it is copied and compared."""
    log = []

    def __init__(self, label, payload=None, fail_copies=0):
        self.label = label
        self.payload = [] if payload is None else payload
        self.fail_copies = fail_copies

    def __deepcopy__(self, memo):
        Tracked.log.append(("deepcopy", self.label))
        if self.fail_copies > 0:
            self.fail_copies -= 1
            raise RuntimeError(f"copy of {self.label} interrupted")
        return Tracked(self.label + "'", copy.deepcopy(self.payload, memo))

    def __eq__(self, other):
        return isinstance(other, Tracked) and self.label == other.label and self.payload == other.payload

    __hash__ = None

    def __repr__(self):
        return f"Tracked({self.label}, {self.payload})"


class HasTolist:
    def __init__(self, items):
        self.items = items

    def tolist(self):
        return self.items

    def __repr__(self):
        return f"HasTolist({self.items})"


class BadTolist:
    def __init__(self, kind):
        self.kind = kind

    def tolist(self):
        raise self.kind("tolist is not available")

    def __repr__(self):
        return f"BadTolist({self.kind.__name__})"


class LoudStr:
    """Object whose string conversion is counted."""
    count = 0

    def __init__(self, text):
        self.text = text

    def __str__(self):
        LoudStr.count += 1
        return self.text

    __repr__ = __str__


def obs(v, depth=0):
    if depth > 8:
        return "<deep>"
    if isinstance(v, np.ndarray):
        return f"nd[{v.dtype.str},{v.shape},{v.tobytes().hex() if v.dtype != object else [obs(x, depth+1) for x in v.ravel().tolist()]}]"
    if isinstance(v, np.generic):
        return f"np[{type(v).__name__},{v.tobytes().hex()}]"
    if isinstance(v, bool):
        return f"bool[{v}]"
    if isinstance(v, int):
        return f"int[{v}]"
    if isinstance(v, float):
        return f"float[{v.hex()}]"
    if isinstance(v, str):
        return f"{type(v).__name__}[{v!r}]"
    if v is None:
        return "None"
    if isinstance(v, (list, tuple)):
        return f"{type(v).__name__}({','.join(obs(x, depth+1) for x in v)})"
    if isinstance(v, dict):
        return f"{type(v).__name__}{{{','.join(obs(k, depth+1) + ':' + obs(x, depth+1) for k, x in v.items())}}}"
    if isinstance(v, (set, frozenset)):
        return f"{type(v).__name__}({sorted(map(repr, v))})"
    if isinstance(v, S.Settings):
        return f"settings[{type(v).__name__},{state(v, depth+1)}]"
    return f"obj[{type(v).__name__},{v!r}]"


def state(o, depth=0):
    return "{" + ",".join(f"{k}={obs(v, depth+1)}" for k, v in vars(o).items()) + "}"


def exc(e):
    extra = ""
    if isinstance(e, AttributeError):
        name = getattr(e, "name", "-")
        o = getattr(e, "obj", "-")
        if isinstance(o, type):
            o = "type " + o.__name__
        elif o is not None and not isinstance(o, str):
            o = "instance " + type(o).__name__
        extra = f";name={name};obj={o}"
    return (f"{type(e).__module__}.{type(e).__name__}:{e};args={len(e.args)}"
            f";ctx={type(e.__context__).__name__};cause={type(e.__cause__).__name__}{extra}")


def attempt(tag, fn, *args, **kwargs):
    """Call, record result or exception, return (ok, result)."""
    try:
        result = fn(*args, **kwargs)
    except BaseException as e:  # KeyboardInterrupt stand-ins included.
        rec(tag + ".raised", exc(e))
        return False, None
    rec(tag + ".returned", obs(result))
    return True, result


def file_bytes(fname):
    if not os.path.exists(fname):
        return "<absent>"
    with open(fname, "rb") as f:
        return f.read().hex()


def captured(fn, *args, **kwargs):
    buf = io.StringIO()
    with contextlib.redirect_stdout(buf):
        try:
            fn(*args, **kwargs)
            tail = "ok"
        except BaseException as e:
            tail = exc(e)
    return buf.getvalue() + "<<" + tail


# ----------------------------------------------------------------------
# classes and their parameters
# ----------------------------------------------------------------------

PUBLIC = list(S.__all__)
BASES = ["Settings", "PreProcessingSettings", "HvsrProcessingSettings",
         "HvsrTraditionalProcessingSettingsBase"]
ALL = BASES + PUBLIC

# positional order as published in the signatures (checked separately).
import inspect
PARAMS = {name: [p for p in inspect.signature(getattr(S, name).__init__).parameters][1:]
          for name in ALL}


def rand_scalar(rng):
    return rng.choice([
        None, True, False, 0, 1, -3, 7, 0.0, -0.0, 0.1, 1.5, 20., 1e-300, float("inf"),
        float("-inf"), float("nan"), "linear", "constant", "none", "", "tukey", "psd",
        np.float64(0.25), np.float32(0.1), np.int64(5), np.int32(-2), np.uint8(200),
        np.bool_(True), np.str_("hvsr"), np.float64("nan"), np.float16(1.5), 10**30,
    ])


def rand_array(rng):
    kind = rng.randrange(8)
    if kind == 0:
        return np.array(rng.uniform(0, 10))
    if kind == 1:
        return np.linspace(0.1, rng.uniform(1, 50), rng.randrange(1, 6))
    if kind == 2:
        return np.arange(0, 180, rng.choice([30, 45, 60]))
    if kind == 3:
        return np.array([[1., 2.], [3., rng.uniform(0, 1)]])
    if kind == 4:
        return np.array([])
    if kind == 5:
        return np.array([1.5, 2.5], dtype=np.float32)
    if kind == 6:
        return np.array([True, False])
    return np.geomspace(0.2, 20, rng.randrange(2, 5))[::-1]


def rand_value(rng, depth=0):
    kind = rng.randrange(22)
    if kind < 5 or depth > 2:
        return rand_scalar(rng)
    if kind < 8:
        return rand_array(rng)
    if kind == 8:
        return [rand_value(rng, depth+1) for _ in range(rng.randrange(0, 4))]
    if kind == 9:
        return tuple(rand_value(rng, depth+1) for _ in range(rng.randrange(0, 4)))
    if kind == 10:
        return {rng.choice(["n", "operator", "bandwidth", "center_frequencies_in_hz", "x"]): rand_value(rng, depth+1)
                for _ in range(rng.randrange(0, 4))}
    if kind == 11:
        return collections.OrderedDict([("b", rand_value(rng, depth+1)), ("a", rand_value(rng, depth+1))])
    if kind == 12:
        return {rng.choice([1, 2.5, None, True]): rand_value(rng, depth+1)}
    if kind == 13:
        return Tracked(f"t{rng.randrange(100)}", [rand_scalar(rng)])
    if kind == 14:
        return HasTolist([rand_scalar(rng), rand_scalar(rng)])
    if kind == 15:
        return BadTolist(rng.choice([ValueError, KeyboardInterrupt, SystemExit, AttributeError]))
    if kind == 16:
        return rng.choice([{1, 2}, complex(1, 2), b"bytes", frozenset(["a"])])
    if kind == 17:
        return [np.float64(rng.uniform(0, 5)), None]
    if kind == 18:
        return (np.float32(0.5), np.int64(10))
    if kind == 19:
        return [rand_array(rng), rand_scalar(rng)]
    if kind == 20:
        return {(1, 2): "tuple key"}
    return [[rand_scalar(rng)], {"k": rand_array(rng)}]


def rand_smoothing(rng):
    kind = rng.randrange(12)
    fcs = rng.choice([np.geomspace(0.5, 20, 6), [0.5, 1, 2], (1., 2.), np.array([3]), 2.,
                      [np.float64(1), np.float32(2)], None])
    base = dict(operator=rng.choice(["konno_and_ohmachi", "parzen", "log_rectangular"]),
                bandwidth=rng.choice([40, 0.5, np.float64(30), np.int32(20)]),
                center_frequencies_in_hz=fcs)
    if kind < 5:
        return base
    if kind == 5:
        return collections.OrderedDict(base)
    if kind == 6:
        return list(base.items())
    if kind == 7:
        return None
    if kind == 8:
        return rng.choice([5, "ab", [1, 2, 3], [("a",)]])
    if kind == 9:
        return {}
    if kind == 10:
        base["extra"] = Tracked("s", [1])
        return base
    return rand_value(rng)


def rand_argument(rng, param):
    if param == "smoothing" and rng.random() < 0.8:
        return rand_smoothing(rng)
    if param == "filter_corner_frequencies_in_hz" and rng.random() < 0.6:
        return rng.choice([[None, None], [0.5, None], (0.1, 30), np.array([1., 10.]),
                           [np.float64(0.2), np.float32(20)], [None, np.int64(5)], None])
    if param == "window_type_and_width" and rng.random() < 0.6:
        return rng.choice([["tukey", 0.2], ("tukey", np.float64(0.1)), ["tukey", np.float32(0.5)],
                           np.array(["tukey", "0.1"]), ["hann", None]])
    if param == "fft_settings" and rng.random() < 0.6:
        return rng.choice([None, dict(n=1024), dict(n=np.int64(2048)), {}, dict(n=None, axis=-1)])
    if param in ("azimuths_in_degrees",) and rng.random() < 0.7:
        return rng.choice([np.arange(0, 180, 30), [0, 45, 90], (10., 20.), range(0, 90, 30), 15.,
                           [np.float64(1), np.int32(2)], [[1, 2], [3, 4]], [], None,
                           [Tracked("az")], [[1], [2, 3]] if False else [1, "a"]])
    if param == "instrument_transfer_function" and rng.random() < 0.5:
        return rng.choice([None, Tracked("itf", [1, 2]), HasTolist([1])])
    return rand_value(rng)


def mutate_in_place(v, depth=0):
    """Change every mutable part of an argument after it was passed."""
    if depth > 4:
        return
    if isinstance(v, np.ndarray):
        if v.size and v.dtype.kind in "fiu" and v.flags.writeable:
            v.flat[0] = v.flat[0] + 1
    elif isinstance(v, list):
        for x in v:
            mutate_in_place(x, depth+1)
        v.append("mutated")
    elif isinstance(v, dict):
        for x in list(v.values()):
            mutate_in_place(x, depth+1)
        v["mutated"] = True
    elif isinstance(v, tuple):
        for x in v:
            mutate_in_place(x, depth+1)
    elif isinstance(v, Tracked):
        v.payload.append("mutated")
    elif isinstance(v, HasTolist):
        v.items.append("mutated")


def sharing(stored, given):
    flags = [stored is given]
    if isinstance(stored, np.ndarray) and isinstance(given, np.ndarray):
        flags.append(bool(np.shares_memory(stored, given)))
    if isinstance(stored, dict) and isinstance(given, dict):
        for k in stored:
            if k in given:
                flags.append(stored[k] is given[k])
                if isinstance(stored[k], np.ndarray) and isinstance(given[k], np.ndarray):
                    flags.append(bool(np.shares_memory(stored[k], given[k])))
    if isinstance(stored, (list, tuple)) and isinstance(given, (list, tuple)):
        for a, b in zip(stored, given):
            if isinstance(a, (list, dict, np.ndarray, Tracked)):
                flags.append(a is b)
    return flags


def look(tag, o, fname=None):
    """Record everything a caller can see of a settings object."""
    rec(tag + ".type", type(o).__name__)
    rec(tag + ".state", state(o))
    attempt(tag + ".attrs", lambda: list(o.attrs))
    ok, ad = attempt(tag + ".attr_dict", lambda: o.attr_dict)
    if ok:
        rec(tag + ".attr_dict.alias", [(k, v is vars(o).get(k, None)) for k, v in ad.items()])
    attempt(tag + ".str", str, o)
    attempt(tag + ".repr", repr, o)
    rec(tag + ".psummary", captured(o.psummary))
    if fname is not None:
        attempt(tag + ".save", o.save, fname)
        rec(tag + ".file", file_bytes(fname))


# ----------------------------------------------------------------------
# 1. defaults
# ----------------------------------------------------------------------

def part_defaults():
    for name in ALL:
        cls = getattr(S, name)
        a = cls()
        look(f"default.{name}", a, f"default_{name}.json")
        rec(f"default.{name}.dir", sorted(n for n in dir(a) if not n.startswith("__")))
        rec(f"default.{name}.keys", list(a.__dict__))
        for proto in range(0, pickle.HIGHEST_PROTOCOL + 1):
            rec(f"default.{name}.pickle{proto}", pickle.dumps(a, protocol=proto).hex())
        b = pickle.loads(pickle.dumps(a))
        rec(f"default.{name}.unpickled", state(b))
        rec(f"default.{name}.eq", [a == b, a != b, b == a, a == cls()])
        attempt(f"default.{name}.hash", hash, a)
        attempt(f"default.{name}.reduce", lambda: obs(a.__reduce_ex__(4)[2]))
        c = copy.copy(a)
        rec(f"default.{name}.copy", [(k, vars(c)[k] is v) for k, v in vars(a).items()])
        d = copy.deepcopy(a)
        rec(f"default.{name}.deepcopy", state(d))
        rec(f"default.{name}.deepcopy.shared", [(k, vars(d)[k] is v) for k, v in vars(a).items()
                                                if isinstance(v, (list, dict, np.ndarray))])
        # no state shared with the defaults or between objects.
        for k, v in vars(a).items():
            mutate_in_place(v)
        rec(f"default.{name}.after_mutation", state(a))
        rec(f"default.{name}.fresh", state(cls()))
        rec(f"default.{name}.eq_mutated", attempt(f"default.{name}.eqm", lambda: a == cls())[1])
        # class level view of the registered names.
        for attr in list(vars(cls()))[:3] + ["attr_dict", "nope"]:
            rec(f"default.{name}.hasattr.{attr}", hasattr(cls, attr))
            if attr != "attr_dict":
                attempt(f"default.{name}.clsget.{attr}", getattr, cls, attr)
        rec(f"default.{name}.isinstance", [isinstance(a, getattr(S, b)) for b in ALL])
        rec(f"default.{name}.mro", [k.__name__ for k in cls.__mro__])


# ----------------------------------------------------------------------
# 2. randomised construction
# ----------------------------------------------------------------------

def part_construction(rng, n_cases):
    for case in range(n_cases):
        name = rng.choice(ALL if rng.random() < 0.25 else PUBLIC)
        cls = getattr(S, name)
        params = PARAMS[name]
        tag = f"construct.{case}.{name}"
        style = rng.randrange(4)
        args, kwargs = [], {}
        if style == 0:    # positional prefix
            n = rng.randrange(0, len(params) + 1)
            args = [rand_argument(rng, p) for p in params[:n]]
        elif style == 1:  # random keywords
            for p in rng.sample(params, rng.randrange(0, len(params) + 1)):
                kwargs[p] = rand_argument(rng, p)
        elif style == 2:  # positional prefix and keywords
            n = rng.randrange(0, len(params))
            args = [rand_argument(rng, p) for p in params[:n]]
            for p in rng.sample(params[n:], rng.randrange(0, len(params) - n + 1)):
                kwargs[p] = rand_argument(rng, p)
        else:             # domain-typical keywords, occasionally wrong
            for p in rng.sample(params, rng.randrange(1, len(params) + 1)):
                kwargs[p] = rand_argument(rng, p)
            if rng.random() < 0.15:
                kwargs[rng.choice(["not_a_setting", "attrs", "azimuth"])] = 1
            if rng.random() < 0.1:
                args = [rand_scalar(rng) for _ in range(len(params) + 1)]
        rec(tag + ".args", obs([args, kwargs]))
        Tracked.log.clear()
        try:
            o = cls(*args, **kwargs)
        except BaseException as e:
            rec(tag + ".raised", exc(e))
            attempt(tag + ".repeat", lambda: state(cls(*args, **kwargs)))
            rec(tag + ".copies", Tracked.log)
            continue
        rec(tag + ".copies", Tracked.log)
        given = dict(zip(params, args))
        given.update(kwargs)
        rec(tag + ".sharing", [(p, sharing(getattr(o, p), v)) for p, v in given.items()])
        look(tag, o, f"c{case}.json")
        before = state(o)
        for v in given.values():
            mutate_in_place(v)
        rec(tag + ".independent", state(o) == before)
        rec(tag + ".after", state(o))
        # a second object from the very same (now mutated) arguments.
        ok2, o2 = attempt(tag + ".second", lambda: state(cls(*args, **kwargs)))
        attempt(tag + ".deepcopy", lambda: state(copy.deepcopy(o)))
        attempt(tag + ".pickle", lambda: state(pickle.loads(pickle.dumps(o))))
        attempt(tag + ".eq_self", lambda: o == o)
        attempt(tag + ".eq_default", lambda: o == cls())
        attempt(tag + ".ne_default", lambda: o != cls())
        attempt(tag + ".eq_copy", lambda: o == copy.deepcopy(o))
        # round trip through files.
        fname = f"c{case}.json"
        if os.path.exists(fname):
            fresh = cls()
            attempt(tag + ".load", fresh.load, fname)
            rec(tag + ".loaded", state(fresh))
            attempt(tag + ".loaded_eq", lambda: fresh == o)
            ok3, back = attempt(tag + ".read", lambda: O.read_settings_object_from_file(fname))
            attempt(tag + ".rewrite", O.write_settings_object_to_file, fresh, f"c{case}_b.json")
            rec(tag + ".rewritten", file_bytes(f"c{case}_b.json"))


def part_signature_errors():
    for name in ALL:
        cls = getattr(S, name)
        attempt(f"sig.{name}.unknown", lambda: cls(unknown=1))
        attempt(f"sig.{name}.twice", lambda: cls("v", hvsrpy_version="w"))
        attempt(f"sig.{name}.many", lambda: cls(*range(20)))
        rec(f"sig.{name}.defaults", obs(list(cls.__init__.__defaults__)))
        rec(f"sig.{name}.signature", str(inspect.signature(cls)))


# ----------------------------------------------------------------------
# 3. interrupted construction and re-initialisation
# ----------------------------------------------------------------------

def part_interruptions(rng):
    for name in PUBLIC:
        cls = getattr(S, name)
        params = PARAMS[name]
        for p in params:
            t = Tracked(f"{name}.{p}", [1, 2], fail_copies=1)
            Tracked.log.clear()
            kwargs = {p: t if p != "smoothing" else dict(operator="konno_and_ohmachi", bandwidth=t,
                                                         center_frequencies_in_hz=[1, 2])}
            attempt(f"interrupt.{name}.{p}.first", lambda: state(cls(**kwargs)))
            attempt(f"interrupt.{name}.{p}.repeat", lambda: state(cls(**kwargs)))
            rec(f"interrupt.{name}.{p}.copies", Tracked.log)
        # re-initialisation of an existing object, also when interrupted.
        o = cls()
        o.extra = [1]
        o.attrs.append("extra")
        attempt(f"reinit.{name}.plain", lambda: o.__init__())
        rec(f"reinit.{name}.plain.state", state(o))
        for p in params:
            o = cls()
            o.attrs.append("hvsrpy_version")
            keep = o.attrs
            t = Tracked("r", fail_copies=1)
            bad = {p: t}
            if "smoothing" in params and rng.random() < 0.5:
                bad["smoothing"] = None
            attempt(f"reinit.{name}.{p}.first", lambda: o.__init__(**bad))
            rec(f"reinit.{name}.{p}.partial", state(o))
            rec(f"reinit.{name}.{p}.attrs_replaced", [keep is o.attrs, list(keep)])
            attempt(f"reinit.{name}.{p}.repeat", lambda: o.__init__(**bad))
            rec(f"reinit.{name}.{p}.final", state(o))


# ----------------------------------------------------------------------
# 4. seams: deepcopy / json / open looked up in hvsrpy.settings at call time
# ----------------------------------------------------------------------

def part_seams(rng):
    calls = []
    real_deepcopy, real_json = S.deepcopy, S.json

    def spy_deepcopy(x, *a, **k):
        calls.append(("deepcopy", obs(x)))
        if len(calls) in spy_deepcopy.fail_at:
            raise MemoryError("deepcopy interrupted")
        return real_deepcopy(x, *a, **k)
    spy_deepcopy.fail_at = ()

    class SpyJson:
        JSONDecodeError = json.JSONDecodeError

        @staticmethod
        def dump(obj, f, **k):
            calls.append(("dump", obs(obj), sorted(k), getattr(k.get("default"), "__name__", None) is not None))
            return real_json.dump(obj, f, **k)

        @staticmethod
        def load(f, **k):
            calls.append(("load", sorted(k)))
            return real_json.load(f, **k)

    def spy_open(fname, mode="r", *a, **k):
        calls.append(("open", fname, mode, a, sorted(k)))
        if spy_open.fail > 0:
            spy_open.fail -= 1
            raise PermissionError(13, "Permission denied", fname)
        return open(fname, mode, *a, **k)
    spy_open.fail = 0

    S.deepcopy, S.json, S.open = spy_deepcopy, SpyJson, spy_open
    O_json = O.json
    O.json = SpyJson
    O.open = spy_open
    try:
        for name in ALL:
            cls = getattr(S, name)
            calls.clear()
            o = cls()
            rec(f"seam.{name}.construct", calls)
            for fail_at in range(1, 6):
                calls.clear()
                spy_deepcopy.fail_at = (fail_at,)
                attempt(f"seam.{name}.fail{fail_at}", lambda: state(cls()))
                spy_deepcopy.fail_at = ()
                attempt(f"seam.{name}.fail{fail_at}.repeat", lambda: state(cls()))
                rec(f"seam.{name}.fail{fail_at}.calls", calls)
            calls.clear()
            fname = f"seam_{name}.json"
            with open(fname, "w") as f:
                f.write("previous content")
            spy_open.fail = 1
            attempt(f"seam.{name}.save.denied", o.save, fname)
            rec(f"seam.{name}.save.denied.file", file_bytes(fname))
            attempt(f"seam.{name}.save", o.save, fname)
            rec(f"seam.{name}.save.file", file_bytes(fname))
            spy_open.fail = 1
            p = cls()
            p.hvsrpy_version = "changed"
            attempt(f"seam.{name}.load.denied", p.load, fname)
            rec(f"seam.{name}.load.denied.state", state(p))
            attempt(f"seam.{name}.load", p.load, fname)
            rec(f"seam.{name}.load.state", state(p))
            if name in PUBLIC:
                spy_open.fail = 1
                attempt(f"seam.{name}.read.denied", lambda: state(O.read_settings_object_from_file(fname)))
                attempt(f"seam.{name}.read", lambda: state(O.read_settings_object_from_file(fname)))
                # second open fails: the file is opened once to select the
                # class and once more by load().
                countdown = [1]

                def open_second_fails(fname, mode="r", *a, **k):
                    calls.append(("open2", fname, mode))
                    if countdown[0] == 0:
                        raise PermissionError(13, "Permission denied", fname)
                    countdown[0] -= 1
                    return open(fname, mode, *a, **k)
                S.open = O.open = open_second_fails
                attempt(f"seam.{name}.read.second_denied", lambda: state(O.read_settings_object_from_file(fname)))
                S.open = O.open = spy_open
            rec(f"seam.{name}.calls", calls)
    finally:
        S.deepcopy, S.json = real_deepcopy, real_json
        O.json = O_json
        del S.open
        del O.open

    # classes are looked up in hvsrpy.object_io when a file is read.
    for name in PUBLIC:
        original = getattr(O, name)

        class Replacement(original):
            pass
        Replacement.__name__ = "Replacement" + name
        original().save("late.json")
        setattr(O, name, Replacement)
        try:
            attempt(f"late.{name}", lambda: type(O.read_settings_object_from_file("late.json")).__name__)
        finally:
            setattr(O, name, original)


# ----------------------------------------------------------------------
# 5. attribute access, random call sequences
# ----------------------------------------------------------------------

def part_sequences(rng, n_sequences):
    for seq in range(n_sequences):
        name = rng.choice(PUBLIC)
        cls = getattr(S, name)
        o = cls()
        other = cls()
        tag = f"seq.{seq}.{name}"
        fname = f"s{seq}.json"
        for step in range(rng.randrange(4, 14)):
            t = f"{tag}.{step}"
            registered = list(vars(cls()))[1:]
            op = rng.randrange(20)
            try:
                fname, other = sequence_step(rng, t, op, o, other, cls, name, registered, fname)
            except BaseException as e:
                rec(t + ".step_raised", exc(e))
            for shadow in ("save", "load", "psummary"):
                if shadow in vars(o):
                    rec(t + ".shadow." + shadow, obs(vars(o).pop(shadow)))
            rec(t + ".state", state(o))
            attempt(t + ".attr_dict", lambda: o.attr_dict)
            attempt(t + ".repr", repr, o)
            attempt(t + ".str", str, o)
            rec(t + ".psummary", captured(o.psummary))


def sequence_step(rng, t, op, o, other, cls, name, registered, fname):
    if op == 0:
        k = rng.choice(registered)
        v = rand_argument(rng, k)
        rec(t + ".set", obs([k, v]))
        setattr(o, k, v)
        rec(t + ".set.is", getattr(o, k) is v)
    elif op == 1:
        k = rng.choice(["extra", "note", "_private", "fft", "Attrs"])
        v = rand_value(rng)
        rec(t + ".set_unregistered", obs([k, v]))
        setattr(o, k, v)
        if rng.random() < 0.5:
            o.attrs.append(k)
    elif op == 2:
        k = rng.choice(registered + ["extra", "nope"])
        attempt(t + f".del.{k}", delattr, o, k)
        attempt(t + f".del_again.{k}", delattr, o, k)
        attempt(t + f".get_deleted.{k}", getattr, o, k)
        rec(t + f".hasattr.{k}", [hasattr(o, k), k in vars(o), getattr(o, k, "fallback") == "fallback"
                                   if not isinstance(getattr(o, k, 0), np.ndarray) else "array"])
    elif op == 3:
        k = rng.choice(["nope", "Detrend", "smoothing_", "attr_dict_"])
        attempt(t + f".get.{k}", getattr, o, k)
    elif op == 4:
        attempt(t + ".save", o.save, fname)
        rec(t + ".file", file_bytes(fname))
    elif op == 5:
        if os.path.exists(fname):
            attempt(t + ".load", o.load, fname)
    elif op == 6:
        attempt(t + ".eq", lambda: [o == other, other == o, o != other])
    elif op == 7:
        attempt(t + ".deepcopy", lambda: state(copy.deepcopy(o)))
        attempt(t + ".pickle", lambda: pickle.dumps(o).hex())
    elif op == 8:
        k = rng.choice(o.attrs) if o.attrs else "hvsrpy_version"
        action = rng.randrange(4)
        if action == 0:
            o.attrs.remove(k)
        elif action == 1:
            o.attrs.append(k)
        elif action == 2:
            o.attrs.insert(0, rng.choice(["nope", "attrs", "hvsrpy_version"]))
        else:
            o.attrs = tuple(o.attrs)
        rec(t + ".attrs", obs(o.attrs))
    elif op == 9:
        attempt(t + ".attr_dict_set", setattr, o, "attr_dict", {})
        attempt(t + ".attr_dict_del", delattr, o, "attr_dict")
    elif op == 10:
        kwargs = {p: rand_argument(rng, p) for p in rng.sample(PARAMS[name], 2)}
        rec(t + ".reinit.args", obs(kwargs))
        attempt(t + ".reinit", lambda: o.__init__(**kwargs))
    elif op == 11:
        other = copy.deepcopy(o) if rng.random() < 0.5 else cls()
    elif op == 12:
        attempt(t + ".write", O.write_settings_object_to_file, o, fname)
        attempt(t + ".read", lambda: obs(O.read_settings_object_from_file(fname)))
    elif op == 13:
        # in place changes of stored containers show in attr_dict.
        for k, v in vars(o).items():
            if k != "attrs":
                mutate_in_place(v)
    elif op == 14:
        k = rng.choice(registered)
        v = vars(o).get(k, None)
        ad = attempt(t + ".attr_dict_once", lambda: o.attr_dict)[1]
        if ad is not None and k in ad:
            rec(t + ".attr_dict_alias", [k, ad[k] is v])
            if isinstance(ad[k], dict):
                ad[k]["from_attr_dict"] = 1
            elif isinstance(ad[k], list):
                ad[k].append("from_attr_dict")
    elif op == 15:
        vars(o)[rng.choice(registered)] = rand_value(rng)
    elif op == 16:
        o.__dict__.pop(rng.choice(registered), None)
    elif op == 17:
        attempt(t + ".setstate", lambda: o.__dict__.update(copy.deepcopy(vars(other))))
    elif op == 18:
        handcrafted = {rng.choice(registered + ["attrs", "attr_dict", "save", "__class__", "__dict__", "new key", ""]):
                       rng.choice([1, None, [1, 2], {"a": [1]}, "s", ["hvsrpy_version"]])
                       for _ in range(rng.randrange(1, 4))}
        handcrafted["tail"] = "after"
        with open(fname, "w") as f:
            json.dump(handcrafted, f)
        attempt(t + ".load_handcrafted", o.load, fname)
        attempt(t + ".load_handcrafted.repeat", o.load, fname)
    else:
        k = rng.choice(registered)
        attempt(t + f".cls.{k}", getattr, cls, k)
        rec(t + f".cls.hasattr.{k}", hasattr(cls, k))
    return fname, other


# ----------------------------------------------------------------------
# 6. save: partially written files, unusual but legal values
# ----------------------------------------------------------------------

def part_save_errors(rng):
    LoudStr.count = 0
    values = [
        {1, 2}, complex(1, 2), b"b", Tracked("x"), HasTolist([np.float64(1)]), HasTolist({1}),
        BadTolist(KeyboardInterrupt), BadTolist(ValueError), [np.float64(1), np.int32(2), np.bool_(False)],
        (np.float32(0.1), None), [np.array([1, 2]), [np.array(3.)]], {"a": np.arange(3), "b": [np.int8(1)]},
        {"a": {"b": np.arange(2)}}, {(1, 2): 3}, {1: 2, None: 3, True: 4, 2.5: 5}, {np.int64(1): 2},
        float("nan"), float("inf"), [float("-inf")], np.float64("nan"), np.str_("s"), np.array("s"),
        np.array([None, 1], dtype=object), np.array([{1}], dtype=object), np.datetime64("2020-01-01"),
        np.array([1 + 2j]), np.float16(0.1), range(3), LoudStr("x" * 50),
        {"k": LoudStr("y" * 41), "short": LoudStr("z")}, {"k": "w" * 41, 3: "v" * 40, "long key " * 6: 1},
        collections.OrderedDict(b=1, a=np.arange(2)), "é中", {"é": "\ud800"}, 10**400, -0.0,
        [[]], {}, (), [()], {"": None}, {None: None},
    ]
    for i, v in enumerate(values):
        for name in ("HvsrPreProcessingSettings", "HvsrTraditionalRotDppProcessingSettings"):
            cls = getattr(S, name)
            for position in (1, -1):
                o = cls()
                k = list(vars(o))[1:][position]
                setattr(o, k, v)
                tag = f"save.{i}.{name}.{k}"
                fname = f"save_{i}.json"
                with open(fname, "w") as f:
                    f.write("previous content " * 3)
                attempt(tag + ".attr_dict", lambda: o.attr_dict)
                attempt(tag + ".save", o.save, fname)
                rec(tag + ".file", file_bytes(fname))
                attempt(tag + ".save.repeat", o.save, fname)
                rec(tag + ".file.repeat", file_bytes(fname))
                rec(tag + ".psummary", captured(o.psummary))
                attempt(tag + ".repr", repr, o)
                attempt(tag + ".eq", lambda: o == cls())
                attempt(tag + ".eq_self", lambda: o == o)
                attempt(tag + ".eq_copy", lambda: o == copy.deepcopy(o))
                p = cls()
                attempt(tag + ".load", p.load, fname)
                rec(tag + ".loaded", state(p))
                attempt(tag + ".read", lambda: state(O.read_settings_object_from_file(fname)))
                rec(tag + ".state", state(o))
    rec("save.loudstr", LoudStr.count)
    o = S.PsdPreProcessingSettings()
    for target in ["missing_dir/x.json", "", ".", None, 3.5, b"bytes_name.json", ["x"]]:
        attempt(f"save.target.{target!r}", o.save, target)
        attempt(f"write.target.{target!r}", O.write_settings_object_to_file, o, target)
        attempt(f"load.target.{target!r}", o.load, target)
        attempt(f"read.target.{target!r}", O.read_settings_object_from_file, target)
    rec("save.bytes_name", file_bytes("bytes_name.json"))
    import pathlib
    attempt("save.pathlib", o.save, pathlib.Path("pathlib.json"))
    attempt("read.pathlib", lambda: state(O.read_settings_object_from_file(pathlib.Path("pathlib.json"))))
    # an attribute that went missing empties the file.
    for name in PUBLIC:
        o = getattr(S, name)()
        fname = f"missing_{name}.json"
        o.save(fname)
        k = list(vars(o))[-1]
        delattr(o, k)
        attempt(f"save.missing.{name}", o.save, fname)
        rec(f"save.missing.{name}.file", file_bytes(fname))
        attempt(f"save.missing.{name}.eq", lambda: o == getattr(S, name)())
        attempt(f"save.missing.{name}.eq_reflected", lambda: getattr(S, name)() == o)
        rec(f"save.missing.{name}.psummary", captured(o.psummary))
        attempt(f"save.missing.{name}.repr", repr, o)
        attempt(f"save.missing.{name}.str", str, o)
        setattr(o, k, 1)
        attempt(f"save.restored.{name}", o.save, fname)
        rec(f"save.restored.{name}.file", file_bytes(fname))
        rec(f"save.restored.{name}.keys", list(vars(o)))

    class Duck:
        def __init__(self):
            self.saved = []

        def save(self, fname):
            self.saved.append(fname)
            return "ignored"
    d = Duck()
    attempt("write.duck", O.write_settings_object_to_file, d, "duck.json")
    rec("write.duck.saved", d.saved)
    attempt("write.none", O.write_settings_object_to_file, None, "none.json")
    for other in [None, 1, "s", d, {}, S.HvsrPreProcessingSettings().attr_dict]:
        attempt(f"eq.other.{type(other).__name__}", lambda: S.HvsrPreProcessingSettings() == other)
        attempt(f"ne.other.{type(other).__name__}", lambda: S.HvsrPreProcessingSettings() != other)

    class FakeSettings:
        attr_dict = S.HvsrPreProcessingSettings().attr_dict
    attempt("eq.fake", lambda: [S.HvsrPreProcessingSettings() == FakeSettings(), FakeSettings() == S.HvsrPreProcessingSettings()])
    attempt("eq.cross", lambda: [S.HvsrDiffuseFieldProcessingSettings() == S.PsdProcessingSettings(),
                                 S.HvsrDiffuseFieldProcessingSettings(processing_method="psd") == S.PsdProcessingSettings(),
                                 S.HvsrTraditionalProcessingSettingsBase() == S.HvsrDiffuseFieldProcessingSettings(
                                     processing_method="traditional", handle_dissimilar_time_steps_by="frequency_domain_resampling")])


# ----------------------------------------------------------------------
# 7. reading handcrafted files
# ----------------------------------------------------------------------

def part_read(rng, n_cases):
    pre = ["psd", "hvsr", "PSD", "traditional", "", None, 1, ["psd"], {"psd": 1}, True, 0.0, "hvsr "]
    pro = ["psd", "azimuthal", "diffuse_field", "traditional", "hvsr", "rotdpp", None, ["traditional"],
           {"a": 1}, 2, "Traditional", "diffuse-field"]
    combine = ["rotdpp", "single_azimuth", "directional_energy", "geometric_mean", "squared_average",
               "arithmetic_mean", "quadratic_mean", "total_horizontal_energy", "vector_summation",
               "maximum_horizontal_value", "unknown", "", None, 5, ["rotdpp"], {"single_azimuth": 1},
               ["single_azimuth", "directional_energy"], "ROTDPP", True]
    extras = [("hvsrpy_version", "0.0.1"), ("detrend", None), ("smoothing", None), ("smoothing", {"operator": "parzen"}),
              ("azimuths_in_degrees", [1, 2]), ("azimuth_in_degrees", 33.5), ("attrs", ["hvsrpy_version"]),
              ("attrs", "text"), ("attr_dict", {}), ("load", 1), ("new", {"nested": [1, {"a": None}]}),
              ("fft_settings", {"n": 8}), ("window_type_and_width", ["tukey", 1e-3]), ("__class__", "x"),
              ("__dict__", {"a": 1}), ("__dict__", 5), ("psummary", None), ("__doc__", "d"), ("__eq__", 1),
              ("ppth_percentile_for_rotdpp_computation", 1e400), ("differentiate", float("nan"))]
    for case in range(n_cases):
        tag = f"read.{case}"
        fname = f"r{case}.json"
        style = rng.randrange(10)
        if style < 7:
            content = collections.OrderedDict()
            entries = []
            if rng.random() < 0.35:
                entries.append(("preprocessing_method", rng.choice(pre if rng.random() < 0.4 else pre[:2])))
            if rng.random() < 0.8:
                entries.append(("processing_method", rng.choice(pro if rng.random() < 0.3 else pro[:4] + ["traditional"] * 4)))
            if rng.random() < 0.7:
                entries.append(("method_to_combine_horizontals", rng.choice(combine)))
            entries.extend(rng.sample(extras, rng.randrange(0, 5)))
            rng.shuffle(entries)
            for k, v in entries:
                content[k] = v
            text = json.dumps(content)
        elif style == 7:
            text = rng.choice(["[]", "[1, 2]", "\"preprocessing_method\"", "3", "null", "true", "{}",
                               "[\"processing_method\"]", "{\"processing_method\": \"psd\"} trailing",
                               "", "{", "{'processing_method': 'psd'}", "NaN", "{\"a\": NaN}",
                               "{\"processing_method\": \"psd\", \"processing_method\": \"azimuthal\"}",
                               "{\"processing_method\": \"azimuthal\", \"preprocessing_method\": \"hvsr\"}",
                               "\ufeff{\"processing_method\": \"psd\"}"])
        else:
            # a saved default object with entries changed or removed.
            name = rng.choice(PUBLIC)
            content = json.loads(json.dumps(getattr(S, name)().attr_dict, default=lambda x: x.tolist()))
            for _ in range(rng.randrange(0, 3)):
                k = rng.choice(list(content))
                if rng.random() < 0.5:
                    del content[k]
                else:
                    content[k] = rng.choice([None, 1, [1], {"a": 1}, "directional_energy", "single_azimuth", "rotdpp"])
            text = json.dumps(content)
        with open(fname, "w", encoding="utf-8") as f:
            f.write(text)
        rec(tag + ".text", text)
        ok, o = attempt(tag + ".read", lambda: O.read_settings_object_from_file(fname))
        attempt(tag + ".read_again", lambda: O.read_settings_object_from_file(fname))
        if ok:
            rec(tag + ".keys", list(vars(o)))
            if callable(getattr(o, "psummary", None)) and callable(getattr(o, "load", None)):
                attempt(tag + ".attr_dict", lambda: o.attr_dict)
                attempt(tag + ".repr", repr, o)
                attempt(tag + ".save", O.write_settings_object_to_file, o, fname + ".out")
                rec(tag + ".out", file_bytes(fname + ".out"))
                attempt(tag + ".reread", lambda: O.read_settings_object_from_file(fname + ".out"))
        # load() of the same text into every kind of object.
        name = rng.choice(PUBLIC)
        p = getattr(S, name)()
        attempt(tag + f".load.{name}", p.load, fname)
        rec(tag + ".loaded", state(p))
    rec("read.unchanged", file_bytes("r0.json"))


# ----------------------------------------------------------------------
# 8. settings drive a small processing pipeline
# ----------------------------------------------------------------------

def part_pipeline(rng):
    nprng = np.random.default_rng(2024)
    n, dt = 6500, 0.01
    t = np.arange(n) * dt
    records = []
    for r in range(2):
        comps = [nprng.normal(size=n) + (2 if c < 2 else 0.5) * np.sin(2 * np.pi * 3. * t + c) for c in range(3)]
        records.append(hvsrpy.SeismicRecording3C(*[hvsrpy.TimeSeries(c, dt) for c in comps],
                                                 meta={"file name(s)": f"synthetic{r}"}))
    fcs = np.geomspace(0.5, 20, 24)
    smoothing = dict(operator="konno_and_ohmachi", bandwidth=40, center_frequencies_in_hz=fcs)

    def describe(result):
        if isinstance(result, dict):
            return {k: describe(v) for k, v in result.items()}
        out = []
        for attr in ("frequency", "amplitude", "azimuths", "meta"):
            try:
                out.append((attr, obs(getattr(result, attr))))
            except BaseException as e:
                out.append((attr, exc(e)))
        if hasattr(result, "hvsrs"):
            out.append(("hvsrs", [describe(h) for h in result.hvsrs]))
        return out

    pre_variants = [
        dict(),
        dict(window_length_in_seconds=np.float64(7.5), detrend="constant", filter_corner_frequencies_in_hz=(0.2, np.float64(30))),
        dict(window_length_in_seconds=15, detrend=None, orient_to_degrees_from_north=np.float32(15), filter_corner_frequencies_in_hz=np.array([0.3, 40.])),
    ]
    pro_variants = [
        (S.HvsrTraditionalProcessingSettings, dict(method_to_combine_horizontals="geometric_mean")),
        (S.HvsrTraditionalProcessingSettings, dict(method_to_combine_horizontals="total_horizontal_energy", window_type_and_width=("tukey", np.float64(0.2)))),
        (S.HvsrTraditionalSingleAzimuthProcessingSettings, dict(azimuth_in_degrees=np.int64(35))),
        (S.HvsrTraditionalRotDppProcessingSettings, dict(azimuths_in_degrees=(0, 60, 120), ppth_percentile_for_rotdpp_computation=np.float64(50))),
        (S.HvsrAzimuthalProcessingSettings, dict(azimuths_in_degrees=[0., 90.])),
        (S.HvsrAzimuthalProcessingSettings, dict(azimuths_in_degrees=np.array([30, 150]), fft_settings=dict(n=4096))),
        (S.HvsrDiffuseFieldProcessingSettings, dict()),
        (S.PsdProcessingSettings, dict()),
    ]
    for i, pre_kwargs in enumerate(pre_variants):
        pre = S.HvsrPreProcessingSettings(**copy.deepcopy(pre_kwargs))
        pre_before = state(pre)
        ok, n_windows = attempt(f"pipe.pre{i}", lambda: len(hvsrpy.preprocess(copy.deepcopy(records), pre)))
        if not ok:
            continue
        windows = hvsrpy.preprocess(copy.deepcopy(records), pre)
        rec(f"pipe.pre{i}.unchanged", state(pre) == pre_before)
        for j, (cls, kwargs) in enumerate(pro_variants):
            tag = f"pipe.{i}.{j}.{cls.__name__}"
            settings = cls(smoothing=smoothing, **copy.deepcopy(kwargs))
            if i > 0 and j % 2:
                # through a file: lists instead of arrays and tuples.
                settings.save("pipe.json")
                settings = O.read_settings_object_from_file("pipe.json")
            try:
                result = hvsrpy.process(copy.deepcopy(windows), settings)
            except BaseException as e:
                rec(tag + ".raised", exc(e))
                continue
            rec(tag + ".result", describe(result))
            rec(tag + ".settings_after", state(settings))
            if not isinstance(result, dict):
                rec(tag + ".meta_independent", [result.meta.get(k) is v for k, v in vars(settings).items()
                                                if isinstance(v, (list, dict, np.ndarray))])
    psd_pre = S.PsdPreProcessingSettings(window_length_in_seconds=10., differentiate=True)
    before = state(psd_pre)
    ok, n_windows = attempt("pipe.psdpre", lambda: len(hvsrpy.preprocess(copy.deepcopy(records), psd_pre)))
    rec("pipe.psdpre.unchanged", state(psd_pre) == before)
    attempt("pipe.psd.result", lambda: describe(hvsrpy.process(hvsrpy.preprocess(copy.deepcopy(records), psd_pre),
                                                               S.PsdProcessingSettings(smoothing=smoothing))))


def main():
    rng = random.Random(20261005)
    start = os.getcwd()
    scratch = tempfile.mkdtemp(prefix="equiv_", dir=os.path.dirname(os.path.abspath(__file__)))
    os.chdir(scratch)
    try:
        rec("version", [hvsrpy.__version__, sorted(S.__all__), sorted(O.__all__)])
        part_defaults()
        part_signature_errors()
        part_construction(rng, 500)
        part_interruptions(rng)
        part_seams(rng)
        part_sequences(rng, 300)
        part_save_errors(rng)
        part_read(rng, 300)
        part_pipeline(rng)
    finally:
        os.chdir(start)
        shutil.rmtree(scratch, ignore_errors=True)
    if VERBOSE:
        sys.stderr.write(f"{_N[0]} observations from {os.path.dirname(hvsrpy.__file__)}\n")
    print(f"DIGEST {_H.hexdigest()}")


if __name__ == "__main__":
    main()
